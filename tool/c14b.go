package main

// C14-R3..R5: the hand-written scanners.

import (
	"fmt"
	"go/token"
	"go/types"
	"sort"
	"strings"

	"golang.org/x/tools/go/ssa"
)

// byteBounds: the interval an atom imposes on a byte-valued operand recognised by isByte.
func byteBounds(a *Atom, isByte func(*Org) bool) (lo, hi int64, hasLo, hasHi bool) {
	if a.Rel == "" {
		return
	}
	if c, ok := a.L.ConstIntVal(); ok && isByte(a.R) {
		switch a.Rel {
		case "<":
			return c + 1, 0, true, false
		case "<=":
			return c, 0, true, false
		case "==":
			return c, c, true, true
		}
	}
	if c, ok := a.R.ConstIntVal(); ok && isByte(a.L) {
		switch a.Rel {
		case "<":
			return 0, c - 1, false, true
		case "<=":
			return 0, c, false, true
		case "==":
			return c, c, true, true
		}
	}
	return
}

func stripOrgConv(o *Org) *Org {
	for o != nil && (o.Kind == "unop" || o.Kind == "convert") && o.Base != nil {
		o = o.Base
	}
	return o
}

// digitPredicate: fn(b byte) bool that is true exactly on '0'..'9'.
func (p *Prog) digitPredicate(fn *ssa.Function) bool {
	if fn == nil || fn.Blocks == nil || fn.Signature.Params().Len() != 1 || fn.Signature.Results().Len() != 1 {
		return false
	}
	isPar := func(o *Org) bool { o = stripOrgConv(o); return o != nil && o.Kind == "param" }
	var rets []ssa.Value
	for _, b := range fn.Blocks {
		if r, ok := b.Instrs[len(b.Instrs)-1].(*ssa.Return); ok {
			rets = append(rets, r.Results[0])
		}
	}
	if len(rets) != 1 {
		return false
	}
	t := p.CondAtoms(rets[0], true)
	okLo := t.Implies(func(a *Atom) bool { lo, _, h, _ := byteBounds(a, isPar); return h && lo >= 48 })
	okHi := t.Implies(func(a *Atom) bool { _, hi, _, h := byteBounds(a, isPar); return h && hi <= 57 })
	f := p.CondAtoms(rets[0], false)
	okOut := f.Implies(func(a *Atom) bool {
		lo, hi, hl, hh := byteBounds(a, isPar)
		return hl && !hh && lo >= 58 || hh && !hl && hi <= 47
	})
	return okLo && okHi && okOut && len(t.Cs) > 0
}

// digitBoundsIn: does d confine the byte to '0'..'9'?
func (p *Prog) confinesToDigits(d DNF, isByte func(*Org) bool) (bool, bool) {
	lo := d.Implies(func(a *Atom) bool {
		if a.Rel == "" && a.Val && a.B.Kind == "call" && p.digitPredicate(a.B.Callee) && len(a.B.Args) == 1 && isByte(a.B.Args[0]) {
			return true
		}
		l, _, h, _ := byteBounds(a, isByte)
		return h && l >= 48
	})
	hi := d.Implies(func(a *Atom) bool {
		if a.Rel == "" && a.Val && a.B.Kind == "call" && p.digitPredicate(a.B.Callee) && len(a.B.Args) == 1 && isByte(a.B.Args[0]) {
			return true
		}
		_, u, _, h := byteBounds(a, isByte)
		return h && u <= 57
	})
	return lo, hi
}

type scanSite struct {
	fn    *ssa.Function
	mul   *ssa.BinOp
	acc   *ssa.Phi
	param int // the []byte parameter scanned
}

// digitScanners: functions of the root package that accumulate acc*10 + digit over the bytes of a parameter.
func (p *Prog) digitScanners() []scanSite {
	var out []scanSite
	for _, fn := range p.FuncsIn(modPath) {
		if fn.Pkg == nil || fn.Pkg.Pkg.Path() != modPath {
			continue
		}
		ForEachInstr(fn, func(in ssa.Instruction) {
			b, ok := in.(*ssa.BinOp)
			if !ok || b.Op != token.MUL {
				return
			}
			x, y := b.X, b.Y
			if n, isC := constIntOf(y); !isC || n != 10 {
				x, y = y, x
				if n, isC := constIntOf(y); !isC || n != 10 {
					return
				}
			}
			phi, ok := stripConv(x).(*ssa.Phi)
			if !ok {
				return
			}
			// a []byte parameter indexed in this function
			par := -1
			ForEachInstr(fn, func(in2 ssa.Instruction) {
				if ia, ok := in2.(*ssa.IndexAddr); ok {
					if pa, ok := ia.X.(*ssa.Parameter); ok {
						if sl, ok := pa.Type().Underlying().(*types.Slice); ok && types.Identical(sl.Elem(), types.Typ[types.Byte]) {
							for i, q := range fn.Params {
								if q == pa {
									par = i
								}
							}
						}
					}
				}
			})
			if par >= 0 {
				out = append(out, scanSite{fn, b, phi, par})
			}
		})
	}
	sort.Slice(out, func(i, j int) bool { return out[i].mul.Pos() < out[j].mul.Pos() })
	return out
}

func c14R3(c *Ctx) {
	p := c.P
	scanners := p.digitScanners()
	if len(scanners) == 0 {
		c.Violation("", "-", "no-digit-scanner", "no function of the package accumulates decimal digits of a byte-slice parameter (the integer scanner was not found)")
		return
	}
	seenFn := map[*ssa.Function]bool{}
	for _, s := range scanners {
		fn := s.fn
		name := FuncName(fn)
		isByte := func(o *Org) bool {
			o = stripOrgConv(o)
			return o != nil && (o.Kind == "index" || o.Kind == "next") && o.Base != nil && stripOrgConv(o.Base).Kind == "param" && stripOrgConv(o.Base).Param == s.param
		}
		d := p.ReachCond(s.mul.Block())
		lo, hi := p.confinesToDigits(d, isByte)
		c.Check(lo && hi, name, p.InstrPos(s.mul), "digits-only", "a byte reaches the accumulation only if it is in '0'..'9'",
			fmt.Sprintf("the accumulation is reached under %s, which does not confine the byte to '0'..'9' (lower bound shown: %v, upper bound shown: %v): a non-digit would be folded into the value instead of being rejected", d.String(), lo, hi))
		// accumulation guarded: a comparison on the accumulator dominates the multiply
		okAcc := d.Implies(func(a *Atom) bool {
			if a.Rel != "<" && a.Rel != "<=" {
				return false
			}
			for _, side := range []*Org{a.L, a.R} {
				so := stripOrgConv(side)
				if so != nil && so.Val != nil && stripConv(so.Val) == ssa.Value(s.acc) {
					return true
				}
			}
			return false
		})
		if !okAcc { // or a bound on the length of the text
			okAcc = d.Implies(func(a *Atom) bool {
				if a.Rel != "<" && a.Rel != "<=" {
					return false
				}
				k, isC := a.R.ConstIntVal()
				return isC && k <= 18 && a.L.IsCallTo("len")
			})
		}
		if okAcc {
			// the limit must account for the digit that is added: acc <= (max - digit)/10, not acc <= max/10
			var digit ssa.Value
			for _, ref := range *s.mul.Referrers() {
				if add, ok := ref.(*ssa.BinOp); ok && add.Op == token.ADD {
					if add.X == ssa.Value(s.mul) {
						digit = add.Y
					} else {
						digit = add.X
					}
				}
			}
			byLen := d.Implies(func(a *Atom) bool {
				if a.Rel != "<" && a.Rel != "<=" {
					return false
				}
				k, isC := a.R.ConstIntVal()
				return isC && k <= 18 && a.L.IsCallTo("len")
			})
			c.Check(byLen || accumulationGuardMentionsDigit(p, d, s.acc, digit), name, p.InstrPos(s.mul), "limit-accounts-for-digit", "the limit the accumulator is compared with depends on the digit being added",
				"the accumulator is compared with a limit that does not take the digit being added into account (acc > max/10 instead of acc > (max-digit)/10): on the boundary the last digit overflows, \"9223372036854775808\" reads as MinInt instead of yielding an error")
		}
		c.Check(okAcc, name, p.InstrPos(s.mul), "accumulation-guarded", "the accumulator is compared against a limit before it is multiplied",
			"acc*10+digit is computed without any comparison on the accumulator or bound on the number of digits: a long digit string wraps around silently and is accepted as a different number (\"18446744073709551617\" reads as 1) instead of yielding an error")
		if seenFn[fn] {
			continue
		}
		seenFn[fn] = true
		// non-empty: nil-error returns require len(param) != 0, here or at every caller
		selfGuard := true
		nret := 0
		for _, b := range fn.Blocks {
			r, ok := b.Instrs[len(b.Instrs)-1].(*ssa.Return)
			if !ok || len(r.Results) == 0 || !isErrorType(r.Results[len(r.Results)-1].Type()) {
				continue
			}
			ev := r.Results[len(r.Results)-1]
			var conds []DNF
			if phi, ok := ev.(*ssa.Phi); ok && phi.Block() == b {
				for i, e := range phi.Edges {
					if p.Origin(e).IsNil() {
						conds = append(conds, dnfAnd(p.ReachCond(b.Preds[i]), edgeCond(p, b.Preds[i], b)))
					}
				}
			} else if p.Origin(ev).IsNil() {
				conds = append(conds, p.ReachCond(b))
			}
			for _, d := range conds {
				nret++
				if !d.Implies(func(a *Atom) bool { return nonEmptyAtom(a, s.param) }) {
					selfGuard = false
				}
			}
		}
		if nret == 0 {
			c.Violation(name, p.Pos(fn.Pos()), "no-success-return", "the digit scanner has no return with a nil error")
			continue
		}
		if selfGuard {
			c.OK(name, p.Pos(fn.Pos()), "empty text rejected by the scanner itself")
		} else {
			sites := p.CallsTo(fn)
			exported := fn.Object() != nil && fn.Object().Exported()
			if exported || len(sites) == 0 {
				c.Violation(name, p.Pos(fn.Pos()), "empty-accepted", "the digit scanner returns a nil error without requiring a non-empty text: the empty string is accepted as 0")
			}
			for _, cs := range sites {
				ao := stripOrgConv(p.Origin(cs.Common().Args[s.param]))
				g := p.ReachCond(cs.Call.Block())
				ok := false
				switch {
				case ao.Kind == "param":
					ok = g.Implies(func(a *Atom) bool { return nonEmptyAtom(a, ao.Param) })
				case ao.Kind == "slice" && ao.Base != nil && stripOrgConv(ao.Base).Kind == "param":
					k, isC := ao.X.ConstIntVal()
					if ao.X == nil {
						k, isC = 0, true
					}
					bp := stripOrgConv(ao.Base).Param
					ok = isC && ao.Y == nil && g.Implies(func(a *Atom) bool {
						// k < len(param)
						if a.Rel == "<" && a.R.IsCallTo("len") {
							if c0, is := a.L.ConstIntVal(); is && c0 >= k && len(a.R.Args) == 1 && stripOrgConv(a.R.Args[0]).Kind == "param" && stripOrgConv(a.R.Args[0]).Param == bp {
								return true
							}
						}
						return k == 0 && nonEmptyAtom(a, bp)
					})
				}
				c.Check(ok, FuncName(cs.Fn), p.InstrPos(cs.Call), "empty-text-to-scanner", "caller passes a text shown non-empty",
					"the digit scanner "+name+" does not reject the empty text itself, and this call passes "+ao.String()+" under "+g.String()+", which does not show it non-empty: a text with no digits (e.g. a lone '-') is accepted as 0")
			}
		}
	}
	// sign: a scanner (or a wrapper of one) is given text[k:] only with k == 1 under text[0] == '-'
	wrappers := map[*ssa.Function]bool{}
	for fn := range seenFn {
		wrappers[fn] = true
	}
	for changed := true; changed; {
		changed = false
		for fn := range wrappers {
			for _, cs := range p.CallsTo(fn) {
				if len(cs.Fn.Blocks) <= 2 && !wrappers[cs.Fn] && p.InModule(cs.Fn) {
					wrappers[cs.Fn] = true
					changed = true
				}
			}
		}
	}
	nsign := 0
	for fn := range wrappers {
		for _, cs := range p.CallsTo(fn) {
			if len(cs.Common().Args) == 0 {
				continue
			}
			ao := stripOrgConv(p.Origin(cs.Common().Args[0]))
			if ao.Kind != "slice" || ao.X == nil {
				continue
			}
			k, isC := ao.X.ConstIntVal()
			if isC && k == 0 {
				continue
			}
			nsign++
			g := p.ReachCond(cs.Call.Block())
			ok := isC && k == 1 && g.Implies(func(a *Atom) bool {
				if a.Rel != "==" {
					return false
				}
				l, r := a.L, a.R
				if !r.IsConstInt(45) {
					l, r = r, l
				}
				l = stripOrgConv(l)
				return r.IsConstInt(45) && l != nil && l.Kind == "index" && l.Y.IsConstInt(0)
			})
			c.Check(ok, FuncName(cs.Fn), p.InstrPos(cs.Call), "sign-skipped", "the only byte skipped in front of the digits is a '-' at position 0",
				"the digits are scanned from "+ao.String()+" under "+g.String()+": a leading byte is skipped that was not shown to be '-' at position 0 (FIX int: optional '-' then digits)")
		}
	}
	if nsign == 0 {
		c.Violation("", "-", "no-sign-handling", "no caller of the digit scanner skips a leading '-': negative integers cannot be read")
	}
}

func nonEmptyAtom(a *Atom, param int) bool {
	isLen := func(o *Org) bool {
		return o != nil && o.IsCallTo("len") && len(o.Args) == 1 && stripOrgConv(o.Args[0]) != nil && stripOrgConv(o.Args[0]).Kind == "param" && stripOrgConv(o.Args[0]).Param == param
	}
	switch a.Rel {
	case "!=":
		return isLen(a.L) && a.R.IsConstInt(0) || isLen(a.R) && a.L.IsConstInt(0)
	case "<":
		if c, ok := a.L.ConstIntVal(); ok && c >= 0 && isLen(a.R) {
			return true
		}
	case "<=":
		if c, ok := a.L.ConstIntVal(); ok && c >= 1 && isLen(a.R) {
			return true
		}
	}
	return false
}

func c14R4(c *Ctx) {
	p := c.P
	// float readers: Read methods whose receiver's underlying type is a float and that call strconv.ParseFloat
	n := 0
	for _, fn := range p.FuncsIn(modPath) {
		if fn.Signature.Recv() == nil || fnName(fn) != "Read" || fn.Pkg == nil || fn.Pkg.Pkg.Path() != modPath {
			continue
		}
		var parse ssa.CallInstruction
		for _, cl := range Calls(fn) {
			if callName(cl.Common()) == "strconv.ParseFloat" {
				parse = cl
			}
		}
		if parse == nil {
			continue
		}
		n++
		name := FuncName(fn)
		isByte := func(o *Org) bool {
			o = stripOrgConv(o)
			return o != nil && (o.Kind == "index" || o.Kind == "next") && o.Base != nil && stripOrgConv(o.Base).Kind == "param"
		}
		// rejecting returns inside the byte loop: the condition names the exempted bytes
		exempt := map[int64]bool{}
		digits := false
		other := ""
		nrej := 0
		rejBlocks := map[*ssa.BasicBlock]bool{}
		for _, b := range fn.Blocks {
			r, ok := b.Instrs[len(b.Instrs)-1].(*ssa.Return)
			if !ok || p.Origin(r.Results[0]).IsNil() {
				continue
			}
			d := p.ReachCond(b)
			mentions := false
			for _, a := range d.Atoms() {
				if a.Rel != "" && (isByte(a.L) || isByte(a.R)) || a.Rel == "" && a.B.Kind == "call" && len(a.B.Args) == 1 && isByte(a.B.Args[0]) {
					mentions = true
				}
			}
			if !mentions {
				continue
			}
			nrej++
			rejBlocks[b] = true
			if len(d.Cs) != 1 && len(d.Extra) == 0 {
				other = "rejection condition is not a conjunction: " + d.String()
			}
			for _, a := range d.Atoms() {
				switch {
				case a.Rel == "!=" && (isByte(a.L) || isByte(a.R)):
					k, ok1 := a.L.ConstIntVal()
					if !ok1 {
						k, ok1 = a.R.ConstIntVal()
					}
					if ok1 {
						exempt[k] = true
					} else {
						other = a.String()
					}
				case a.Rel == "" && a.B.Kind == "call" && len(a.B.Args) == 1 && isByte(a.B.Args[0]):
					if !a.Val && p.digitPredicate(a.B.Callee) {
						digits = true
					} else {
						other = a.String()
					}
				case a.Rel != "" && (isByte(a.L) || isByte(a.R)):
					other = a.String()
				}
			}
		}
		c.Check(nrej > 0, name, p.Pos(fn.Pos()), "whitelist-present", "bytes outside the FIX float alphabet are rejected", "the float reader has no rejection that looks at the bytes: everything strconv.ParseFloat accepts (\"+1\", \"1e5\", \"inf\", \"0x1p-2\") is accepted")
		if nrej == 0 {
			continue
		}
		var ex []string
		for k := range exempt {
			ex = append(ex, fmt.Sprintf("%q", rune(k)))
		}
		sort.Strings(ex)
		okSet := digits && len(exempt) == 2 && exempt['.'] && exempt['-'] && other == ""
		c.Check(okSet, name, p.Pos(fn.Pos()), "whitelist-alphabet", "accepted alphabet is digits, '.', '-'",
			fmt.Sprintf("the float reader accepts bytes {%s}, digits=%v %s: the FIX float alphabet is digits, '.' and '-' — a wider set lets strconv's exponent/sign/hex forms through, a narrower one rejects canonical values", strings.Join(ex, ","), digits, other))
		// the value is stored only after the scan and only when ParseFloat succeeded
		for _, b := range fn.Blocks {
			for _, in := range b.Instrs {
				st, ok := in.(*ssa.Store)
				if !ok {
					continue
				}
				if _, isPar := st.Addr.(*ssa.Parameter); !isPar {
					continue
				}
				d := p.ReachCond(b)
				okErr := d.Implies(func(a *Atom) bool {
					return a.Rel == "==" && (a.L.Kind == "call" && a.L.CallI == ssa.Instruction(parse.(ssa.Instruction)) && a.R.IsNil() || a.R.Kind == "call" && a.R.CallI == ssa.Instruction(parse.(ssa.Instruction)) && a.L.IsNil())
				})
				// not inside the loop: no rejecting return reachable from the store block
				inLoop := false
				seen := map[*ssa.BasicBlock]bool{}
				var walk func(x *ssa.BasicBlock)
				walk = func(x *ssa.BasicBlock) {
					if seen[x] {
						return
					}
					seen[x] = true
					if rejBlocks[x] {
						inLoop = true
					}
					for _, s := range x.Succs {
						walk(s)
					}
				}
				walk(b)
				c.Check(okErr && !inLoop, name, p.InstrPos(st), "store-after-checks", "the value is stored only after ParseFloat succeeded and every byte was checked",
					fmt.Sprintf("the receiver is assigned under %s (ParseFloat error shown nil: %v; a rejection can still follow the store: %v): a rejected text leaves a value behind", d.String(), okErr, inLoop))
			}
		}
	}
	if n == 0 {
		c.Violation("", "-", "no-float-reader", "no Read method of the package calls strconv.ParseFloat")
	}
}

// C14-R5: timestamp writers format the UTC wall clock.
func c14R5(c *Ctx) {
	p := c.P
	n := 0
	for _, fn := range p.FuncsIn(modPath) {
		if fn.Signature.Recv() == nil || fnName(fn) != "Write" || fn.Pkg == nil || fn.Pkg.Pkg.Path() != modPath {
			continue
		}
		for _, cl := range Calls(fn) {
			if callName(cl.Common()) != "(time.Time).Format" {
				continue
			}
			n++
			ro := p.Origin(cl.Common().Args[0])
			lay, _ := p.Origin(cl.Common().Args[1]).ConstStringVal()
			zoned := strings.Contains(lay, "Z07") || strings.Contains(lay, "-07") || strings.Contains(lay, "MST")
			c.Check(ro.IsCallTo("(time.Time).UTC") || zoned, FuncName(fn), p.InstrPos(cl.(ssa.Instruction)), "utc-before-format", "the UTC wall clock is formatted",
				"the writer formats "+ro.String()+" with the zone-less layout \""+lay+"\" without converting to UTC first: a value held in another location is written as its local wall clock and reads back as a different instant")
		}
	}
	if n == 0 {
		c.Violation("", "-", "no-time-writer", "no Write method of the package formats a time")
	}
}
