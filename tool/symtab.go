package main

// Symbol-table snapshot (anchors.json) and rename detection.
//
// Rules name a few repository symbols (fields, methods, functions) directly, and ledger keys
// contain field names. A behaviour-preserving rename must not disturb them. The committed
// snapshot records, for every module package, the struct fields (name, type, in order), the
// methods and the functions (name, signature) of the tree the rules were confirmed on. At
// load time the current tree is diffed against it: a symbol that disappeared and a symbol
// of the same type/signature that appeared in the same scope, both unique, are taken to be
// one renamed symbol, and the analyser keeps calling it by its snapshot name ("canonical
// name"). Anything ambiguous is left alone: the anchor then fails (UNDECIDED), never a
// silent pass.

import (
	"encoding/json"
	"go/types"
	"os"
	"path/filepath"
	"sort"
	"strings"

	"golang.org/x/tools/go/ssa"
)

type symStruct struct {
	Fields [][2]string `json:"fields,omitempty"` // name, type
}

type symPkg struct {
	Funcs   map[string]string            `json:"funcs"`   // name -> signature
	Methods map[string]map[string]string `json:"methods"` // type -> name -> signature
	Structs map[string]symStruct         `json:"structs"`
	Vars    map[string]string            `json:"vars"` // package-level vars and consts -> type
}

type symTab map[string]*symPkg

func relType(t types.Type) string {
	return types.TypeString(t, func(p *types.Package) string {
		if strings.HasPrefix(p.Path(), modPath) {
			return strings.TrimPrefix(strings.TrimPrefix(p.Path(), modPath), "/")
		}
		return p.Path()
	})
}

func (p *Prog) currentSymtab() symTab {
	st := symTab{}
	for _, path := range expectedPkgs {
		pk := p.ByPath[path]
		if pk == nil || pk.Types == nil {
			continue
		}
		sp := &symPkg{Funcs: map[string]string{}, Methods: map[string]map[string]string{}, Structs: map[string]symStruct{}, Vars: map[string]string{}}
		sc := pk.Types.Scope()
		for _, name := range sc.Names() {
			switch o := sc.Lookup(name).(type) {
			case *types.Func:
				sp.Funcs[name] = relType(o.Type())
			case *types.Var:
				sp.Vars[name] = relType(o.Type())
			case *types.Const:
				sp.Vars[name] = "const " + relType(o.Type())
			case *types.TypeName:
				n, ok := o.Type().(*types.Named)
				if !ok {
					continue
				}
				if s, ok := n.Underlying().(*types.Struct); ok {
					var ss symStruct
					for i := 0; i < s.NumFields(); i++ {
						ss.Fields = append(ss.Fields, [2]string{s.Field(i).Name(), relType(s.Field(i).Type())})
					}
					sp.Structs[name] = ss
				}
				ms := map[string]string{}
				for i := 0; i < n.NumMethods(); i++ {
					m := n.Method(i)
					sig := m.Type().(*types.Signature)
					ms[m.Name()] = relType(types.NewSignatureType(nil, nil, nil, sig.Params(), sig.Results(), sig.Variadic()))
				}
				if it, ok := n.Underlying().(*types.Interface); ok {
					for i := 0; i < it.NumExplicitMethods(); i++ {
						m := it.ExplicitMethod(i)
						sig := m.Type().(*types.Signature)
						ms[m.Name()] = relType(types.NewSignatureType(nil, nil, nil, sig.Params(), sig.Results(), sig.Variadic()))
					}
				}
				if len(ms) > 0 {
					sp.Methods[name] = ms
				}
			}
		}
		st[path] = sp
	}
	return st
}

// canon: current object -> snapshot name; uncanon: scope key + snapshot name -> current name.
var (
	canonObj   = map[types.Object]string{}
	uncanon    = map[string]string{}
	symLoaded  bool
	symRenames []string
)

func symKey(parts ...string) string { return strings.Join(parts, "\x00") }

// uniquePairs pairs removed and added names whose descriptor (type/signature) matches uniquely.
func uniquePairs(old, cur map[string]string) map[string]string { // cur name -> old name
	removed := map[string][]string{}
	added := map[string][]string{}
	for n, d := range old {
		if _, ok := cur[n]; !ok {
			removed[d] = append(removed[d], n)
		}
	}
	for n, d := range cur {
		if _, ok := old[n]; !ok {
			added[d] = append(added[d], n)
		}
	}
	out := map[string]string{}
	for d, rs := range removed {
		if as := added[d]; len(rs) == 1 && len(as) == 1 {
			out[as[0]] = rs[0]
		}
	}
	return out
}

func (p *Prog) loadSymSnapshot() {
	if symLoaded {
		return
	}
	symLoaded = true
	b, err := os.ReadFile(filepath.Join(verifDir(), "anchors.json"))
	if err != nil {
		return
	}
	var old symTab
	if json.Unmarshal(b, &old) != nil {
		return
	}
	cur := p.currentSymtab()
	for path, op := range old {
		cp := cur[path]
		pk := p.ByPath[path]
		if cp == nil || pk == nil {
			continue
		}
		sc := pk.Types.Scope()
		// type renames first (methods and fields hang off types)
		typeDesc := func(sp *symPkg) map[string]string {
			m := map[string]string{}
			for n, s := range sp.Structs {
				var fs []string
				for _, f := range s.Fields {
					fs = append(fs, f[1])
				}
				m[n] = "struct{" + strings.Join(fs, ";") + "}"
			}
			return m
		}
		typeMap := uniquePairs(typeDesc(op), typeDesc(cp)) // cur -> old
		oldTypeOf := func(curName string) string {
			if o, ok := typeMap[curName]; ok {
				return o
			}
			return curName
		}
		for c, o := range typeMap {
			if obj := sc.Lookup(c); obj != nil {
				canonObj[obj] = o
				uncanon[symKey(path, "type", o)] = c
				symRenames = append(symRenames, path+": type "+o+" → "+c)
			}
		}
		for c, o := range uniquePairs(op.Funcs, cp.Funcs) {
			if obj := sc.Lookup(c); obj != nil {
				canonObj[obj] = o
				uncanon[symKey(path, "func", o)] = c
				symRenames = append(symRenames, path+": func "+o+" → "+c)
			}
		}
		for c, o := range uniquePairs(op.Vars, cp.Vars) {
			if obj := sc.Lookup(c); obj != nil {
				canonObj[obj] = o
				uncanon[symKey(path, "var", o)] = c
				symRenames = append(symRenames, path+": var "+o+" → "+c)
			}
		}
		for tn, cs := range cp.Structs {
			os_, ok := op.Structs[oldTypeOf(tn)]
			if !ok {
				continue
			}
			toMap := func(s symStruct) map[string]string {
				m := map[string]string{}
				for _, f := range s.Fields {
					m[f[0]] = f[1]
				}
				return m
			}
			tobj, _ := sc.Lookup(tn).(*types.TypeName)
			if tobj == nil {
				continue
			}
			stt, _ := tobj.Type().Underlying().(*types.Struct)
			if stt == nil {
				continue
			}
			for c, o := range uniquePairs(toMap(os_), toMap(cs)) {
				for i := 0; i < stt.NumFields(); i++ {
					if stt.Field(i).Name() == c {
						canonObj[stt.Field(i)] = o
						uncanon[symKey(path, "field", oldTypeOf(tn), o)] = c
						symRenames = append(symRenames, path+": field "+tn+"."+o+" → "+c)
					}
				}
			}
		}
		for tn, cm := range cp.Methods {
			om, ok := op.Methods[oldTypeOf(tn)]
			if !ok {
				continue
			}
			tobj, _ := sc.Lookup(tn).(*types.TypeName)
			if tobj == nil {
				continue
			}
			n, _ := tobj.Type().(*types.Named)
			if n == nil {
				continue
			}
			for c, o := range uniquePairs(om, cm) {
				for i := 0; i < n.NumMethods(); i++ {
					if n.Method(i).Name() == c {
						canonObj[n.Method(i)] = o
					}
				}
				if it, ok := n.Underlying().(*types.Interface); ok {
					for i := 0; i < it.NumExplicitMethods(); i++ {
						if it.ExplicitMethod(i).Name() == c {
							canonObj[it.ExplicitMethod(i)] = o
						}
					}
				}
				uncanon[symKey(path, "method", oldTypeOf(tn), o)] = c
				symRenames = append(symRenames, path+": method "+tn+"."+o+" → "+c)
			}
		}
	}
	sort.Strings(symRenames)
}

// cn: the canonical (snapshot) name of an object.
func cn(o types.Object) string {
	if o == nil {
		return ""
	}
	if s, ok := canonObj[o]; ok {
		return s
	}
	if f, ok := o.(*types.Func); ok {
		if s, ok := canonObj[f.Origin()]; ok {
			return s
		}
	}
	if v, ok := o.(*types.Var); ok && v.IsField() {
		if s, ok := canonObj[v.Origin()]; ok {
			return s
		}
	}
	return o.Name()
}

// fnName: canonical name of an SSA function (closures keep their $n suffix).
func fnName(fn *ssa.Function) string {
	if fn == nil {
		return ""
	}
	if o := fn.Object(); o != nil {
		return cn(o)
	}
	return fn.Name()
}

// current name of a snapshot name in a scope (for anchor lookups).
func currentName(kind, pkgPath string, rest ...string) string {
	k := symKey(append([]string{pkgPath, kind}, rest...)...)
	if c, ok := uncanon[k]; ok {
		return c
	}
	return rest[len(rest)-1]
}

func cmdAnchors(args []string) int {
	p, err := Load(repoDir())
	if err != nil {
		println(err.Error())
		return 2
	}
	b, _ := json.MarshalIndent(p.currentSymtab(), "", " ")
	if err := os.WriteFile(filepath.Join(verifDir(), "anchors.json"), append(b, '\n'), 0o644); err != nil {
		println(err.Error())
		return 2
	}
	println("wrote", filepath.Join(verifDir(), "anchors.json"))
	return 0
}
