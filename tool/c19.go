package main

import (
	"encoding/xml"
	"fmt"
	"go/token"
	"go/types"
	"os"
	"path/filepath"
	"reflect"
	"sort"
	"strings"

	"golang.org/x/tools/go/ssa"
)

func init() { register("C19", propC19) }

func propC19() Property {
	return Property{
		ID: "C19",
		Explanation: "R1 (undefined references refused): in the dictionary builder, whenever every lookup of a referenced field/component name on a path missed, the path returns a non-nil error; no plain (non comma-ok) lookup result is dereferenced. " +
			"R2 (vocabulary agreement): the element names and attributes used at each level of the nine shipped specs are exactly those bound by the XML* struct tags (an attribute the structs do not bind is silently dropped; a tag that occurs in no spec is a typo that drops data). " +
			"R3 (required propagation guards): a component's/group's required fields are taken from a part only under that part's own Required(); a message's RequiredTags only under allowRequired ∧ field.Required(), where allowRequired is the enclosing component's Required(); part lists are appended in declaration order. R4: part-type exhaustiveness and the cycle guard (C09-K4, K5). R5 (errors surface): in the dictionary package no return hands back a nil error on a path whose condition establishes that an error result of a call was non-nil (a shadowed `err` after `break`, a forgotten assignment): the refusal R1 proves at the leaf must reach the caller of Parse. R6 (immutability): a store into a field of a FieldDef / ComponentType / MessageDef / FieldType targets an object allocated in the same function (or the dictionary under construction in the builder); definitions reached through a shared pointer are never adjusted. R7: the function that processes a field part of a message enters it into MessageDef.Fields on every path. R5 also requires that the branch taken when an in-package call failed does not go round the enclosing loop again. R6 also covers slices: a definition under construction never adopts, or appends into, a slice handed out by another definition. R8: every *FieldDef the builder returns is constructed for that occurrence (constructor call chain ending in a fresh allocation), never looked up by name. R9: the method that collects the tags below a field definition calls itself on the members it ranges over; the enumeration table is built whenever at least one value is listed.",
		NotDecided: "that the flattened field sets equal the specification's for every message (a semantic comparison over ~900 definitions), enumeration values.",
		Rules: []RuleDef{
			{ID: "C19-R1", Desc: "missed name lookups end in an error", Min: 3, Run: c19R1},
			{ID: "C19-R2", Desc: "XML struct tags ⇄ spec vocabulary", Min: 10, Run: c19R2},
			{ID: "C19-R3", Desc: "required propagation guards", Min: 4, Run: c19R3},
			{ID: "C19-R4", Desc: "part types exhaustive, cyclic components refused", Min: 2, Run: c19R4},
			{ID: "C19-R5", Desc: "a detected build error is returned, never replaced by nil", Min: 5, Run: c19R5},
			{ID: "C19-R6", Desc: "shared definitions are never mutated after construction", Min: 5, Run: c19R6},
			{ID: "C19-R7", Desc: "every field part is entered into the message's field table", Min: 1, Run: c19R7},
			{ID: "C19-R8", Desc: "field/group definitions are constructed per occurrence, not taken from a by-name cache", Min: 2, Run: c19R8},
			{ID: "C19-R13", Desc: "a group's required members are not hoisted into what contains the group", Min: 1, Run: c19R13},
			{ID: "C19-R12", Desc: "enumeration values are keyed by the declared string as it is", Min: 1, Run: c19R12},
			{ID: "C19-R11", Desc: "a loaded dictionary is built in that call, never taken from a package-level cache", Min: 1, Run: c19R11},
			{ID: "C19-R10", Desc: "every declared component and message is built", Min: 2, Run: c19R10},
			{ID: "C19-R9", Desc: "child tags collected recursively; enumerations built from one value on", Min: 2, Run: c19R9},
		},
	}
}

func c19R1(c *Ctx) {
	p := c.P
	pk := modPath + "/datadictionary"
	for _, fn := range p.FuncsIn(pk) {
		var lookups []*ssa.Lookup
		ForEachInstr(fn, func(in ssa.Instruction) {
			l, ok := in.(*ssa.Lookup)
			if !ok {
				return
			}
			mt, isMap := l.X.Type().Underlying().(*types.Map)
			if !isMap {
				return
			}
			if bt, ok := mt.Key().Underlying().(*types.Basic); !ok || bt.Kind() != types.String {
				return
			}
			ko := p.Origin(l.Index)
			// keyed by the Name of an XML member (a reference), not by a definition's own name in a build-all loop
			if ko.Kind == "field" && cn(ko.Field) == "Name" && ko.Base != nil && ko.Base.Val != nil && typeName(ko.Base.Val.Type()) == "XMLComponentMember" {
				lookups = append(lookups, l)
			}
		})
		if len(lookups) == 0 {
			continue
		}
		name := FuncName(fn)
		for _, l := range lookups {
			if !l.CommaOk {
				// plain lookup: result must not be dereferenced
				deref := false
				for _, r := range *l.Referrers() {
					switch r.(type) {
					case *ssa.FieldAddr, *ssa.UnOp:
						deref = true
					}
				}
				c.Check(!deref, name, p.InstrPos(l), "plain-lookup", "plain lookup result not dereferenced", "the result of a plain map lookup by a referenced name is dereferenced: an undefined reference is a nil dereference, not an error")
			}
		}
		okAll := true
		nMiss := 0
		EnumPaths(fn, 2048, func(pa Path) {
			cond := p.PathCond(pa)
			executed, missed := 0, 0
			for _, b := range pa.Blocks {
				for _, in := range b.Instrs {
					for _, l := range lookups {
						if in == ssa.Instruction(l) && l.CommaOk {
							executed++
							if cond.Implies(func(a *Atom) bool {
								if a.Rel != "" || a.Val || a.B.Kind != "lookup" || a.B.Res != 1 {
									return false
								}
								ex, ok := a.B.Val.(*ssa.Extract)
								return ok && ex.Tuple == ssa.Value(l)
							}) {
								missed++
							}
						}
					}
				}
			}
			if executed == 0 || missed != executed {
				return
			}
			nMiss++
			last := pa.Blocks[len(pa.Blocks)-1]
			r := last.Instrs[len(last.Instrs)-1].(*ssa.Return)
			eo := p.Origin(r.Results[len(r.Results)-1])
			if eo.IsNil() || !isErrorType(r.Results[len(r.Results)-1].Type()) {
				okAll = false
			}
		})
		c.Check(okAll && nMiss > 0, name, p.Pos(fn.Pos()), "miss-is-error", fmt.Sprintf("%d path(s) on which every referenced-name lookup misses: all return an error", nMiss),
			"a path on which the referenced field/component name is not found returns without an error: a specification with a dangling reference would load with a silently missing part")
	}
}

// xmlTagsOf: attribute and element names bound by a struct's xml tags.
func xmlTagsOf(n *types.Named) (attrs, elems []string, any bool) {
	st, ok := n.Underlying().(*types.Struct)
	if !ok {
		return
	}
	for i := 0; i < st.NumFields(); i++ {
		tag := reflect.StructTag(st.Tag(i)).Get("xml")
		if tag == "" {
			continue
		}
		parts := strings.Split(tag, ",")
		nm := parts[0]
		isAttr, isAny := false, false
		for _, o := range parts[1:] {
			if o == "attr" {
				isAttr = true
			}
			if o == "any" {
				isAny = true
			}
		}
		switch {
		case isAny:
			any = true
		case isAttr:
			attrs = append(attrs, nm)
		case nm != "":
			elems = append(elems, nm)
		}
	}
	sort.Strings(attrs)
	sort.Strings(elems)
	return
}

func c19R2(c *Ctx) {
	p := c.P
	pk := modPath + "/datadictionary"
	// vocabulary of the shipped specs
	attrsOf := map[string]map[string]bool{}
	kidsOf := map[string]map[string]bool{}
	files, _ := filepath.Glob(filepath.Join(p.RepoDir, "spec", "*.xml"))
	if len(files) == 0 {
		c.Undecided("", "-", "specs", "no spec files")
		return
	}
	for _, f := range files {
		fh, err := os.Open(f)
		if err != nil {
			c.Undecided("", "-", "spec-open", err.Error())
			return
		}
		dec := xml.NewDecoder(fh)
		var stack []string
		for {
			tok, err := dec.Token()
			if err != nil {
				break
			}
			switch t := tok.(type) {
			case xml.StartElement:
				nm := t.Name.Local
				if attrsOf[nm] == nil {
					attrsOf[nm] = map[string]bool{}
				}
				for _, a := range t.Attr {
					attrsOf[nm][a.Name.Local] = true
				}
				if len(stack) > 0 {
					par := stack[len(stack)-1]
					if kidsOf[par] == nil {
						kidsOf[par] = map[string]bool{}
					}
					kidsOf[par][nm] = true
				}
				stack = append(stack, nm)
			case xml.EndElement:
				stack = stack[:len(stack)-1]
			}
		}
		fh.Close()
	}
	// binding of element → struct
	bind := map[string]string{"fix": "XMLDoc", "header": "XMLComponent", "trailer": "XMLComponent", "message": "XMLComponent", "value": "XMLValue"}
	// "component" appears both as a definition (components>component → XMLComponent) and as a member (XMLComponentMember);
	// "field" both as a definition (fields>field → XMLField) and as a member. Both bindings must cover the attributes used in that role.
	check := func(elem, typ string, used []string) {
		n := p.Named(pk, typ)
		attrs, _, _ := xmlTagsOf(n)
		have := map[string]bool{}
		for _, a := range attrs {
			have[a] = true
		}
		var missing []string
		for _, u := range used {
			if !have[u] {
				missing = append(missing, u)
			}
		}
		c.Check(len(missing) == 0, typ, "spec/*.xml", "attrs:"+elem+"→"+typ, fmt.Sprintf("<%s> attributes %v are all bound by %s", elem, used, typ), fmt.Sprintf("<%s> carries attribute(s) %v in the shipped specs that %s does not bind (struct tags %v): that data is silently dropped on load", elem, missing, typ, attrs))
	}
	sorted := func(m map[string]bool) []string {
		var s []string
		for k := range m {
			s = append(s, k)
		}
		sort.Strings(s)
		return s
	}
	for elem, typ := range bind {
		check(elem, typ, sorted(attrsOf[elem]))
	}
	// roles of field/component/group
	check("components>component", "XMLComponent", []string{"name"})
	check("fields>field", "XMLField", []string{"name", "number", "type"})
	for _, member := range []string{"field", "component", "group"} {
		used := map[string]bool{}
		for a := range attrsOf[member] {
			if a == "number" || a == "type" {
				continue // definition-role attributes of fields>field
			}
			used[a] = true
		}
		check("member "+member, "XMLComponentMember", sorted(used))
	}
	// every struct tag occurs in some spec
	allAttrs := map[string]bool{}
	allElems := map[string]bool{}
	for e, as := range attrsOf {
		allElems[e] = true
		for a := range as {
			allAttrs[a] = true
		}
	}
	for _, typ := range []string{"XMLDoc", "XMLComponent", "XMLField", "XMLValue", "XMLComponentMember"} {
		n := p.Named(pk, typ)
		attrs, elems, _ := xmlTagsOf(n)
		var unknown []string
		for _, a := range attrs {
			if !allAttrs[a] {
				unknown = append(unknown, "@"+a)
			}
		}
		for _, e := range elems {
			for _, seg := range strings.Split(e, ">") {
				if !allElems[seg] {
					unknown = append(unknown, "<"+seg+">")
				}
			}
		}
		c.Check(len(unknown) == 0, typ, p.Pos(n.Obj().Pos()), "tags-known:"+typ, typ+": every xml tag names something the shipped specs use", fmt.Sprintf("%s binds %v which no shipped spec uses: a misspelt tag makes the loader ignore the real element/attribute", typ, unknown))
	}
	// element paths of XMLDoc exist as parent>child in the specs
	doc := p.Named(pk, "XMLDoc")
	_, elems, _ := xmlTagsOf(doc)
	for _, e := range elems {
		segs := strings.Split(e, ">")
		ok := kidsOf["fix"][segs[0]]
		for i := 0; i+1 < len(segs); i++ {
			if !kidsOf[segs[i]][segs[i+1]] {
				ok = false
			}
		}
		c.Check(ok, "XMLDoc", p.Pos(doc.Obj().Pos()), "path:"+e, "element path fix>"+e+" exists in the specs", "XMLDoc binds element path "+e+" which does not occur under <fix> in the shipped specs")
	}
	// the member kinds the code distinguishes are the element names the specs use
	for _, m := range []string{"isComponent", "isGroup"} {
		fn := p.MethodOpt(pk, "XMLComponentMember", m)
		if fn == nil {
			c.Violation("XMLComponentMember", "-", "no-"+m, "member kind test "+m+" missing")
			continue
		}
		want := strings.ToLower(strings.TrimPrefix(m, "is"))
		got := ""
		ForEachInstr(fn, func(in ssa.Instruction) {
			if b, ok := in.(*ssa.BinOp); ok {
				if s, ok := p.Origin(b.Y).ConstStringVal(); ok {
					got = s
				}
				if s, ok := p.Origin(b.X).ConstStringVal(); ok {
					got = s
				}
			}
		})
		c.Check(got == want && allElems[want], FuncName(fn), p.Pos(fn.Pos()), "kind:"+want, m+" tests for element <"+want+">", fmt.Sprintf("%s tests for element name %q (the specs use <%s>)", m, got, want))
	}
}

func c19R3(c *Ctx) {
	p := c.P
	pk := modPath + "/datadictionary"
	// appends to requiredFields / RequiredTags.Add are guarded by the part's Required()
	for _, fname := range []string{"NewComponentType", "NewGroupFieldDef"} {
		fn := p.Func(pk, fname)
		n := 0
		ForEachInstr(fn, func(in ssa.Instruction) {
			st, ok := in.(*ssa.Store)
			if !ok {
				return
			}
			fa, ok := st.Addr.(*ssa.FieldAddr)
			if !ok {
				return
			}
			f := derefStruct(fa.X.Type()).Field(fa.Field)
			if cn(f) != "requiredFields" {
				return
			}
			ai := asAppend(st.Val)
			if ai == nil {
				return
			}
			n++
			d := p.ReachCond(st.Block())
			ok2 := d.Implies(func(a *Atom) bool {
				if a.Rel != "" || !a.Val {
					return false
				}
				if a.B.Kind == "call" && a.B.Method != nil && cn(a.B.Method) == "Required" {
					return true
				}
				return a.B.Kind == "field" && cn(a.B.Field) == "required"
			})
			c.Check(ok2, FuncName(fn), p.InstrPos(st), "required-guard", "required fields taken from a part only under that part's Required()", "fields are added to requiredFields under "+d.String()+": required fields of an optional part would be demanded (or required ones not)")
		})
		if n == 0 {
			c.Violation(FuncName(fn), p.Pos(fn.Pos()), "no-required-propagation", "required fields are never propagated")
		}
	}
	// NewMessageDef: a tag becomes required either (i) as a field listed directly in the message,
	// under allowRequired ∧ field.Required() with allowRequired = true only for direct fields, or
	// (ii) as a member of part.RequiredFields() of a part that is itself Required().
	nm := p.Func(pk, "NewMessageDef")
	nAdd := 0
	for _, f := range WithClosures(nm) {
		for _, cl := range Calls(f) {
			cal := cl.Common().StaticCallee()
			if cal == nil || fnName(cal) != "Add" {
				continue
			}
			ro := p.Origin(cl.Common().Args[0])
			if !(ro.Kind == "field" && cn(ro.Field) == "RequiredTags") {
				continue
			}
			nAdd++
			d := p.ReachCond(cl.Block())
			tag := p.Origin(cl.Common().Args[1])
			reqCall := func(a *Atom) bool {
				return a.Rel == "" && a.Val && a.B.Kind == "call" && (a.B.Method != nil && cn(a.B.Method) == "Required" || a.B.Callee != nil && fnName(a.B.Callee) == "Required")
			}
			fromRequiredFields := tag.Mentions(func(x *Org) bool {
				return x.Kind == "call" && x.Method != nil && cn(x.Method) == "RequiredFields"
			})
			if fromRequiredFields {
				c.Check(d.Implies(reqCall), FuncName(f), p.InstrPos(cl), "requiredtags-component", "component fields required via part.RequiredFields() only when the part is Required()", "required fields of a component are marked required in the message under "+d.String()+", not only when the component itself is required")
				continue
			}
			g1 := d.Implies(func(a *Atom) bool { return a.Rel == "" && a.Val && a.B.Kind == "param" })
			c.Check(g1 && d.Implies(reqCall), FuncName(f), p.InstrPos(cl), "requiredtags-guard", "RequiredTags.Add only under allowRequired ∧ field.Required()", "a tag is marked required under "+d.String())
		}
	}
	if nAdd == 0 {
		c.Violation(FuncName(nm), p.Pos(nm.Pos()), "no-requiredtags", "NewMessageDef never marks a tag required")
	}
	// calls of the per-field closure: allowRequired is the constant true only for a directly listed field
	for _, cl := range Calls(nm) {
		cc := cl.Common()
		if cc.StaticCallee() == nil || cc.StaticCallee().Parent() != nm || len(cc.Args) < 2 {
			continue
		}
		a1 := p.Origin(cc.Args[len(cc.Args)-1])
		a0 := p.Origin(cc.Args[len(cc.Args)-2])
		b, isC := a1.ConstBoolVal()
		switch {
		case isC && b:
			c.Check(a0.Kind == "typeassert", FuncName(nm), p.InstrPos(cl), "direct-field-required", "a field listed directly in the message may be required", "a flattened component field is processed with allowRequired = true")
		case isC && !b:
			c.OK(FuncName(nm), p.InstrPos(cl), "flattened component fields do not decide requiredness themselves")
		default:
			c.Violation(FuncName(nm), p.InstrPos(cl), "component-field-required", "each flattened field of a component is marked required when the field itself is required and "+a1.String()+": a required field of an OPTIONAL sub-component of a required component becomes required in the message")
		}
	}
}

func c19R4(c *Ctx) {
	// shared obligations restricted to the loader package: type-switch coverage of
	// MessagePart before the panicking default (C09-K4) and the component cycle guard (C09-K5)
	c.Filter = func(fn string) bool { return strings.Contains(fn, "datadictionary") }
	defer func() { c.Filter = nil }()
	c09K4(c)
	c09K5(c)
}

// C19-R5: an error detected while building is returned — no return hands back a nil error on a
// path on which an error result of an in-package call was found non-nil.
func c19R5(c *Ctx) {
	p := c.P
	n := 0
	for _, fn := range p.FuncsIn(modPath + "/datadictionary") {
		res := fn.Signature.Results()
		if res.Len() == 0 || !isErrorType(res.At(res.Len()-1).Type()) {
			continue
		}
		name := FuncName(fn)
		for _, b := range fn.Blocks {
			r, ok := b.Instrs[len(b.Instrs)-1].(*ssa.Return)
			if !ok {
				continue
			}
			ev := r.Results[len(r.Results)-1]
			var conds []DNF
			if phi, ok := ev.(*ssa.Phi); ok && phi.Block() == b {
				for i, e := range phi.Edges {
					if p.Origin(e).IsNil() {
						conds = append(conds, dnfAnd(p.ReachCond(b.Preds[i]), edgeCond(p, b.Preds[i], b)))
					}
				}
			} else if p.Origin(ev).IsNil() {
				conds = append(conds, p.ReachCond(b))
			}
			for _, d := range conds {
				n++
				bad := ""
				for _, a := range d.Atoms() {
					if a.Rel != "!=" {
						continue
					}
					l, rr := a.L, a.R
					if !rr.IsNil() {
						l, rr = rr, l
					}
					if rr.IsNil() && l.Kind == "call" && l.Val != nil && isErrorType(l.Val.Type()) {
						bad = a.String()
					}
				}
				c.Check(bad == "", name, p.InstrPos(r), "error-returned", "no detected error is replaced by nil", "a nil error is returned on a path on which "+bad+" was established: the failure found while building the dictionary is swallowed (a shadowed or forgotten error variable) and an incomplete dictionary is handed out as valid")
			}
		}
	}
	// and the branch taken when an in-package call failed ends the function: it may not go round a
	// loop again (continue) and leave the failure behind
	for _, fn := range p.FuncsIn(modPath + "/datadictionary") {
		res := fn.Signature.Results()
		if res.Len() == 0 || !isErrorType(res.At(res.Len()-1).Type()) {
			continue
		}
		for _, b := range fn.Blocks {
			iff, ok := b.Instrs[len(b.Instrs)-1].(*ssa.If)
			if !ok {
				continue
			}
			bo, ok := iff.Cond.(*ssa.BinOp)
			if !ok || bo.Op != token.NEQ || !p.Origin(bo.Y).IsNil() || !isErrorType(bo.X.Type()) {
				continue
			}
			eo := p.Origin(bo.X)
			if eo.Kind != "call" || eo.Callee == nil || !p.InModule(eo.Callee) {
				continue
			}
			n++
			t := b.Succs[0]
			// does the error branch reach a loop header that dominates it (i.e. continue)?
			again := false
			for _, l := range naturalLoops(fn) {
				if l.body[b] && reachesWithin(t, l.header, l.body) {
					again = true
				}
			}
			c.Check(!again, FuncName(fn), p.InstrPos(iff), "error-branch-leaves", "the failure branch leaves the function", "after "+eo.String()+" failed the function carries on with the next loop iteration: the failure is dropped, the definition that could not be built is silently missing and the file is accepted")
		}
	}
	if n == 0 {
		c.Violation("", "-", "no-builder-returns", "no function of the dictionary package returns a nil error")
	}
}

// reachesWithin: to is reachable from from by edges that stay inside body.
func reachesWithin(from, to *ssa.BasicBlock, body map[*ssa.BasicBlock]bool) bool {
	seen := map[*ssa.BasicBlock]bool{}
	var w func(b *ssa.BasicBlock) bool
	w = func(b *ssa.BasicBlock) bool {
		if b == to {
			return true
		}
		if seen[b] || !body[b] {
			return false
		}
		seen[b] = true
		for _, s := range b.Succs {
			if w(s) {
				return true
			}
		}
		return false
	}
	return w(from)
}

// C19-R6: definitions are immutable once built. FieldDef / ComponentType / MessageDef / FieldType
// values are shared by pointer between every message, component and group that uses them, so a
// store into one of their fields is allowed only on an object allocated in the same function
// (its constructor). A later "adjustment" through a shared pointer changes the definition for
// every other user.
// C19-R7: the message constructor records every field part: the insert into the message's field
// table is executed on every path through the function that processes a field part.
func c19R6(c *Ctx) {
	p := c.P
	defTypes := map[string]bool{"FieldDef": true, "ComponentType": true, "MessageDef": true, "FieldType": true, "DataDictionary": true}
	n := 0
	for _, fn := range p.FuncsIn(modPath + "/datadictionary") {
		ForEachInstr(fn, func(in ssa.Instruction) {
			st, ok := in.(*ssa.Store)
			if !ok {
				return
			}
			fa, ok := st.Addr.(*ssa.FieldAddr)
			if !ok {
				return
			}
			tn := typeName(fa.X.Type())
			if !defTypes[tn] {
				return
			}
			n++
			// the object: allocated here (new / composite literal), possibly through embedded struct paths
			base := fa.X
			for {
				if f2, ok := base.(*ssa.FieldAddr); ok {
					base = f2.X
					continue
				}
				break
			}
			_, isAlloc := base.(*ssa.Alloc)
			if cl, ok := base.(*ssa.Call); ok {
				// the result of a constructor that returns a fresh object
				if cal := cl.Call.StaticCallee(); cal != nil && p.InModule(cal) && returnsFresh(cal) {
					isAlloc = true
				}
			}
			isRecvBuilder := false
			if par, ok := base.(*ssa.Parameter); ok && len(fn.Params) > 0 && par == fn.Params[0] && fn.Signature.Recv() != nil {
				// methods of the builder that fill the dictionary under construction
				isRecvBuilder = typeName(fn.Signature.Recv().Type()) == "builder"
			}
			if ld, ok := base.(*ssa.UnOp); ok {
				// b.dict.X = … : the dictionary under construction, reached from the builder receiver
				if o := p.Origin(ld); o.Kind == "field" {
					if root, _ := o.FieldPath(); root != nil && root.Kind == "param" && root.Param == 0 && fn.Signature.Recv() != nil && typeName(fn.Signature.Recv().Type()) == "builder" {
						isRecvBuilder = true
					}
				}
			}
			f := derefStruct(fa.X.Type()).Field(fa.Field)
			if _, isSlice := st.Val.Type().Underlying().(*types.Slice); isSlice {
				// a definition never adopts another definition's slice: later appends would write into it
				vo := p.Origin(st.Val)
				adopted := vo.Kind == "call" && (vo.Callee == nil && vo.Method != nil || vo.Callee != nil && p.InModule(vo.Callee) && !returnsFreshSlice(vo.Callee))
				if vo.Kind == "phi" {
					for _, a := range vo.Alts {
						if a.Kind == "call" && (a.Callee == nil && a.Method != nil || a.Callee != nil && p.InModule(a.Callee) && !returnsFreshSlice(a.Callee)) {
							adopted = true
						}
					}
				}
				c.Check(!adopted, FuncName(fn), p.InstrPos(st), "slice-adopted:"+tn+"."+cn(f), "slice fields hold slices built for this object", "field "+cn(f)+" of the "+tn+" under construction is set to "+vo.String()+", the slice another definition hands out: the two definitions now share one backing array, and members appended to this one are written into the other (two definitions starting from the same sub-component overwrite each other's members)")
			}
			c.Check(isAlloc || isRecvBuilder, FuncName(fn), p.InstrPos(st), "definition-mutated:"+tn+"."+cn(f), "stores only into a definition allocated in this function",
				"field "+cn(f)+" of a "+tn+" that was not allocated in this function is overwritten ("+p.Origin(fa.X).String()+"): definitions are shared by pointer between all messages, components and groups that use them, so the change alters what the dictionary says everywhere else the definition is used")
		})
	}
	// appends never grow a slice obtained from another definition: append(x.Fields(), …) writes into
	// the backing array that the other definition (and everyone who copied its slice header) uses
	for _, fn := range p.FuncsIn(modPath + "/datadictionary") {
		ForEachInstr(fn, func(in ssa.Instruction) {
			v, ok := in.(ssa.Value)
			if !ok {
				return
			}
			ai := asAppend(v)
			if ai == nil {
				return
			}
			et := typeName(sliceElem(v.Type()))
			if et != "FieldDef" && et != "MessagePart" {
				return
			}
			n++
			bo := p.Origin(ai.Base)
			shared := false
			// a field of an object allocated in this function is the function's own slice
			own := false
			if ld, ok := stripConv(ai.Base).(*ssa.UnOp); ok {
				if fa, ok := ld.X.(*ssa.FieldAddr); ok {
					base := fa.X
					for {
						if f2, ok := base.(*ssa.FieldAddr); ok {
							base = f2.X
							continue
						}
						break
					}
					if _, isAl := base.(*ssa.Alloc); isAl {
						own = true
					}
					if par, isPar := base.(*ssa.Parameter); isPar && len(fn.Params) > 0 && par == fn.Params[0] && fn.Signature.Recv() != nil {
						own = true // a method filling its own receiver under construction
					}
				}
			}
			if own {
				c.OK(FuncName(fn), p.InstrPos(in), "append to a slice field of the object under construction")
				return
			}
			bo.Mentions(func(x *Org) bool {
				if x.Kind == "call" && x.Callee != nil && p.InModule(x.Callee) && !returnsFreshSlice(x.Callee) {
					shared = true
				}
				if x.Kind == "call" && x.Callee == nil && x.Method != nil {
					shared = true // interface accessor (Fields(), RequiredFields()): hands out the definition's own slice
				}
				return false
			})
			c.Check(!shared, FuncName(fn), p.InstrPos(in), "append-into-shared-slice", "appends grow only slices owned by the object under construction", "append grows "+bo.String()+", a slice handed out by another definition: when that slice has spare capacity the new elements are written into the other definition's backing array, and two definitions that start from the same sub-component overwrite each other's members")
		})
	}
	if n == 0 {
		c.Violation("", "-", "no-definition-stores", "no store into a dictionary definition found")
	}
}

// returnsFreshSlice: every return of fn is a slice made in fn (make / append onto nil / literal).
func returnsFreshSlice(fn *ssa.Function) bool {
	if fn == nil || fn.Blocks == nil {
		return false
	}
	n := 0
	for _, b := range fn.Blocks {
		r, ok := b.Instrs[len(b.Instrs)-1].(*ssa.Return)
		if !ok || len(r.Results) == 0 {
			continue
		}
		n++
		switch x := stripConv(r.Results[0]).(type) {
		case *ssa.MakeSlice:
		case *ssa.Slice:
			if _, isAl := x.X.(*ssa.Alloc); !isAl {
				return false
			}
		default:
			return false
		}
	}
	return n > 0
}

func c19R7(c *Ctx) {
	p := c.P
	fFields := p.Field(modPath+"/datadictionary", "MessageDef", "Fields")
	n := 0
	for _, fn := range p.FuncsIn(modPath + "/datadictionary") {
		ForEachInstr(fn, func(in ssa.Instruction) {
			mu, ok := in.(*ssa.MapUpdate)
			if !ok || !p.Origin(mu.Map).Mentions(func(x *Org) bool { return x.Kind == "field" && x.Field == fFields }) {
				return
			}
			n++
			okAll := true
			for _, b := range fn.Blocks {
				if _, isRet := b.Instrs[len(b.Instrs)-1].(*ssa.Return); isRet && !mu.Block().Dominates(b) {
					okAll = false
				}
			}
			c.Check(okAll, FuncName(fn), p.InstrPos(mu), "field-part-recorded", "every field part handed to the processor is entered into the message's field table", "the function that processes a field part of a message can return without entering the field into MessageDef.Fields: a field the specification declares for the message is missing from the loaded definition (it is then rejected as not defined for the message type, and never demanded when required)")
		})
	}
	if n == 0 {
		c.Violation("", "-", "no-field-table-insert", "nothing inserts into MessageDef.Fields")
	}
}

// returnsFresh: every return of fn hands back an object allocated in fn.
func returnsFresh(fn *ssa.Function) bool {
	n := 0
	for _, b := range fn.Blocks {
		r, ok := b.Instrs[len(b.Instrs)-1].(*ssa.Return)
		if !ok || len(r.Results) == 0 {
			continue
		}
		n++
		if _, isAlloc := stripConv(r.Results[0]).(*ssa.Alloc); !isAlloc {
			return false
		}
	}
	return n > 0
}

// C19-R8: a field or group definition returned by the builder is constructed for this occurrence:
// the *FieldDef results of the builder functions originate from a constructor call in the same
// function, never from a map lookup. (Components are global by name and are cached; groups are
// defined inline per message and the same name has different members in different messages.)
func c19R8(c *Ctx) {
	p := c.P
	n := 0
	for _, fn := range p.FuncsIn(modPath + "/datadictionary") {
		if fn.Signature.Recv() == nil || typeName(fn.Signature.Recv().Type()) != "builder" {
			continue
		}
		res := fn.Signature.Results()
		if res.Len() == 0 || typeName(res.At(0).Type()) != "FieldDef" {
			continue
		}
		for _, b := range fn.Blocks {
			r, ok := b.Instrs[len(b.Instrs)-1].(*ssa.Return)
			if !ok {
				continue
			}
			o := p.Origin(r.Results[0])
			if o.IsNil() {
				continue
			}
			n++
			okV := o.All(func(x *Org) bool {
				return x.IsNil() || x.Kind == "call" && x.Callee != nil && p.InModule(x.Callee) && p.returnsFreshDeep(x.Callee, x.Res, 0)
			})
			fromMap := o.Any(func(x *Org) bool { return x.Kind == "lookup" })
			c.Check(okV && !fromMap, FuncName(fn), p.InstrPos(r), "definition-built-per-occurrence", "the definition is the result of a constructor call in this function", "a field/group definition is returned from "+o.String()+" rather than constructed for this occurrence: groups are defined inline per message and the same group name has different members in different messages, so a definition reused by name gives later messages the member list of the first one")
		}
	}
	if n == 0 {
		c.Violation("", "-", "no-fielddef-builder", "no builder function returns a *FieldDef")
	}
}

// returnsFreshDeep: result #res of fn is, on every return, nil, an object allocated in fn, or the
// result of an in-module function for which the same holds.
func (p *Prog) returnsFreshDeep(fn *ssa.Function, res int, depth int) bool {
	if fn == nil || fn.Blocks == nil || depth > 3 {
		return false
	}
	n := 0
	for _, b := range fn.Blocks {
		r, ok := b.Instrs[len(b.Instrs)-1].(*ssa.Return)
		if !ok || res >= len(r.Results) {
			continue
		}
		n++
		var vals []ssa.Value
		if phi, ok := r.Results[res].(*ssa.Phi); ok {
			vals = phi.Edges
		} else {
			vals = []ssa.Value{r.Results[res]}
		}
		for _, v := range vals {
			v = stripConv(v)
			switch x := v.(type) {
			case *ssa.Alloc:
			case *ssa.Const:
				if !x.IsNil() {
					return false
				}
			case *ssa.Call:
				cal := x.Call.StaticCallee()
				if cal == nil || !p.InModule(cal) || !p.returnsFreshDeep(cal, 0, depth+1) {
					return false
				}
			case *ssa.Extract:
				cl, ok := x.Tuple.(*ssa.Call)
				if !ok {
					return false
				}
				cal := cl.Call.StaticCallee()
				if cal == nil || !p.InModule(cal) || !p.returnsFreshDeep(cal, x.Index, depth+1) {
					return false
				}
			default:
				return false
			}
		}
	}
	return n > 0
}
