package main

// Loading: packages.Load(LoadAllSyntax) on /repo's working tree, SSA, call graphs.
// Nothing from /repo is executed.

import (
	"fmt"
	"go/ast"
	"go/constant"
	"go/token"
	"go/types"
	"os"
	"sort"
	"strings"
	"time"

	"golang.org/x/tools/go/callgraph"
	"golang.org/x/tools/go/callgraph/cha"
	"golang.org/x/tools/go/callgraph/vta"
	"golang.org/x/tools/go/packages"
	"golang.org/x/tools/go/ssa"
	"golang.org/x/tools/go/ssa/ssautil"
)

const modPath = "github.com/quickfixgo/quickfix"

// expectedPkgs must all be present in the load, otherwise the check is undecided.
var expectedPkgs = []string{
	modPath,
	modPath + "/config",
	modPath + "/datadictionary",
	modPath + "/internal",
	modPath + "/store/file",
	modPath + "/store/sql",
	modPath + "/store/mongo",
}

type Prog struct {
	RepoDir string
	Fset    *token.FileSet
	Pkgs    []*packages.Package
	ByPath  map[string]*packages.Package
	SSA     *ssa.Program
	SPkg    map[string]*ssa.Package
	Root    *ssa.Package
	// Funcs: every function with a body whose package is in the module (incl. anonymous
	// functions and methods), sorted by position.
	Funcs []*ssa.Function

	vtaG *callgraph.Graph
	chaG *callgraph.Graph

	// static caller index: callee -> call sites
	callersOf map[*ssa.Function][]ssa.CallInstruction

	LoadS, SSAS, GraphS float64
	fileOf              map[*ast.File]*packages.Package
}

func env() []string {
	e := []string{}
	for _, kv := range os.Environ() {
		if strings.HasPrefix(kv, "GOWORK=") || strings.HasPrefix(kv, "GOFLAGS=") ||
			strings.HasPrefix(kv, "GOPROXY=") || strings.HasPrefix(kv, "GOSUMDB=") ||
			strings.HasPrefix(kv, "GOTOOLCHAIN=") {
			continue
		}
		e = append(e, kv)
	}
	return append(e, "GOWORK=off", "GOFLAGS=-mod=mod", "GOPROXY=off", "GOSUMDB=off", "GOTOOLCHAIN=local")
}

func Load(repo string) (*Prog, error) {
	t0 := time.Now()
	cfg := &packages.Config{
		Mode:  packages.LoadAllSyntax,
		Dir:   repo,
		Tests: false,
		Env:   env(),
	}
	pkgs, err := packages.Load(cfg, "./...")
	if err != nil {
		return nil, fmt.Errorf("packages.Load: %v", err)
	}
	if len(pkgs) == 0 {
		return nil, fmt.Errorf("no packages loaded from %s", repo)
	}
	p := &Prog{RepoDir: repo, Pkgs: pkgs, ByPath: map[string]*packages.Package{}, SPkg: map[string]*ssa.Package{}}
	var errs []string
	packages.Visit(pkgs, nil, func(pk *packages.Package) {
		if strings.HasPrefix(pk.PkgPath, modPath) {
			for _, e := range pk.Errors {
				errs = append(errs, e.Error())
			}
		}
	})
	if len(errs) > 0 {
		return nil, fmt.Errorf("type errors in module packages: %s", strings.Join(errs, "; "))
	}
	for _, pk := range pkgs {
		p.ByPath[pk.PkgPath] = pk
	}
	for _, want := range expectedPkgs {
		if p.ByPath[want] == nil {
			return nil, fmt.Errorf("expected package %s not loaded", want)
		}
	}
	p.Fset = pkgs[0].Fset
	p.LoadS = time.Since(t0).Seconds()

	t1 := time.Now()
	prog, spkgs := ssautil.AllPackages(pkgs, ssa.InstantiateGenerics)
	prog.Build()
	p.SSA = prog
	for i, sp := range spkgs {
		if sp != nil {
			p.SPkg[pkgs[i].PkgPath] = sp
		}
	}
	p.Root = p.SPkg[modPath]
	if p.Root == nil {
		return nil, fmt.Errorf("no SSA for root package")
	}
	p.fileOf = map[*ast.File]*packages.Package{}
	for _, pk := range pkgs {
		for _, f := range pk.Syntax {
			p.fileOf[f] = pk
		}
	}
	// no reflect/unsafe in analysed module packages (trusted-base assertion)
	for _, pk := range pkgs {
		for imp := range pk.Imports {
			if imp == "unsafe" {
				return nil, fmt.Errorf("package %s imports unsafe: call-graph soundness assumption broken", pk.PkgPath)
			}
		}
	}
	all := ssautil.AllFunctions(prog)
	for fn := range all {
		if fn.Blocks == nil {
			continue
		}
		if pk := fnPkg(fn); pk != nil && strings.HasPrefix(pk.Pkg.Path(), modPath) {
			if fn.Synthetic != "" && !strings.HasPrefix(fn.Synthetic, "bound") && fn.Parent() == nil && fn.Pos() == token.NoPos {
				// wrappers, thunks, init: keep out of the source function list
				continue
			}
			p.Funcs = append(p.Funcs, fn)
		}
	}
	sort.Slice(p.Funcs, func(i, j int) bool {
		a, b := p.Funcs[i], p.Funcs[j]
		if a.Pos() != b.Pos() {
			return a.Pos() < b.Pos()
		}
		return a.String() < b.String()
	})
	p.SSAS = time.Since(t1).Seconds()

	p.callersOf = map[*ssa.Function][]ssa.CallInstruction{}
	for fn := range all {
		for _, b := range fn.Blocks {
			for _, in := range b.Instrs {
				if c, ok := in.(ssa.CallInstruction); ok {
					if cal := c.Common().StaticCallee(); cal != nil {
						p.callersOf[cal] = append(p.callersOf[cal], c)
					}
				}
			}
		}
	}
	return p, nil
}

func fnPkg(fn *ssa.Function) *ssa.Package {
	for fn != nil {
		if fn.Pkg != nil {
			return fn.Pkg
		}
		if fn.Origin() != nil && fn.Origin() != fn {
			fn = fn.Origin()
			continue
		}
		fn = fn.Parent()
	}
	return nil
}

func (p *Prog) InModule(fn *ssa.Function) bool {
	pk := fnPkg(fn)
	return pk != nil && strings.HasPrefix(pk.Pkg.Path(), modPath)
}

func (p *Prog) VTA() *callgraph.Graph {
	if p.vtaG == nil {
		t := time.Now()
		p.vtaG = vta.CallGraph(ssautil.AllFunctions(p.SSA), p.CHA())
		p.GraphS += time.Since(t).Seconds()
	}
	return p.vtaG
}

func (p *Prog) CHA() *callgraph.Graph {
	if p.chaG == nil {
		t := time.Now()
		p.chaG = cha.CallGraph(p.SSA)
		p.GraphS += time.Since(t).Seconds()
	}
	return p.chaG
}

// Pos renders a position relative to the repo.
func (p *Prog) Pos(pos token.Pos) string {
	if pos == token.NoPos {
		return "-"
	}
	ps := p.Fset.Position(pos)
	f := strings.TrimPrefix(ps.Filename, p.RepoDir+"/")
	return fmt.Sprintf("%s:%d", f, ps.Line)
}

func (p *Prog) InstrPos(in ssa.Instruction) string {
	pos := in.Pos()
	if pos == token.NoPos {
		if v, ok := in.(ssa.Value); ok {
			_ = v
		}
		// fall back to nearest positioned instruction in block
		b := in.Block()
		for _, x := range b.Instrs {
			if x.Pos() != token.NoPos {
				pos = x.Pos()
				if x == in {
					break
				}
			}
		}
		if pos == token.NoPos {
			pos = in.Parent().Pos()
		}
	}
	return p.Pos(pos)
}

// ---- anchors ----------------------------------------------------------------

type AnchorErr struct{ What string }

func (e AnchorErr) Error() string { return "UNDECIDED anchor=" + e.What }

// anchorFail panics with an AnchorErr; the rule runner turns it into an undecided verdict.
func anchorFail(format string, a ...any) {
	panic(AnchorErr{fmt.Sprintf(format, a...)})
}

func (p *Prog) Pkg(path string) *packages.Package {
	pk := p.ByPath[path]
	if pk == nil {
		anchorFail("package %s", path)
	}
	return pk
}

// Obj looks up a package-level object.
func (p *Prog) Obj(pkgPath, name string) types.Object {
	p.loadSymSnapshot()
	o := p.Pkg(pkgPath).Types.Scope().Lookup(name)
	if o == nil {
		for _, kind := range []string{"type", "func", "var"} {
			if c := currentName(kind, pkgPath, name); c != name {
				o = p.Pkg(pkgPath).Types.Scope().Lookup(c)
				break
			}
		}
	}
	if o == nil {
		anchorFail("%s.%s", pkgPath, name)
	}
	return o
}

func (p *Prog) Named(pkgPath, name string) *types.Named {
	o := p.Obj(pkgPath, name)
	tn, ok := o.(*types.TypeName)
	if !ok {
		anchorFail("%s.%s is not a type", pkgPath, name)
	}
	n, ok := tn.Type().(*types.Named)
	if !ok {
		anchorFail("%s.%s is not a named type", pkgPath, name)
	}
	return n
}

func (p *Prog) Iface(pkgPath, name string) *types.Interface {
	n := p.Named(pkgPath, name)
	i, ok := n.Underlying().(*types.Interface)
	if !ok {
		anchorFail("%s.%s is not an interface", pkgPath, name)
	}
	return i
}

// Field returns the field object of a struct type (searching embedded structs one level deep by name).
func (p *Prog) Field(pkgPath, typ, field string) *types.Var {
	n := p.Named(pkgPath, typ)
	st, ok := n.Underlying().(*types.Struct)
	if !ok {
		anchorFail("%s.%s is not a struct", pkgPath, typ)
	}
	for i := 0; i < st.NumFields(); i++ {
		if st.Field(i).Name() == field {
			return st.Field(i)
		}
	}
	if c := currentName("field", pkgPath, typ, field); c != field {
		for i := 0; i < st.NumFields(); i++ {
			if st.Field(i).Name() == c {
				return st.Field(i)
			}
		}
	}
	anchorFail("field %s.%s.%s", pkgPath, typ, field)
	return nil
}

// ConstInt returns the integer value of a package-level constant.
func (p *Prog) ConstInt(pkgPath, name string) int64 {
	o := p.Obj(pkgPath, name)
	c, ok := o.(*types.Const)
	if !ok {
		anchorFail("%s.%s is not a constant", pkgPath, name)
	}
	v, ok := constant.Int64Val(constant.ToInt(c.Val()))
	if !ok {
		anchorFail("%s.%s is not an integer constant", pkgPath, name)
	}
	return v
}

func (p *Prog) Tag(name string) int64 { return p.ConstInt(modPath, name) }

// Method returns the *ssa.Function for a method of a named type (value or pointer receiver).
func (p *Prog) Method(pkgPath, typ, name string) *ssa.Function {
	n := p.Named(pkgPath, typ)
	if c := currentName("method", pkgPath, typ, name); c != name {
		if n.Obj().Pkg().Scope().Lookup(typ) != nil || true {
			found := false
			for _, T := range []types.Type{n, types.NewPointer(n)} {
				if p.SSA.MethodSets.MethodSet(T).Lookup(n.Obj().Pkg(), name) != nil {
					found = true
				}
			}
			if !found {
				name = c
			}
		}
	}
	for _, T := range []types.Type{n, types.NewPointer(n)} {
		sel := p.SSA.MethodSets.MethodSet(T).Lookup(n.Obj().Pkg(), name)
		if sel != nil {
			if fn := p.SSA.MethodValue(sel); fn != nil {
				// peel wrappers for promoted methods
				return fn
			}
		}
	}
	anchorFail("method %s.%s.%s", pkgPath, typ, name)
	return nil
}

// MethodOpt is Method without the failure.
func (p *Prog) MethodOpt(pkgPath, typ, name string) (fn *ssa.Function) {
	defer func() {
		if r := recover(); r != nil {
			if _, ok := r.(AnchorErr); ok {
				fn = nil
				return
			}
			panic(r)
		}
	}()
	return p.Method(pkgPath, typ, name)
}

func (p *Prog) Func(pkgPath, name string) *ssa.Function {
	sp := p.SPkg[pkgPath]
	if sp == nil {
		anchorFail("package %s", pkgPath)
	}
	p.loadSymSnapshot()
	fn := sp.Func(name)
	if fn == nil {
		if c := currentName("func", pkgPath, name); c != name {
			fn = sp.Func(c)
		}
	}
	if fn == nil {
		anchorFail("func %s.%s", pkgPath, name)
	}
	return fn
}

// FuncsIn returns source functions whose package path equals one of paths.
func (p *Prog) FuncsIn(paths ...string) []*ssa.Function {
	var out []*ssa.Function
	for _, fn := range p.Funcs {
		pk := fnPkg(fn)
		for _, pa := range paths {
			if pk.Pkg.Path() == pa {
				out = append(out, fn)
				break
			}
		}
	}
	return out
}

// FuncName is a compact stable name: pkg-relative, with receiver.
func FuncName(fn *ssa.Function) string {
	if fn == nil {
		return "<nil>"
	}
	s := fn.String()
	if top := TopFunc(fn); top.Object() != nil {
		if c := cn(top.Object()); c != top.Name() {
			if i := strings.LastIndex(s, "."+top.Name()); i >= 0 {
				s = s[:i] + "." + c + s[i+1+len(top.Name()):]
			} else if strings.HasPrefix(s, top.Name()) {
				s = c + s[len(top.Name()):]
			}
		}
	}
	s = strings.ReplaceAll(s, modPath+"/", "")
	s = strings.ReplaceAll(s, modPath+".", "")
	s = strings.ReplaceAll(s, modPath, "quickfix")
	return s
}

// TopFunc returns the outermost enclosing named function.
func TopFunc(fn *ssa.Function) *ssa.Function {
	for fn.Parent() != nil {
		fn = fn.Parent()
	}
	return fn
}

// StaticCallers returns in-module static call sites of fn.
func (p *Prog) StaticCallers(fn *ssa.Function) []ssa.CallInstruction {
	var out []ssa.CallInstruction
	for _, c := range p.callersOf[fn] {
		if p.InModule(c.Parent()) {
			out = append(out, c)
		}
	}
	sort.Slice(out, func(i, j int) bool { return out[i].Pos() < out[j].Pos() })
	return out
}
