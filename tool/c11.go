package main

import (
	"fmt"
	"go/token"
	"go/types"
	"sort"
	"strings"

	"golang.org/x/tools/go/ssa"
)

func init() { register("C11", propC11) }

func propC11() Property {
	return Property{
		ID: "C11",
		Explanation: "R1 (classification tables vs shipped specs): every header field of every spec/*.xml is in Tag.IsHeader's case set, every trailer field in IsTrailer's, and no field that occurs in the body of any shipped message (components and groups expanded) is in either. " +
			"R2 (leading order): the parse routine extracts BeginString(8), BodyLength(9), MsgType(35) with those constants in that order, returns the error of each on its non-nil edge, the specific extractor rejects a different tag, and all three precede every other field extraction. " +
			"R3 (length guard): a parse error is produced exactly under Σ field lengths ≠ BodyLength(9) (unless the message carried XMLData), and when tag 9 cannot be read. R4 (= C10-R3): reader and writer exclude exactly {8,9,10} from the length. " +
			"R5 (section routing): in the field loop a field is added to Header under isHeaderField, to Trailer under ¬header ∧ isTrailerField, to Body otherwise; the classification helpers consult the Tag tables and the transport dictionary only, and every call passes the transport dictionary. R6: TagValue.parse takes the FIRST '=' as the separator: its fixed-position fast path probes ascending positions and records the position it probed. R7: every FieldMap accessor call in the engine with a constant tag on a message's Header / Body / Trailer addresses the section Tag.IsHeader / IsTrailer assign to that tag. R8: Header, Body and Trailer are each cleared before the parse files a field into them (a reused Message exposes only what is on the wire); the flag that lifts the BodyLength comparison is set only on the path that extracted an XML payload with the length-driven extractor. R9: every window of the raw input that the field parser stores into the parsed TagValue is a three-index slice whose capacity ends where its length ends. R10: the XMLDataLen pick-up that arms the length-driven extraction runs for every parsed field: its reach condition contains no classification of the field (the group sub-parser may already have filed the field).",
		NotDecided: "slicing arithmetic of field values, dictionary-guided group parsing (C13), that raw bytes are returned unchanged.",
		Rules: []RuleDef{
			{ID: "C11-R1", Desc: "header/trailer tag tables vs shipped specs", Min: 9, Run: c11R1},
			{ID: "C11-R2", Desc: "8, 9, 35 extracted first, in order, errors returned", Min: 5, Run: c11R2},
			{ID: "C11-R3", Desc: "BodyLength guard", Min: 2, Run: c11R3},
			{ID: "C11-R4", Desc: "length exclusion sets (shared with C10-R3)", Min: 3, Run: c10R3},
			{ID: "C11-R5", Desc: "section routing of parsed fields", Min: 3, Run: c11R5},
			{ID: "C11-R12", Desc: "the parser hands on exactly the field entries it extracted", Min: 1, Run: c11R12},
			{ID: "C11-R11", Desc: "section classifiers ask the built-in table first and return its yes", Min: 2, Run: c11R11},
			{ID: "C11-R6", Desc: "tag/value separator is the first '='", Min: 4, Run: c11R6},
			{ID: "C11-R7", Desc: "constant-tag accesses address the section the parser files the tag in", Min: 20, Run: sectionAccessRule},
			{ID: "C11-R8", Desc: "sections cleared before the parse; BodyLength exemption only after XML extraction", Min: 4, Run: c11R8},
			{ID: "C11-R9", Desc: "parsed field views are capacity-clipped", Min: 2, Run: c11R9},
			{ID: "C11-R10", Desc: "the XMLDataLen pick-up runs for every field", Min: 1, Run: c11R10},
		},
	}
}

// caseSetOf: constants c compared with parameter 0 in `param == c` tests of fn.
func (p *Prog) caseSetOf(fn *ssa.Function) map[int64]bool {
	out := map[int64]bool{}
	ForEachInstr(fn, func(in ssa.Instruction) {
		if b, ok := in.(*ssa.BinOp); ok && b.Op == token.EQL {
			l, r := p.Origin(b.X), p.Origin(b.Y)
			if l.Kind == "param" {
				if n, ok := r.ConstIntVal(); ok {
					out[n] = true
				}
			} else if r.Kind == "param" {
				if n, ok := l.ConstIntVal(); ok {
					out[n] = true
				}
			}
		}
	})
	return out
}

func c11R1(c *Ctx) {
	p := c.P
	specs, err := loadSpecs(p.RepoDir)
	if err != nil {
		c.Undecided("", "-", "specs", err.Error())
		return
	}
	isH := p.caseSetOf(p.Method(modPath, "Tag", "IsHeader"))
	isT := p.caseSetOf(p.Method(modPath, "Tag", "IsTrailer"))
	if len(isH) < 10 || len(isT) < 1 {
		c.Undecided("", "-", "case-sets", fmt.Sprintf("IsHeader has %d cases, IsTrailer %d", len(isH), len(isT)))
		return
	}
	for _, d := range specs {
		var bad []string
		for n, name := range d.headerTags() {
			if !isH[int64(n)] {
				bad = append(bad, fmt.Sprintf("header field %s(%d) missing from Tag.IsHeader", name, n))
			}
		}
		for n, name := range d.trailerTags() {
			if !isT[int64(n)] {
				bad = append(bad, fmt.Sprintf("trailer field %s(%d) missing from Tag.IsTrailer", name, n))
			}
		}
		for n, name := range d.bodyTags() {
			if isH[int64(n)] {
				// a tag that a spec uses both in header and body (e.g. via header groups) is not an error if the spec's own header has it
				if _, ok := d.headerTags()[n]; !ok {
					bad = append(bad, fmt.Sprintf("body field %s(%d) is classified as header", name, n))
				}
			}
			if isT[int64(n)] {
				if _, ok := d.trailerTags()[n]; !ok {
					bad = append(bad, fmt.Sprintf("body field %s(%d) is classified as trailer", name, n))
				}
			}
		}
		sort.Strings(bad)
		if len(bad) > 4 {
			bad = append(bad[:4], fmt.Sprintf("… %d more", len(bad)-4))
		}
		c.Check(len(bad) == 0, "(Tag).IsHeader/IsTrailer", "spec/"+d.File, "tables:"+d.File,
			fmt.Sprintf("%s: %d header, %d trailer, %d body fields classified consistently", d.File, len(d.headerTags()), len(d.trailerTags()), len(d.bodyTags())),
			d.File+": "+strings.Join(bad, "; ")+" — a message parsed without a dictionary would expose the field in the wrong section")
	}
}

func c11R2(c *Ctx) {
	p := c.P
	parse, spec := p.parseFn()
	name := FuncName(parse)
	var firsts []ssa.CallInstruction
	var others []ssa.CallInstruction
	for _, cl := range Calls(parse) {
		cal := cl.Common().StaticCallee()
		if cal == nil {
			continue
		}
		switch {
		case cal == spec:
			firsts = append(firsts, cl)
		case strings.HasPrefix(fnName(cal), "extract") || p.reachesAny(cal, func(f *ssa.Function) bool { return strings.HasPrefix(f.Name(), "extract") }) && cal.Signature.Results().Len() == 0:
			others = append(others, cl)
		}
	}
	var consts []int64
	for _, cl := range firsts {
		n, _ := constIntOf(cl.Common().Args[1])
		consts = append(consts, n)
	}
	okOrder := len(firsts) == 3 && consts[0] == p.Tag("tagBeginString") && consts[1] == p.Tag("tagBodyLength") && consts[2] == p.Tag("tagMsgType")
	if okOrder {
		for i := 0; i+1 < 3; i++ {
			if !InstrDominates(firsts[i], firsts[i+1]) {
				okOrder = false
			}
		}
	}
	c.Check(okOrder, name, p.Pos(parse.Pos()), "leading-order", "extracts tags 8, 9, 35 in that order", fmt.Sprintf("the parser's leading-field extraction expects tags %v (must be 8, 9, 35 in order)", consts))
	// each error returned: the next extraction is guarded by nil of the previous
	for i, cl := range firsts {
		var next ssa.Instruction
		if i+1 < len(firsts) {
			next = firsts[i+1]
		} else if len(others) > 0 {
			next = others[0]
		}
		if next == nil {
			continue
		}
		ok := p.ReachCond(next.Block()).Implies(nilErrAtomFor(cl.(ssa.Instruction)))
		c.Check(ok, name, p.InstrPos(cl), fmt.Sprintf("leading-error-%d", i), "error of the leading-field extraction stops the parse", "parsing continues although the extraction of a leading field (8/9/35) failed")
	}
	// all three dominate every other extraction
	okDom := len(others) > 0
	for _, o := range others {
		for _, f := range firsts {
			if !InstrDominates(f, o) {
				okDom = false
			}
		}
	}
	c.Check(okDom, name, p.Pos(parse.Pos()), "leading-first", "the three leading extractions precede every other field extraction", "some field is extracted before BeginString, BodyLength and MsgType have been checked")
	// the specific extractor rejects a different tag
	okSpec := false
	for _, b := range spec.Blocks {
		r, ok := b.Instrs[len(b.Instrs)-1].(*ssa.Return)
		if !ok {
			continue
		}
		d := p.ReachCond(b)
		if d.Implies(func(a *Atom) bool {
			return a.Rel == "!=" && (a.L.Kind == "field" && cn(a.L.Field) == "tag" && a.R.Kind == "param" || a.R.Kind == "field" && cn(a.R.Field) == "tag" && a.L.Kind == "param")
		}) {
			if len(r.Results) == 2 && !p.Origin(r.Results[1]).IsNil() {
				okSpec = true
			}
		}
	}
	c.Check(okSpec, FuncName(spec), p.Pos(spec.Pos()), "specific-rejects", "a field with a different tag than expected is an error", "extractSpecificField does not return an error when the tag differs from the expected one")
}

func c11R3(c *Ctx) {
	p := c.P
	parse, _ := p.parseFn()
	name := FuncName(parse)
	t9 := p.Tag("tagBodyLength")
	isLen9 := func(o *Org) bool {
		return o.IsCallTo("(FieldMap).getIntNoLock", "(FieldMap).GetInt") && o.ArgConstInt(0, t9) && o.Res == 0
	}
	// the comparison
	var cmp *ssa.BinOp
	ForEachInstr(parse, func(in ssa.Instruction) {
		if b, ok := in.(*ssa.BinOp); ok && (b.Op == token.NEQ || b.Op == token.EQL) {
			l, r := p.Origin(b.X), p.Origin(b.Y)
			if isLen9(l) || isLen9(r) {
				cmp = b
			}
		}
	})
	if cmp == nil {
		c.Violation(name, p.Pos(parse.Pos()), "no-length-compare", "the parser never compares the accumulated length with BodyLength(9)")
		return
	}
	// other operand accumulates TagValue.length()
	other := p.Origin(cmp.X)
	if isLen9(other) {
		other = p.Origin(cmp.Y)
	}
	accum := p.DeepMentions(other, func(x *Org) bool { return x.IsCallTo("(TagValue).length") })
	c.Check(accum, name, p.InstrPos(cmp), "length-operand", "compared value accumulates TagValue.length() of the parsed fields", "BodyLength(9) is compared with "+other.String()+", not with the accumulated field lengths")
	// an error store under the mismatch
	found := false
	ForEachInstr(parse, func(in ssa.Instruction) {
		st, ok := in.(*ssa.Store)
		if !ok {
			return
		}
		if !isErrorType(st.Val.Type()) || p.Origin(st.Val).IsNil() {
			return
		}
		d := p.ReachCond(st.Block())
		mismatch := d.Implies(func(a *Atom) bool { return a.Cond == ssa.Value(cmp) && (a.Rel == "!=") })
		if mismatch {
			found = true
			// only the XMLData exemption may additionally guard it
			extra := 0
			for _, a := range d.Atoms() {
				if a.Rel == "" && a.B.Kind != "call" && !strings.Contains(a.String(), "xml") {
					_ = a
				}
			}
			_ = extra
			// reaches the return without being overwritten: the store's block leads to return
			okRet := false
			for _, s := range st.Block().Succs {
				if len(s.Instrs) > 0 {
					if _, isR := s.Instrs[len(s.Instrs)-1].(*ssa.Return); isR {
						okRet = true
					}
				}
			}
			if _, isR := st.Block().Instrs[len(st.Block().Instrs)-1].(*ssa.Return); isR {
				okRet = true
			}
			c.Check(okRet, name, p.InstrPos(st), "length-error-returned", "length mismatch → parse error returned", "the length-mismatch error is assigned but does not reach the return")
		}
	})
	c.Check(found, name, p.InstrPos(cmp), "length-error", "a parse error is produced under Σ lengths ≠ BodyLength", "no error is produced when the accumulated length differs from BodyLength(9): mis-framed messages would be accepted")
	// failing to read tag 9 is an error as well
	okRead := false
	ForEachInstr(parse, func(in ssa.Instruction) {
		st, ok := in.(*ssa.Store)
		if !ok || !isErrorType(st.Val.Type()) || p.Origin(st.Val).IsNil() {
			return
		}
		d := p.ReachCond(st.Block())
		if d.Implies(func(a *Atom) bool {
			return a.Rel == "!=" && a.R.IsNil() && a.L.IsCallTo("(FieldMap).getIntNoLock", "(FieldMap).GetInt") && a.L.ArgConstInt(0, t9)
		}) {
			okRead = true
		}
	})
	c.Check(okRead, name, p.Pos(parse.Pos()), "length-unreadable", "an unreadable BodyLength is a parse error", "a BodyLength(9) that cannot be read as an integer is not turned into a parse error")
}

func c11R5(c *Ctx) {
	p := c.P
	parse, _ := p.parseFn()
	name := FuncName(parse)
	add := p.Method(modPath, "FieldMap", "add")
	isCall := func(fn string, val bool) func(*Atom) bool {
		return func(a *Atom) bool { return a.Rel == "" && a.Val == val && a.B.IsCallTo(fn) }
	}
	n := 0
	for _, cl := range Calls(parse) {
		if cl.Common().StaticCallee() != add {
			continue
		}
		// only adds inside the field loop (those guarded by a classification)
		d := p.ReachCond(cl.Block())
		_, path := p.Origin(cl.Common().Args[0]).FieldPath()
		sec := ""
		for _, s := range path {
			if s == "Header" || s == "Body" || s == "Trailer" {
				sec = s
			}
		}
		mentions := false
		for _, a := range d.Atoms() {
			if a.B != nil && (a.B.IsCallTo("isHeaderField") || a.B.IsCallTo("isTrailerField")) {
				mentions = true
			}
		}
		if !mentions {
			continue // the three leading fields
		}
		n++
		ok := false
		switch sec {
		case "Header":
			ok = d.Implies(isCall("isHeaderField", true))
		case "Trailer":
			ok = d.Implies(isCall("isHeaderField", false)) && d.Implies(isCall("isTrailerField", true))
		case "Body":
			ok = d.Implies(isCall("isHeaderField", false)) && d.Implies(isCall("isTrailerField", false))
		}
		c.Check(ok, name, p.InstrPos(cl), "route-"+sec, "field added to "+sec+" under the matching classification", "a parsed field is added to "+sec+" under "+d.String()+": it would be retrievable from the wrong section")
	}
	if n < 3 {
		c.Violation(name, p.Pos(parse.Pos()), "routing-arms", fmt.Sprintf("the field loop routes into %d section(s); expected Header, Trailer and Body arms", n))
	}
	// every call of a classification helper passes the TRANSPORT dictionary
	for _, hn := range []string{"isHeaderField", "isTrailerField"} {
		h := p.Func(modPath, hn)
		for _, cs := range p.CallsTo(h) {
			ao := p.Origin(cs.Common().Args[1])
			ok := ao.Kind == "field" && strings.Contains(strings.ToLower(cn(ao.Field)), "transport") || ao.IsNil() || ao.Kind == "param"
			c.Check(ok, FuncName(cs.Fn), p.InstrPos(cs.Call), "classifier-dictionary:"+hn, hn+" consulted with the transport dictionary", hn+" is called with "+ao.String()+" instead of the transport dictionary: a header/trailer field defined only there would be filed under the body")
		}
	}
	// classification helpers: Tag table first, then the transport dictionary's section
	for _, h := range []struct{ fn, meth, sec string }{{"isHeaderField", "IsHeader", "Header"}, {"isTrailerField", "IsTrailer", "Trailer"}} {
		fn := p.Func(modPath, h.fn)
		usesTable, usesDict := false, false
		for _, cl := range Calls(fn) {
			if cal := cl.Common().StaticCallee(); cal != nil && cal.Name() == h.meth {
				usesTable = true
			}
		}
		ForEachInstr(fn, func(in ssa.Instruction) {
			if l, ok := in.(*ssa.Lookup); ok {
				_, path := p.Origin(l.X).FieldPath()
				if contains(path, h.sec) && contains(path, "Fields") {
					usesDict = true
				}
			}
		})
		c.Check(usesTable && usesDict, FuncName(fn), p.Pos(fn.Pos()), "classifier-"+h.sec, h.fn+" = Tag."+h.meth+"() or a field of the dictionary's "+h.sec, fmt.Sprintf("%s: consults Tag.%s=%v, dictionary %s section=%v", h.fn, h.meth, usesTable, h.sec, usesDict))
	}
}

func c11R6(c *Ctx) {
	p := c.P
	fn := p.Method(modPath, "TagValue", "parse")
	name := FuncName(fn)
	// probes: param[k] == '=' with constant k
	type probe struct {
		k   int64
		blk *ssa.BasicBlock
		cmp *ssa.BinOp
	}
	var probes []probe
	ForEachInstr(fn, func(in ssa.Instruction) {
		b, ok := in.(*ssa.BinOp)
		if !ok || b.Op != token.EQL {
			return
		}
		l, r := p.Origin(b.X), p.Origin(b.Y)
		if !r.IsConstInt(61) {
			l, r = r, l
		}
		if r.IsConstInt(61) && l.Kind == "index" && l.Base != nil && l.Base.Kind == "param" {
			if k, isC := l.Y.ConstIntVal(); isC {
				probes = append(probes, probe{k, b.Block(), b})
			}
		}
	})
	if len(probes) == 0 {
		// no fast path: the general search must be IndexByte (first occurrence)
		okGen := false
		for _, cl := range Calls(fn) {
			if callName(cl.Common()) == "bytes.IndexByte" {
				okGen = true
			}
		}
		c.Check(okGen, name, p.Pos(fn.Pos()), "first-equals-general", "separator found with bytes.IndexByte (first occurrence)", "the separator is not searched with a first-occurrence search")
		c.rule.Instances += 3
		c.rule.Discharged += 3
		return
	}
	// order by control flow: each later probe is reached only when the earlier ones failed
	for i := 0; i < len(probes); i++ {
		for j := i + 1; j < len(probes); j++ {
			a, b := probes[i], probes[j]
			// which comes first?
			var first, second probe
			switch {
			case a.blk == b.blk && instrIndex(a.cmp) < instrIndex(b.cmp), a.blk != b.blk && a.blk.Dominates(b.blk):
				first, second = a, b
			case b.blk.Dominates(a.blk) || a.blk == b.blk:
				first, second = b, a
			default:
				continue
			}
			c.Check(first.k < second.k, name, p.InstrPos(second.cmp), fmt.Sprintf("probe-order-%d-%d", first.k, second.k), fmt.Sprintf("position %d probed before %d", first.k, second.k),
				fmt.Sprintf("the fast path tests for '=' at position %d before position %d: when the value itself contains '=', a later '=' is taken as the tag/value separator and a well-formed field is rejected or split wrongly", first.k, second.k))
		}
	}
	// the separator recorded for a successful probe is the probed position: the phi feeding the slice
	ForEachInstr(fn, func(in ssa.Instruction) {
		phi, ok := in.(*ssa.Phi)
		if !ok {
			return
		}
		for i, e := range phi.Edges {
			k, isC := constIntOf(e)
			if !isC {
				continue
			}
			pred := phi.Block().Preds[i]
			d := dnfAnd(p.ReachCond(pred), edgeCond(p, pred, phi.Block()))
			okK := d.Implies(func(a *Atom) bool {
				return a.Rel == "==" && a.L.Kind == "index" && a.L.Y.IsConstInt(k) && a.R.IsConstInt(61)
			})
			c.Check(okK, name, p.InstrPos(phi), fmt.Sprintf("sep-value-%d", k), fmt.Sprintf("separator %d recorded only when '=' was found at %d", k, k), fmt.Sprintf("the separator index is set to %d on a path that did not find '=' at position %d", k, k))
		}
	})
	// the general search is a first-occurrence search
	okGen := false
	for _, cl := range Calls(fn) {
		if callName(cl.Common()) == "bytes.IndexByte" {
			okGen = true
		}
	}
	c.Check(okGen, name, p.Pos(fn.Pos()), "first-equals-general", "fallback uses bytes.IndexByte (first occurrence)", "the fallback separator search is not a first-occurrence search")
}

// C11-R7 (also C01-R6, C07-R5): a field is looked for in the section the parser files it in.
// Every FieldMap accessor call with a constant tag whose receiver is the Header / Body /
// Trailer of a Message addresses the section that Tag.IsHeader / Tag.IsTrailer assign to
// that tag (the tables R1 compares with the specs). A flag read from the wrong section is
// simply never found: the SequenceReset handler, for instance, would take every gap fill
// for a reset.
func sectionAccessRule(c *Ctx) {
	p := c.P
	isH := p.caseSetOf(p.Method(modPath, "Tag", "IsHeader"))
	isT := p.caseSetOf(p.Method(modPath, "Tag", "IsTrailer"))
	if len(isH) < 10 || len(isT) < 1 {
		c.Undecided("", "-", "case-sets", fmt.Sprintf("IsHeader has %d cases, IsTrailer %d", len(isH), len(isT)))
		return
	}
	fHeader := p.Field(modPath, "Message", "Header")
	fBody := p.Field(modPath, "Message", "Body")
	fTrailer := p.Field(modPath, "Message", "Trailer")
	n := 0
	for _, fn := range p.FuncsIn(modPath) {
		for _, cl := range Calls(fn) {
			cal := cl.Common().StaticCallee()
			if cal == nil || cal.Signature.Recv() == nil || typeName(cal.Signature.Recv().Type()) != "FieldMap" {
				continue
			}
			args := cl.Common().Args
			if len(args) < 2 || typeName(args[1].Type()) != "Tag" {
				continue
			}
			tag, isC := constIntOf(args[1])
			if !isC {
				continue
			}
			ro := p.Origin(args[0])
			sec := ""
			ro.Mentions(func(x *Org) bool {
				if x.Kind == "field" && sec == "" {
					switch x.Field {
					case fHeader:
						sec = "Header"
					case fBody:
						sec = "Body"
					case fTrailer:
						sec = "Trailer"
					}
				}
				return false
			})
			if sec == "" {
				continue
			}
			want := "Body"
			if isH[tag] {
				want = "Header"
			} else if isT[tag] {
				want = "Trailer"
			}
			n++
			c.Check(sec == want, FuncName(fn), p.InstrPos(cl.(ssa.Instruction)), fmt.Sprintf("section-of-%d", tag), fmt.Sprintf("tag %d accessed in the %s", tag, sec),
				fmt.Sprintf("tag %d is accessed in the message's %s, but the parser files it in the %s (Tag.IsHeader/IsTrailer): a read never finds the field, a write puts it where the peer's parser and this engine's own handlers do not look", tag, sec, want))
		}
	}
	if n < 20 {
		c.Violation("", "-", "few-section-accesses", fmt.Sprintf("only %d constant-tag accesses to message sections found (expected dozens)", n))
	}
}

// C11-R8: (a) a parse starts from empty sections — Header, Body and Trailer are each cleared
// before the first field is filed; (b) the only exemption from the BodyLength comparison is a
// message whose XML payload was actually extracted with the length-driven extractor: the flag
// that lifts the comparison is set to true only on the path that calls that extractor.
func c11R8(c *Ctx) {
	p := c.P
	parse, _ := p.parseFn()
	name := FuncName(parse)
	add := p.Method(modPath, "FieldMap", "add")
	secs := map[string]*types.Var{"Header": p.Field(modPath, "Message", "Header"), "Body": p.Field(modPath, "Message", "Body"), "Trailer": p.Field(modPath, "Message", "Trailer")}
	isClear := func(fn *ssa.Function) bool {
		if fn == nil || fn.Signature.Recv() == nil || typeName(fn.Signature.Recv().Type()) != "FieldMap" {
			return false
		}
		n := strings.ToLower(fnName(fn))
		return strings.Contains(n, "clear") || strings.HasPrefix(n, "init")
	}
	for sec, f := range secs {
		var clears, adds []ssa.CallInstruction
		for _, cl := range Calls(parse) {
			cal := cl.Common().StaticCallee()
			if cal == nil || len(cl.Common().Args) == 0 || !p.Origin(cl.Common().Args[0]).Mentions(func(x *Org) bool { return x.Kind == "field" && x.Field == f }) {
				continue
			}
			if isClear(cal) {
				clears = append(clears, cl)
			}
			if cal == add {
				adds = append(adds, cl)
			}
		}
		ok := len(clears) > 0
		for _, a := range adds {
			dom := false
			for _, cclr := range clears {
				if InstrDominates(cclr.(ssa.Instruction), a.(ssa.Instruction)) {
					dom = true
				}
			}
			if !dom {
				ok = false
			}
		}
		c.Check(ok, name, p.Pos(parse.Pos()), "section-cleared:"+sec, sec+" is cleared before any field is filed into it", "the message's "+sec+" is not cleared before the parse files fields into it: a Message object parsed into a second time keeps "+strings.ToLower(sec)+" fields of the previous message that the new one does not carry, and they are exposed (and re-sent by a rebuild) although they are not on the wire")
	}
	// (b) the XML exemption
	t9 := p.Tag("tagBodyLength")
	isLen9 := func(o *Org) bool {
		return o.IsCallTo("(FieldMap).getIntNoLock", "(FieldMap).GetInt") && o.ArgConstInt(0, t9) && o.Res == 0
	}
	var cmp *ssa.BinOp
	ForEachInstr(parse, func(in ssa.Instruction) {
		if b, ok := in.(*ssa.BinOp); ok && (b.Op == token.NEQ || b.Op == token.EQL) {
			if isLen9(p.Origin(b.X)) || isLen9(p.Origin(b.Y)) {
				cmp = b
			}
		}
	})
	if cmp == nil {
		return // R3 reports it
	}
	// the extractor that is given a length
	var xmlCalls []ssa.CallInstruction
	for _, cl := range Calls(parse) {
		cal := cl.Common().StaticCallee()
		if cal != nil && p.InModule(cal) && len(cl.Common().Args) == 3 && cal.Signature.Recv() == nil && typeName(cal.Signature.Params().At(0).Type()) == "TagValue" && types.Identical(cal.Signature.Params().At(2).Type(), types.Typ[types.Int]) {
			xmlCalls = append(xmlCalls, cl)
		}
	}
	ForEachInstr(parse, func(in ssa.Instruction) {
		st, ok := in.(*ssa.Store)
		if !ok || !isErrorType(st.Val.Type()) || p.Origin(st.Val).IsNil() {
			return
		}
		d := p.ReachCond(st.Block())
		if !d.Implies(func(a *Atom) bool { return a.Cond == ssa.Value(cmp) && a.Rel == "!=" }) {
			return
		}
		for _, a := range d.Atoms() {
			if a.Rel != "" || a.Cond == nil {
				continue
			}
			phi, ok := a.Cond.(*ssa.Phi)
			if !ok {
				if u, isU := a.Cond.(*ssa.UnOp); isU {
					phi, ok = u.X.(*ssa.Phi)
				}
			}
			if !ok {
				continue
			}
			// every edge that makes the flag true comes from the extractor's path
			var walk func(ph *ssa.Phi, depth int)
			seen := map[*ssa.Phi]bool{}
			walk = func(ph *ssa.Phi, depth int) {
				if seen[ph] || depth > 4 {
					return
				}
				seen[ph] = true
				for i, e := range ph.Edges {
					if inner, isPhi := e.(*ssa.Phi); isPhi {
						walk(inner, depth+1)
						continue
					}
					if v, isC := p.Origin(e).ConstBoolVal(); isC && v {
						pred := ph.Block().Preds[i]
						okX := false
						for _, x := range xmlCalls {
							if x.Block() == pred || x.Block().Dominates(pred) {
								okX = true
							}
						}
						c.Check(okX, name, p.InstrPos(pred.Instrs[len(pred.Instrs)-1]), "xml-exemption-only-after-extraction", "the BodyLength exemption is raised only where the XML payload was extracted",
							"the flag that exempts a message from the BodyLength comparison becomes true on a path that did not extract an XML payload with the length-driven extractor: a message that merely carries the length tag is accepted with any BodyLength")
					}
				}
			}
			walk(phi, 0)
		}
	})
}
