package main

// Rules added after the fifth (blind) round of independently written changes.

import (
	"fmt"
	"go/token"
	"go/types"
	"sort"
	"strings"

	"golang.org/x/tools/go/ssa"
)

// C04-R10: recovery ends when the requested range has been passed. In the inbound handler of the
// recovery state (the method of the state that owns the stash which hands the message to the
// in-session handler), the handler's own state is handed back as the next state only while the
// end of the requested range is not below the store's next expected number. A return of the
// recovery state under any other condition (a non-empty stash, say) pins the session in recovery
// after the gap has closed: a later gap is then stashed with no ResendRequest, because the
// recovery state assumes the request is already on the wire.
func c04R10(c *Ctx) {
	p := c.P
	rs := p.Named(modPath, "resendState")
	inSess := p.Named(modPath, "inSession")
	fEnd := p.Field(modPath, "resendState", "resendRangeEnd")
	n := 0
	for _, fn := range p.FuncsIn(modPath) {
		recv := fn.Signature.Recv()
		if recv == nil || !types.Identical(recv.Type(), rs) {
			continue
		}
		// role: feeds the message to the in-session inbound handler
		feeds := false
		for _, cl := range Calls(fn) {
			cal := cl.Common().StaticCallee()
			if cal != nil && cal.Signature.Recv() != nil && types.Identical(cal.Signature.Recv().Type(), inSess) &&
				cal.Signature.Params().Len() == fn.Signature.Params().Len() && sameParamTypes(cal.Signature, fn.Signature) && len(fn.Params) == 3 &&
				isPtrToNamed(fn.Params[2].Type(), "Message") {
				feeds = true
			}
		}
		if !feeds {
			continue
		}
		name := FuncName(fn)
		for _, b := range fn.Blocks {
			r, ok := b.Instrs[len(b.Instrs)-1].(*ssa.Return)
			if !ok || b == fn.Recover {
				continue
			}
			for _, res := range r.Results {
				for _, alt := range p.valueAlternatives(res, b, 0) {
					mi, ok := alt.val.(*ssa.MakeInterface)
					if !ok || !types.Identical(mi.X.Type(), rs) {
						continue
					}
					o := p.Origin(mi.X)
					if !(o.Kind == "param" && o.Param == 0) {
						continue
					}
					n++
					d := alt.cond
					inProgress := d.Implies(func(a *Atom) bool {
						// next expected <= range end
						return a.Rel == "<=" && a.L.IsCallTo("(MessageStore).NextTargetMsgSeqNum") && isFieldOrg(a.R, fEnd) && a.R.Base != nil && a.R.Base.Kind == "param" && a.R.Base.Param == 0
					})
					c.Check(inProgress, name, p.InstrPos(r), "recovery-kept-only-in-range", "the recovery state is kept only while NextTargetMsgSeqNum() <= resendRangeEnd",
						"the recovery state hands itself back as the next state under "+clip(d.String(), 240)+", which does not require that the requested range is still open (next expected <= resendRangeEnd): once the gap is closed the session stays in recovery, and a later gap is stashed without any ResendRequest")
				}
			}
		}
	}
	if n == 0 {
		c.Violation("", "-", "no-recovery-self-return", "the recovery state's inbound handler never hands itself back (anchor lost)")
	}
}

func sameParamTypes(a, b *types.Signature) bool {
	if a.Params().Len() != b.Params().Len() {
		return false
	}
	for i := 0; i < a.Params().Len(); i++ {
		if !types.Identical(a.Params().At(i).Type(), b.Params().At(i).Type()) {
			return false
		}
	}
	return true
}

func isPtrToNamed(t types.Type, name string) bool {
	pt, ok := t.(*types.Pointer)
	if !ok {
		return false
	}
	return typeName(pt.Elem()) == name
}

// C06-R7: a Reject quotes the offending number in every protocol version. In the function that
// sets RefSeqNum(45), every path from the entry to the call that sends the reply either sets
// RefSeqNum or has seen the read of MsgSeqNum(34) from the rejected message fail — setting it only
// inside a BeginString-dependent branch leaves FIX.4.0/4.1 Rejects without the required quote.
func c06R7(c *Ctx) {
	p := c.P
	t45, t34 := p.Tag("tagRefSeqNum"), p.Tag("tagMsgSeqNum")
	fn := findFuncSetting(p, t45)
	if fn == nil {
		c.Violation("", "-", "no-refseqnum", "no function sets RefSeqNum(45)")
		return
	}
	name := FuncName(fn)
	sets := map[ssa.Instruction]bool{}
	for _, st := range p.setTagCalls(fn, t45) {
		sets[st.call.(ssa.Instruction)] = true
	}
	getFailed := func(a *Atom) bool {
		if a.Rel != "!=" || !a.R.IsNil() {
			return false
		}
		return (a.L.Kind == "call" || a.L.Kind == "outarg") && a.L.IsCallTo("(FieldMap).GetField", "(FieldMap).GetInt") && a.L.ArgConstInt(0, t34)
	}
	mf := &MustFlow{Fn: fn,
		Transfer: func(in ssa.Instruction, s Set) {
			if sets[in] {
				s["ref"] = true
			}
		},
		Edge: func(from, to *ssa.BasicBlock, s Set) {
			if edgeCond(p, from, to).Implies(getFailed) {
				s["ref"] = true
			}
		},
	}
	n := 0
	for _, cl := range Calls(fn) {
		cal := cl.Common().StaticCallee()
		if cal == nil || !p.InModule(cal) || cal.Signature.Results().Len() != 1 || !isErrorType(cal.Signature.Results().At(0).Type()) {
			continue
		}
		// the send: receives the reply the quote was set on
		isSend := false
		for _, st := range p.setTagCalls(fn, t45) {
			root, _ := st.recv.FieldPath()
			for _, a := range cl.Common().Args {
				if root != nil && root.Val != nil && stripConv(a) == stripConv(root.Val) {
					isSend = true
				}
			}
		}
		if !isSend || sets[cl.(ssa.Instruction)] {
			continue
		}
		n++
		c.Check(mf.Before(cl.(ssa.Instruction))["ref"], name, p.InstrPos(cl.(ssa.Instruction)), "refseqnum-every-version", "every path to the send sets RefSeqNum(45) or failed to read MsgSeqNum(34)",
			"the Reject is sent on a path that neither set RefSeqNum(45) nor failed to read MsgSeqNum(34) of the rejected message: the quote of the offending number depends on a branch (the protocol version) and is missing on the other arm")
	}
	if n == 0 {
		c.Violation(name, p.Pos(fn.Pos()), "no-reject-send", "the function setting RefSeqNum(45) does not send the reply it builds")
	}
}

func clip(s string, n int) string {
	if len(s) <= n {
		return s
	}
	return s[:n] + "…"
}

// C13-R13: entries created by the group's own methods carry the template's order. Every Group the
// methods of the repeating group allocate (Add, the reader) is initialised with the ordering
// obtained from the group's template-order function — an entry initialised with the default
// ascending-tag order is written back with its members re-sorted by tag number, the delimiter no
// longer first, and the next reader splits the entries at the wrong places.
func c13R13(c *Ctx) {
	p := c.P
	initWO := p.Method(modPath, "FieldMap", "initWithOrdering")
	rg := p.Named(modPath, "RepeatingGroup")
	grp := p.Named(modPath, "Group")
	n := 0
	for _, fn := range p.FuncsIn(modPath) {
		rcv := fn.Signature.Recv()
		if rcv == nil || namedOf(rcv.Type()) != rg {
			continue
		}
		ForEachInstr(fn, func(in ssa.Instruction) {
			al, ok := in.(*ssa.Alloc)
			if !ok || !al.Heap || namedOf(al.Type()) != grp {
				return
			}
			n++
			var how string
			okInit := false
			for _, cl := range Calls(fn) {
				cc := cl.Common()
				cal := cc.StaticCallee()
				if cal == nil || len(cc.Args) == 0 {
					continue
				}
				root, _ := p.Origin(cc.Args[0]).FieldPath()
				if root == nil || root.Val != ssa.Value(al) {
					continue
				}
				if cal != initWO {
					if p.reachesAny(cal, func(f *ssa.Function) bool { return f == initWO }) {
						how = "initialised by " + FuncName(cal)
					}
					continue
				}
				ao := p.Origin(cc.Args[1])
				if ao.Kind == "call" && ao.Callee != nil && ao.Callee.Signature.Recv() != nil && namedOf(ao.Callee.Signature.Recv().Type()) == rg {
					okInit = true
				} else {
					how = "initialised with ordering " + ao.String()
				}
			}
			if how == "" {
				how = "not initialised with an ordering"
			}
			c.Check(okInit, FuncName(fn), p.InstrPos(al), "entry-template-order", "new entry initialised with the group's template order",
				"a group entry is "+how+", not with the order of the group's template: when the group is written again its members come out in ascending tag order instead of template order, the delimiter is no longer first, and the reader on the other side splits the entries differently")
		})
	}
	if n < 2 {
		c.Violation("", "-", "no-entry-allocs", "fewer than two entry allocations found in the repeating group's methods")
	}
}

// C18-R8: in the weekly schedule the close of the window an instant belongs to depends on the time
// of day when the instant falls on the end day: the number of days added to reach the close
// (the days argument of AddDate) has an alternative that is chosen under a test involving the
// configured end time. Without it an instant on the end day before the end time is attributed to
// the window that closes a week later, and is "in the same range" as instants of next week.
func c18R8(c *Ctx) {
	p := c.P
	tr := p.Named(modPath+"/internal", "TimeRange")
	fEndTime := p.Field(modPath+"/internal", "TimeRange", "endTime")
	fEndDay := p.Field(modPath+"/internal", "TimeRange", "endDay")
	n := 0
	for _, fn := range p.FuncsIn(modPath + "/internal") {
		rcv := fn.Signature.Recv()
		if rcv == nil || namedOf(rcv.Type()) != tr {
			continue
		}
		for _, cl := range Calls(fn) {
			if callName(cl.Common()) != "(time.Time).AddDate" || len(cl.Common().Args) != 4 {
				continue
			}
			days := cl.Common().Args[3]
			var alts []valueAlt
			switch dv := days.(type) {
			case *ssa.Phi:
				alts = p.valueAlternatives(days, cl.Block(), 0)
			case *ssa.Call:
				// the count is computed by a helper: the alternatives of what it returns
				if cal := dv.Call.StaticCallee(); cal != nil && p.InModule(cal) && len(cal.Blocks) > 0 {
					for _, b := range cal.Blocks {
						if ret, isR := b.Instrs[len(b.Instrs)-1].(*ssa.Return); isR && len(ret.Results) == 1 && b != cal.Recover {
							alts = append(alts, p.valueAlternatives(ret.Results[0], b, 0)...)
						}
					}
				}
			}
			if len(alts) < 2 {
				continue
			}
			weekly, timeDep := false, false
			for _, alt := range alts {
				isWeekly := false
				for _, a := range alt.cond.Atoms() {
					if a.Rel == "!=" && a.R != nil && a.R.IsNil() && isFieldOrg(a.L, fEndDay) && alt.cond.Implies(func(b *Atom) bool { return b.ID() == a.ID() }) {
						isWeekly = true
					}
				}
				if !isWeekly {
					continue
				}
				weekly = true
				for _, a := range alt.cond.Atoms() {
					for _, side := range []*Org{a.L, a.R, a.B} {
						if side != nil && side.Mentions(func(x *Org) bool {
							return x.Kind == "field" && x.Field == fEndTime || x.IsCallTo("(time.Time).Before", "(time.Time).After")
						}) {
							timeDep = true
						}
					}
				}
			}
			if !weekly {
				continue
			}
			n++
			c.Check(timeDep, FuncName(fn), p.InstrPos(cl.(ssa.Instruction)), "weekly-close-depends-on-end-time", "the days to the weekly close depend on the end time on the end day",
				"in the weekly schedule the number of days added to reach the window's close never depends on the configured end time: an instant on the end day before the end time gets the close of NEXT week, so it is reported in the same range as instants of the following window")
		}
	}
	if n == 0 {
		c.Violation("", "-", "no-weekly-close", "no AddDate with a weekday-dependent day count found in the schedule code")
	}
}

// C19-R10: every declared component and message is built, not only those something refers to. For
// each list of declarations in the parsed document (the slice fields of the XML document whose
// elements are component declarations) some function of the package hands the elements of that
// list to a fallible builder. A dictionary that builds components lazily on first use never looks
// inside a component nothing refers to, and a dangling reference in it is accepted.
func c19R10(c *Ctx) {
	p := c.P
	pkg := modPath + "/datadictionary"
	doc := p.Named(pkg, "XMLDoc")
	st, ok := doc.Underlying().(*types.Struct)
	if !ok {
		c.Violation("", "-", "no-xmldoc", "XMLDoc is not a struct")
		return
	}
	// the build entries: functions that receive the parsed document and may fail
	var entries []*ssa.Function
	for _, fn := range p.FuncsIn(pkg) {
		res := fn.Signature.Results()
		if res.Len() == 2 && isErrorType(res.At(1).Type()) {
			for i := 0; i < fn.Signature.Params().Len(); i++ {
				if isPtrToNamed(fn.Signature.Params().At(i).Type(), "XMLDoc") {
					entries = append(entries, fn)
				}
			}
		}
	}
	if len(entries) == 0 {
		c.Violation("", "-", "no-build-entry", "no fallible function receives the parsed document")
		return
	}
	reached := func(fn *ssa.Function) bool {
		for _, e := range entries {
			if e == fn || p.reachesAny(e, func(f *ssa.Function) bool { return f == fn }) {
				return true
			}
		}
		return false
	}
	n := 0
	for i := 0; i < st.NumFields(); i++ {
		f := st.Field(i)
		sl, ok := f.Type().Underlying().(*types.Slice)
		if !ok {
			continue
		}
		pt, ok := sl.Elem().(*types.Pointer)
		if !ok || typeName(pt.Elem()) != "XMLComponent" {
			continue
		}
		n++
		built := false
		var where string
		for _, fn := range p.FuncsIn(pkg) {
			if !reached(fn) {
				continue
			}
			for _, cl := range Calls(fn) {
				cal := cl.Common().StaticCallee()
				if cal == nil || !p.InModule(cal) {
					continue
				}
				res := cal.Signature.Results()
				if res.Len() != 2 || !isErrorType(res.At(1).Type()) {
					continue
				}
				for _, a := range cl.Common().Args {
					if !types.Identical(a.Type(), sl.Elem()) {
						continue
					}
					ao := p.Origin(a)
					if ao.Mentions(func(x *Org) bool { return x.Kind == "field" && x.Field == f }) && inAnyLoop(fn, cl.Block()) {
						built = true
						where = FuncName(fn)
					}
				}
			}
		}
		c.Check(built, "XMLDoc."+cn(f), "-", "declared-built:"+cn(f), "every element of "+cn(f)+" is handed to a fallible builder ("+where+")",
			"no loop hands the elements of XMLDoc."+cn(f)+" to a builder that can fail: declarations nothing refers to are never looked at, so an undefined field or component referenced inside them is accepted instead of refused")
	}
	if n < 2 {
		c.Violation("", "-", "no-declaration-lists", "fewer than two declaration lists found in XMLDoc")
	}
}

// C14-R7: time.Parse's leniency about the fraction separator is closed off. Go's parser matches a
// fractional-second element of the layout (".000…") against a decimal point OR a comma in the
// input. Every time.Parse call of the value types whose constant layout has such an element is
// therefore reached only under a test that the input byte at the separator's offset is '.', so
// that "…:16,310" is refused rather than read as "…:16.310" (D21).
func c14R7(c *Ctx) {
	p := c.P
	n := 0
	for _, fn := range p.FuncsIn(modPath) {
		if fnPkg(fn).Pkg.Path() != modPath {
			continue
		}
		for _, cl := range Calls(fn) {
			if callName(cl.Common()) != "time.Parse" {
				continue
			}
			for _, alt := range p.valueAlternatives(cl.Common().Args[0], cl.Block(), 0) {
				layout, ok := p.Origin(alt.val).ConstStringVal()
				if !ok {
					continue // C14-R1 reports non-constant layouts
				}
				k := -1
				for i := 0; i+1 < len(layout); i++ {
					if (layout[i] == '.' || layout[i] == ',') && (layout[i+1] == '0' || layout[i+1] == '9') {
						k = i
						break
					}
				}
				if k < 0 {
					continue
				}
				n++
				in := p.Origin(cl.Common().Args[1])
				d := alt.cond
				okSep := layout[k] == '.' && impliesFeasible(d, func(a *Atom) bool {
					if a.Rel != "==" {
						return false
					}
					for _, pr := range [][2]*Org{{a.L, a.R}, {a.R, a.L}} {
						v, isC := pr[1].ConstIntVal()
						if !isC || v != '.' || pr[0].Kind != "index" || pr[0].Y == nil || !pr[0].Y.IsConstInt(int64(k)) {
							continue
						}
						// the indexed bytes are the parsed input
						base := pr[0].Base
						if in.Mentions(func(x *Org) bool { return x.Kind == base.Kind && x.String() == base.String() }) {
							return true
						}
					}
					return false
				})
				// (b) the fraction itself: time.Parse hands it to a signed integer scanner, so "+12" is read as
				// 012. Before the call a loop over input[k+1:] confines every byte to '0'..'9' (it compares the
				// byte with both bounds and its header dominates the call).
				var digitLoops []*natLoop
				for _, l := range naturalLoops(fn) {
					if l.body[cl.Block()] {
						continue
					}
					overFraction, lo, hi := false, false, false
					for b := range l.body {
						for _, ins := range b.Instrs {
							switch x := ins.(type) {
							case *ssa.IndexAddr:
								so := p.Origin(x.X)
								if so.Kind == "slice" && so.X != nil && so.X.IsConstInt(int64(k+1)) && in.Mentions(func(y *Org) bool { return so.Base != nil && y.Kind == so.Base.Kind && y.String() == so.Base.String() }) {
									overFraction = true
								}
								// the index-loop form: input[i] with i starting at k+1
								if io := p.Origin(x.Index); io.Kind == "phi" && in.Mentions(func(y *Org) bool { return y.Kind == so.Kind && y.String() == so.String() }) {
									for _, a := range io.Alts {
										if a.IsConstInt(int64(k + 1)) {
											overFraction = true
										}
									}
								}
							case *ssa.BinOp:
								for _, side := range []ssa.Value{x.X, x.Y} {
									if v, isC := constIntOf(side); isC {
										if v == '0' {
											lo = true
										}
										if v == '9' {
											hi = true
										}
									}
								}
							}
						}
					}
					if overFraction && lo && hi {
						digitLoops = append(digitLoops, l)
					}
				}
				// every path to the call has either left such a loop through its normal exit or taken a
				// branch on which the input is too short to have a fraction (len <= k)
				mf := &MustFlow{Fn: fn, Transfer: func(ssa.Instruction, Set) {}, Edge: func(from, to *ssa.BasicBlock, st Set) {
					for _, l := range digitLoops {
						if l.body[from] && !l.body[to] {
							st["ok"] = true
						}
					}
					if edgeCond(p, from, to).Implies(func(a *Atom) bool {
						if a.Rel != "<=" && a.Rel != "<" {
							return false
						}
						v, isC := a.R.ConstIntVal()
						return isC && a.L.IsCallTo("len") && (a.Rel == "<=" && v <= int64(k) || a.Rel == "<" && v <= int64(k+1))
					}) {
						st["ok"] = true
					}
				}}
				okDigits := len(digitLoops) > 0 && mf.Before(cl.(ssa.Instruction))["ok"]
				c.Check(okDigits, FuncName(fn), p.InstrPos(cl.(ssa.Instruction)), fmt.Sprintf("fraction-digits:%d", len(layout)),
					fmt.Sprintf("layout %q parsed only after input[%d:] was confined to digits", layout, k+1),
					fmt.Sprintf("time.Parse with layout %q is reached without a loop that confines the bytes after the separator (input[%d:]) to '0'..'9': Go's parser reads the fraction with a signed integer scanner, so \"…:SS.+12\" is accepted as …:SS.012 — a text outside the FIX grammar is read as a value and written back differently", layout, k+1))
				c.Check(okSep, FuncName(fn), p.InstrPos(cl.(ssa.Instruction)), fmt.Sprintf("fraction-separator:%d", len(layout)),
					fmt.Sprintf("layout %q parsed only when input[%d] == '.'", layout, k),
					fmt.Sprintf("time.Parse with layout %q is reached without a test that input[%d] is '.': Go's parser also accepts a comma before the fraction, so a text outside the FIX grammar (…:SS,sss) is read as a value and written back differently", layout, k))
			}
		}
	}
	if n < 3 {
		c.Violation("", "-", "no-fraction-layouts", "fewer than three time.Parse calls with a fractional-second layout found")
	}
}

// constInfeasible: the conjunct bounds one term by integer constants in a way no value satisfies
// (len(x) == 21 together with len(x) <= 17, say).
func constInfeasible(cj Conj) bool {
	type iv struct{ lo, hi int64 }
	ivs := map[string]*iv{}
	get := func(k string) *iv {
		if ivs[k] == nil {
			ivs[k] = &iv{-1 << 62, 1 << 62}
		}
		return ivs[k]
	}
	for _, a := range cj {
		if a.Rel == "" || a.L == nil || a.R == nil {
			continue
		}
		lc, lok := a.L.ConstIntVal()
		rc, rok := a.R.ConstIntVal()
		switch {
		case rok && !lok: // term REL const
			v := get(a.L.String())
			switch a.Rel {
			case "==":
				v.lo, v.hi = max64(v.lo, rc), min64(v.hi, rc)
			case "<":
				v.hi = min64(v.hi, rc-1)
			case "<=":
				v.hi = min64(v.hi, rc)
			}
		case lok && !rok: // const REL term
			v := get(a.R.String())
			switch a.Rel {
			case "==":
				v.lo, v.hi = max64(v.lo, lc), min64(v.hi, lc)
			case "<":
				v.lo = max64(v.lo, lc+1)
			case "<=":
				v.lo = max64(v.lo, lc)
			}
		}
	}
	for _, v := range ivs {
		if v.lo > v.hi {
			return true
		}
	}
	return false
}

func max64(a, b int64) int64 {
	if a > b {
		return a
	}
	return b
}

func min64(a, b int64) int64 {
	if a < b {
		return a
	}
	return b
}

// impliesFeasible: like DNF.Implies, but conjuncts that are infeasible by constant bounds do not count.
func impliesFeasible(d DNF, pred func(*Atom) bool) bool {
	for _, e := range d.Extra {
		if impliesFeasible(e, pred) {
			return true
		}
	}
	if d.Overflow || len(d.Cs) == 0 {
		return false
	}
	any := false
	for _, cj := range d.Cs {
		if constInfeasible(cj) {
			continue
		}
		any = true
		ok := false
		for _, a := range cj {
			if pred(a) {
				ok = true
				break
			}
		}
		if !ok {
			return false
		}
	}
	return any
}

// recoveryHandlers: the inbound handlers of the recovery state — methods of the type that owns the
// stash which hand the message to the in-session handler of the same signature — with that call.
func recoveryHandlers(p *Prog) map[*ssa.Function]ssa.CallInstruction {
	rs := p.Named(modPath, "resendState")
	inSess := p.Named(modPath, "inSession")
	out := map[*ssa.Function]ssa.CallInstruction{}
	for _, fn := range p.FuncsIn(modPath) {
		recv := fn.Signature.Recv()
		if recv == nil || !types.Identical(recv.Type(), rs) || len(fn.Params) != 3 || !isPtrToNamed(fn.Params[2].Type(), "Message") {
			continue
		}
		for _, cl := range Calls(fn) {
			cal := cl.Common().StaticCallee()
			if cal != nil && cal.Signature.Recv() != nil && types.Identical(cal.Signature.Recv().Type(), inSess) && sameParamTypes(cal.Signature, fn.Signature) {
				if _, have := out[fn]; !have { // the first one: the stash replay calls it again
					out[fn] = cl
				}
			}
		}
	}
	return out
}

// C04-R11 (= C01-R10): a recovery does not outlive the epoch it was started in. The in-session
// handler the recovery state delegates to can reset the store (a Logon carrying ResetSeqNumFlag),
// and the store can be reset between two messages (the daily reset time). Everything the
// recovery state carries — the requested range, the stash — is numbered in the epoch in which
// the ResendRequest was sent. So after the delegate call every use of that data (a look-up in
// the stash, handing back a recovery state) is reached only under a test involving the store's
// creation time, which a reset renews. Without it a message stashed before the reset is delivered
// as if it carried the same number in the new epoch, and the message that really carries it is
// refused as too low (D22).
func c04R11(c *Ctx) {
	p := c.P
	r := getRoles(p)
	rs := p.Named(modPath, "resendState")
	fStash := p.Field(modPath, "resendState", "messageStash")
	n := 0
	for fn, del := range recoveryHandlers(p) {
		cal := del.Common().StaticCallee()
		mayReset := p.reachesAny(cal, func(f *ssa.Function) bool { return len(r.storeCalls(f, "Reset")) > 0 })
		if !mayReset {
			c.Note("%s: the in-session handler cannot reach a store reset; no epoch obligation", FuncName(fn))
			n++
			continue
		}
		name := FuncName(fn)
		epochTest := func(a *Atom) bool {
			for _, side := range []*Org{a.L, a.R, a.B} {
				if side != nil && side.Mentions(func(x *Org) bool { return x.IsCallTo("(MessageStore).CreationTime") }) {
					return true
				}
			}
			return false
		}
		check := func(in ssa.Instruction, what string) {
			if !InstrDominates(del.(ssa.Instruction), in) {
				return
			}
			n++
			d := p.ReachCond(in.Block())
			c.Check(d.Implies(epochTest), name, p.InstrPos(in), "epoch-checked:"+what, what+" only under a test of the store's creation time",
				what+" after the in-session handler ran, under "+clip(d.String(), 160)+", with no test of the store's creation time: the handler may have reset the store (Logon with ResetSeqNumFlag), and the range and stash of the previous epoch are then applied to the new numbering — a message stashed before the reset is delivered under its old number and the real one is refused as too low")
		}
		ForEachInstr(fn, func(in ssa.Instruction) {
			switch x := in.(type) {
			case *ssa.Lookup:
				if isFieldOrg(p.Origin(x.X), fStash) {
					check(in, "the stash is read")
				}
			case *ssa.Return:
				for _, res := range x.Results {
					for _, alt := range p.valueAlternatives(res, x.Block(), 0) {
						if mi, ok := alt.val.(*ssa.MakeInterface); ok && types.Identical(mi.X.Type(), rs) {
							check(in, "a recovery state is handed back")
							return
						}
					}
				}
			}
		})
	}
	// the epoch the test compares with is the one in which the request was sent: every field of the
	// recovery state that an epoch test reads is set from the store's creation time by the function
	// that builds the ResendRequest, before each of its success returns
	epochFields := map[*types.Var]bool{}
	for fn := range recoveryHandlers(p) {
		for _, b := range fn.Blocks {
			for _, a := range p.ReachCond(b).Atoms() {
				for _, side := range []*Org{a.L, a.R, a.B} {
					if side == nil || !side.Mentions(func(x *Org) bool { return x.IsCallTo("(MessageStore).CreationTime") }) {
						continue
					}
					side.Mentions(func(x *Org) bool {
						if x.Kind == "field" && x.Base != nil && x.Base.Kind == "param" && x.Base.Param == 0 {
							epochFields[x.Field] = true
						}
						return false
					})
				}
			}
		}
	}
	t7 := p.Tag("tagBeginSeqNo")
	for f := range epochFields {
		ok := false
		for _, st := range p.FieldStores(f) {
			if len(p.setTagCalls(st.Fn, t7)) == 0 || !p.Origin(st.Store.Val).Mentions(func(x *Org) bool { return x.IsCallTo("(MessageStore).CreationTime") }) {
				continue
			}
			dom := true
			for _, b := range st.Fn.Blocks {
				if ret, isR := b.Instrs[len(b.Instrs)-1].(*ssa.Return); isR && b != st.Fn.Recover && p.possibleSuccess(ret) && !InstrDominates(st.Store, ret) {
					dom = false
				}
			}
			if dom {
				ok = true
			}
		}
		n++
		c.Check(ok, "resendState."+cn(f), "-", "epoch-recorded:"+cn(f), "the epoch field is set from the store's creation time where the ResendRequest is built",
			"the recovery state's "+cn(f)+" is compared with the store's creation time but is not set from it, before every success return, by the function that builds the ResendRequest: the comparison does not tell whether the store was reset since the request went out")
	}
	if n == 0 {
		c.Violation("", "-", "no-recovery-handler", "the recovery state's inbound handler was not found (anchor lost)")
	}
}

// C02-R11: the store is reset only inside the send critical section. A sender holds sendMutex
// from reading the next outbound number to persisting it and queueing the bytes; a reset that runs
// without the mutex can fall between the read and the persist — the message is then stored and
// queued under its old-epoch number after the counters went back to 1, the first number of the new
// epoch is never used, and the store holds a message the new epoch does not know (D23). Every call
// of the store's Reset in the session code therefore executes with sendMutex held, by the function
// itself or by every caller chain up to an entry point.
func c02R11(c *Ctx) {
	p := c.P
	r := getRoles(p)
	ops := map[*ssa.Function][]GuardedOp{}
	n := 0
	for _, fn := range p.FuncsIn(modPath) {
		if fnPkg(fn).Pkg.Path() != modPath {
			continue
		}
		for _, cl := range r.storeCalls(fn, "Reset") {
			ops[fn] = append(ops[fn], GuardedOp{cl, sendMu, "store.Reset"})
			n++
			if lockSatisfied(p.Locks(fn).HeldAt(cl), sendMu) {
				c.OK(FuncName(fn), p.InstrPos(cl), "store.Reset under "+sendMu+" (acquired in this function)")
			} else {
				c.OK(FuncName(fn), p.InstrPos(cl), "store.Reset: entry requirement "+sendMu+" (checked at callers)")
			}
		}
	}
	// callers that reach a function without holding the mutex at the call site
	type edge struct {
		caller *ssa.Function
		site   ssa.Instruction
	}
	callers := map[*ssa.Function][]edge{}
	for _, f := range p.Funcs {
		for _, e := range p.SyncCallees(f) {
			if !lockSatisfied(p.Locks(f).HeldAt(e.site), sendMu) {
				callers[e.callee] = append(callers[e.callee], edge{f, e.site})
			}
		}
	}
	var fns []*ssa.Function
	for fn := range ops {
		fns = append(fns, fn)
	}
	sort.Slice(fns, func(i, j int) bool { return fns[i].Pos() < fns[j].Pos() })
	for _, fn := range fns {
		for _, op := range ops[fn] {
			if lockSatisfied(p.Locks(fn).HeldAt(op.In), sendMu) {
				continue
			}
			// breadth-first towards an entry point along unlocked call edges
			type node struct {
				fn    *ssa.Function
				chain string
			}
			seen := map[*ssa.Function]bool{fn: true}
			queue := []node{{fn, FuncName(fn)}}
			var found *node
			var kinds []string
			for len(queue) > 0 && found == nil {
				cur := queue[0]
				queue = queue[1:]
				if k := p.entryKinds(cur.fn); len(k) > 0 {
					found, kinds = &cur, k
					break
				}
				es := callers[cur.fn]
				sort.Slice(es, func(i, j int) bool { return es[i].site.Pos() < es[j].site.Pos() })
				for _, e := range es {
					if !seen[e.caller] {
						seen[e.caller] = true
						queue = append(queue, node{e.caller, FuncName(e.caller) + " → " + cur.chain})
					}
				}
			}
			if found != nil {
				c.Violation(FuncName(fn), p.InstrPos(op.In), "reset-outside-send-section", fmt.Sprintf("the store is reset without %s held, on the path %s (entered as: %s): a sender that has read its number but not yet persisted it is overtaken by the reset — it is stored and sent under the old-epoch number after the counters went back to 1, and number 1 of the new epoch is never used", sendMu, found.chain, clip(strings.Join(kinds, "; "), 120)))
			}
		}
	}
	if n == 0 {
		c.Violation("", "-", "no-reset-sites", "the session code never resets the store (anchor lost)")
	}
}

// C03-R9: the start-of-body mark stops at the first body field. The parser moves bodyBytes past
// every field while the body has not begun (the flag that says so is false); whatever files a
// field into the Body — the plain arm, or the group sub-parser for a NumInGroup field — has set
// that flag by the end of its block, otherwise bodyBytes (what a replay is rebuilt from) starts
// after the group, and the replayed message silently loses it.
func c03R9(c *Ctx) {
	p := c.P
	fFound := p.Field(modPath, "msgParser", "foundBody")
	fTrailer := p.Field(modPath, "msgParser", "trailerBytes")
	fBody := p.Field(modPath, "Message", "Body")
	fns := map[*ssa.Function]bool{}
	for _, st := range p.FieldStores(fTrailer) {
		fns[st.Fn] = true
	}
	isSet := func(in ssa.Instruction) bool {
		st, ok := in.(*ssa.Store)
		if !ok || fieldAddrOf(st.Addr, fFound) == nil {
			return false
		}
		b, isB := p.Origin(st.Val).ConstBoolVal()
		return isB && b
	}
	flows := map[*ssa.Function]*MustFlow{}
	var flowOf func(fn *ssa.Function) *MustFlow
	alwaysSets := func(fn *ssa.Function) bool { return flowOf(fn).MustAtAllReturns()["found"] }
	flowOf = func(fn *ssa.Function) *MustFlow {
		if mf, ok := flows[fn]; ok {
			return mf
		}
		mf := &MustFlow{Fn: fn}
		flows[fn] = mf
		mf.Transfer = func(in ssa.Instruction, s Set) {
			if isSet(in) {
				s["found"] = true
			}
			if cl, ok := in.(ssa.CallInstruction); ok {
				if cal := cl.Common().StaticCallee(); cal != nil && cal != fn && fns[cal] && alwaysSets(cal) {
					s["found"] = true
				}
			}
		}
		return mf
	}
	// a sub-parser every caller of which has set the flag before the call starts with it set
	for fn := range fns {
		sites := p.CallsTo(fn)
		all := len(sites) > 0
		for _, cs := range sites {
			if !fns[cs.Fn] || cs.Fn == fn || !flowOf(cs.Fn).Before(cs.Call.(ssa.Instruction))["found"] {
				all = false
			}
		}
		if all {
			delete(flows, fn)
			flowOf(fn).Entry = Set{"found": true}
		}
	}
	n := 0
	for fn := range fns {
		mf := flowOf(fn)
		for _, cl := range Calls(fn) {
			cal := cl.Common().StaticCallee()
			if cal == nil {
				continue
			}
			files := false
			what := ""
			if cal.Signature.Recv() != nil && typeName(cal.Signature.Recv().Type()) == "FieldMap" && fnName(cal) == "add" && len(cl.Common().Args) == 2 &&
				p.Origin(cl.Common().Args[0]).Mentions(func(x *Org) bool { return x.Kind == "field" && x.Field == fBody }) {
				files, what = true, "a field is filed into the Body"
			} else if cal != fn && fns[cal] {
				files, what = true, "a NumInGroup field is handed to "+FuncName(cal)
			}
			if !files {
				continue
			}
			n++
			ok := mf.Before(cl.(ssa.Instruction))["found"]
			if !ok {
				past := false
				for _, in := range cl.Block().Instrs {
					if in == cl.(ssa.Instruction) {
						past = true
						if c2 := cl.Common().StaticCallee(); c2 != nil && c2 != fn && fns[c2] && alwaysSets(c2) {
							ok = true
						}
						continue
					}
					if past && isSet(in) {
						ok = true
					}
				}
			}
			c.Check(ok, FuncName(fn), p.InstrPos(cl.(ssa.Instruction)), "body-start-mark", "the body-has-begun flag is set when a field is filed into the Body",
				what+" without the body-has-begun flag being set by the end of the block: the start-of-body mark keeps moving, bodyBytes begins after this field (after the whole group), and a replay rebuilt from bodyBytes silently loses it")
		}
	}
	if n < 2 {
		c.Violation("", "-", "no-body-filing", "fewer than two sites file fields into the Body in the parser")
	}
}

// implementations: the in-module methods an interface method call can dispatch to.
func (p *Prog) implementations(m *types.Func) []*ssa.Function {
	if m == nil {
		return nil
	}
	sig, ok := m.Type().(*types.Signature)
	if !ok || sig.Recv() == nil {
		return nil
	}
	iface, ok := sig.Recv().Type().Underlying().(*types.Interface)
	if !ok {
		return nil
	}
	var out []*ssa.Function
	for _, fn := range p.Funcs {
		if !p.InModule(fn) || fn.Signature.Recv() == nil || fn.Name() != m.Name() || fn.Synthetic != "" {
			continue
		}
		rt := fn.Signature.Recv().Type()
		if types.Implements(rt, iface) || types.Implements(types.NewPointer(rt), iface) {
			out = append(out, fn)
		}
	}
	sort.Slice(out, func(i, j int) bool { return out[i].Pos() < out[j].Pos() })
	return out
}

// C04-R12 (= C01-R11): every inbound message is parsed into a message of its own. The early
// message of a gap is kept by pointer in the stash, and the replay loop reuses nothing: if the
// function that parses inbound bytes handed the handlers a Message it keeps and reuses (a field of
// the state machine, a pool), every stashed entry would alias the buffer the next inbound message
// overwrites, and the kept message would be lost. The Message passed to the parser and on to the
// state handlers is the result of a constructor call made in that invocation.
func c04R12(c *Ctx) {
	p := c.P
	inc := p.incomingFn()
	name := FuncName(inc)
	n := 0
	for _, cl := range Calls(inc) {
		cal := cl.Common().StaticCallee()
		if cal == nil || !p.InModule(cal) {
			continue
		}
		for i, a := range cl.Common().Args {
			if !isPtrToNamed(a.Type(), "Message") {
				continue
			}
			// only calls that hand the message on (parser target, state dispatch), not methods on it
			if i == 0 && cal.Signature.Recv() != nil && isPtrToNamed(cal.Signature.Recv().Type(), "Message") {
				continue
			}
			n++
			o := p.Origin(a)
			fresh := o.Kind == "call" && o.Callee != nil && p.returnsFreshDeep(o.Callee, 0, 0) && o.CallI != nil && o.CallI.Parent() == inc
			c.Check(fresh, name, p.InstrPos(cl.(ssa.Instruction)), "inbound-message-fresh:"+FuncName(cal), "the message handed to "+FuncName(cal)+" was allocated for this inbound message",
				"the Message handed to "+FuncName(cal)+" is "+o.String()+", not one allocated for this inbound message: a too-high message is kept by pointer in the recovery stash, so a reused parse target makes every stashed entry alias the next inbound message — the kept message is overwritten and lost")
		}
	}
	if n < 2 {
		c.Violation(name, p.Pos(inc.Pos()), "no-inbound-handoff", "the inbound function does not hand a Message to the parser and the state handlers")
	}
}

// C07-R12: NextExpectedMsgSeqNum(789) implies a gap fill only on a Logon that does not reset. Where
// tag 789 of a received message is compared with an outbound number that was read from the store
// BEFORE a call that may reset the store (so that the number can be one of the closed epoch), the
// comparison is reached only under the absence of ResetSeqNumFlag(141) in that message: after an
// agreed reset both sides are at 1 and nothing is implied. A comparison with a number read after
// the last possible reset carries no such obligation.
func c07R12(c *Ctx) {
	p := c.P
	t789, t141 := p.Tag("tagNextExpectedMsgSeqNum"), p.Tag("tagResetSeqNumFlag")
	r := getRoles(p)
	mayReset := func(cal *ssa.Function) bool {
		return cal != nil && p.InModule(cal) && (len(r.storeCalls(cal, "Reset")) > 0 || p.reachesAny(cal, func(g *ssa.Function) bool { return len(r.storeCalls(g, "Reset")) > 0 }))
	}
	precedes := func(a, b ssa.Instruction) bool {
		if a.Block() == b.Block() {
			return instrIndex(a) < instrIndex(b)
		}
		return blockReaches(a.Block(), b.Block())
	}
	// resetBetween: in the function of `from`, a call that may reset the store can run after `from` and before `to`
	resetBetween := func(from, to ssa.Instruction) bool {
		for _, c2 := range Calls(from.Parent()) {
			in2 := c2.(ssa.Instruction)
			if in2 == from || in2 == to || !mayReset(c2.Common().StaticCallee()) {
				continue
			}
			if precedes(from, in2) && precedes(in2, to) {
				return true
			}
		}
		return false
	}
	is789 := func(o *Org) bool {
		return o.Mentions(func(x *Org) bool {
			return (x.Kind == "call" || x.Kind == "outarg") && x.IsCallTo("(FieldMap).GetInt", "(FieldMap).GetField") && x.ArgConstInt(0, t789)
		})
	}
	captureOf := func(o *Org) ssa.Instruction {
		var k ssa.Instruction
		o.Mentions(func(x *Org) bool {
			if x.Kind == "call" && x.IsCallTo("(MessageStore).NextSenderMsgSeqNum") && x.CallI != nil {
				k = x.CallI
			}
			return false
		})
		return k
	}
	no141 := func(d DNF) bool {
		return d.Implies(func(a *Atom) bool {
			return a.Rel == "" && !a.Val && a.B.IsCallTo("(FieldMap).Has") && a.B.ArgConstInt(0, t141)
		})
	}
	n := 0
	for _, fn := range p.FuncsIn(modPath) {
		if fnPkg(fn).Pkg.Path() != modPath {
			continue
		}
		fn := fn
		ForEachInstr(fn, func(in ssa.Instruction) {
			b, ok := in.(*ssa.BinOp)
			if !ok {
				return
			}
			switch b.Op {
			case token.EQL, token.NEQ, token.LSS, token.LEQ, token.GTR, token.GEQ:
			default:
				return
			}
			l, ro := p.Origin(b.X), p.Origin(b.Y)
			var other *Org
			switch {
			case is789(l):
				other = ro
			case is789(ro):
				other = l
			default:
				return
			}
			n++
			stale, guarded := false, no141(p.ReachCond(in.Block()))
			if k := captureOf(other); k != nil && k.Parent() == fn {
				stale = resetBetween(k, in)
			} else if other.Kind == "param" && other.Fn == fn {
				// a helper: the number is captured by the caller
				for _, cs := range p.CallsTo(fn) {
					args := cs.Call.Common().Args
					if other.Param >= len(args) {
						continue
					}
					if k := captureOf(p.Origin(args[other.Param])); k != nil && k.Parent() == cs.Fn && resetBetween(k, cs.Call.(ssa.Instruction)) {
						stale = true
						if no141(p.ReachCond(cs.Call.Block())) {
							guarded = true
						}
					}
				}
			}
			if !stale {
				c.OK(FuncName(fn), p.InstrPos(in), "tag 789 compared with a number read after the last possible reset")
				return
			}
			c.Check(guarded, FuncName(fn), p.InstrPos(in), "789-only-without-141", "a comparison of NextExpectedMsgSeqNum(789) with a number captured before a possible reset is reached only without ResetSeqNumFlag(141)",
				"NextExpectedMsgSeqNum(789) of the received Logon is compared with "+clip(other.String(), 80)+", an outbound number read before a call that may reset the store, and the comparison does not exclude a Logon carrying ResetSeqNumFlag(141): right after an agreed reset a gap fill to the stale number is sent and the peer is told to jump ahead")
		})
	}
	if n == 0 {
		c.Violation("", "-", "no-789-comparison", "no function compares NextExpectedMsgSeqNum(789) of a received message")
	}
}

// C10-R11: copying a message copies every section. For each section field of Message (the fields
// whose type embeds FieldMap) the copy function calls the field-map copy with that section of
// the source as the source and the same section of the destination as the destination.
func c10R11(c *Ctx) {
	p := c.P
	msgT := p.Named(modPath, "Message")
	st, ok := msgT.Underlying().(*types.Struct)
	if !ok {
		c.Violation("", "-", "no-message-struct", "Message is not a struct")
		return
	}
	fmCopy := p.Method(modPath, "FieldMap", "CopyInto")
	var copyFn *ssa.Function
	for _, fn := range p.FuncsIn(modPath) {
		if r := fn.Signature.Recv(); r != nil && isPtrToNamed(r.Type(), "Message") && fn.Signature.Params().Len() == 1 && isPtrToNamed(fn.Signature.Params().At(0).Type(), "Message") && fn.Signature.Results().Len() == 0 {
			for _, cl := range Calls(fn) {
				if cl.Common().StaticCallee() == fmCopy {
					copyFn = fn
				}
			}
		}
	}
	if copyFn == nil {
		c.Violation("", "-", "no-message-copy", "no method of *Message copies field maps into another *Message")
		return
	}
	n := 0
	for i := 0; i < st.NumFields(); i++ {
		f := st.Field(i)
		sec, isStruct := f.Type().Underlying().(*types.Struct)
		if !isStruct {
			continue
		}
		embeds := false
		for j := 0; j < sec.NumFields(); j++ {
			if sec.Field(j).Embedded() && typeName(sec.Field(j).Type()) == "FieldMap" {
				embeds = true
			}
		}
		if !embeds {
			continue
		}
		n++
		copied := false
		for _, cl := range Calls(copyFn) {
			if cl.Common().StaticCallee() != fmCopy || len(cl.Common().Args) != 2 {
				continue
			}
			src, dst := p.Origin(cl.Common().Args[0]), p.Origin(cl.Common().Args[1])
			mentions := func(o *Org, param int) bool {
				return o.Mentions(func(x *Org) bool {
					return x.Kind == "field" && x.Field == f && x.Base != nil && x.Base.Mentions(func(y *Org) bool { return y.Kind == "param" && y.Param == param })
				})
			}
			if mentions(src, 0) && mentions(dst, 1) {
				copied = true
			}
		}
		c.Check(copied, FuncName(copyFn), p.Pos(copyFn.Pos()), "section-copied:"+cn(f), "section "+cn(f)+" of the source is copied into section "+cn(f)+" of the destination",
			"the message copy does not copy the "+cn(f)+" section of the source into the "+cn(f)+" section of the destination: fields held there (a Signature in the trailer, routing fields in the header) are missing from the copy, which no longer serialises like its source")
	}
	if n < 3 {
		c.Violation("", "-", "few-sections", "fewer than three field-map sections found in Message")
	}
}

// blockReaches: b can be reached from a along CFG edges (a != b).
func blockReaches(a, b *ssa.BasicBlock) bool {
	seen := map[*ssa.BasicBlock]bool{}
	stack := []*ssa.BasicBlock{a}
	for len(stack) > 0 {
		x := stack[len(stack)-1]
		stack = stack[:len(stack)-1]
		for _, s := range x.Succs {
			if s == b {
				return true
			}
			if !seen[s] {
				seen[s] = true
				stack = append(stack, s)
			}
		}
	}
	return false
}
