package main

// Rules added after the fifth (blind) round of independently written changes.

import (
	"fmt"
	"go/types"

	"golang.org/x/tools/go/ssa"
)

// C04-R10: recovery ends when the requested range has been passed. In the inbound handler of the
// recovery state (the method of the state that owns the stash which hands the message to the
// in-session handler), the handler's own state is handed back as the next state only while the
// end of the requested range is not below the store's next expected number. A return of the
// recovery state under any other condition (a non-empty stash, say) pins the session in recovery
// after the gap has closed: a later gap is then stashed with no ResendRequest, because the
// recovery state assumes the request is already on the wire.
func c04R10(c *Ctx) {
	p := c.P
	rs := p.Named(modPath, "resendState")
	inSess := p.Named(modPath, "inSession")
	fEnd := p.Field(modPath, "resendState", "resendRangeEnd")
	n := 0
	for _, fn := range p.FuncsIn(modPath) {
		recv := fn.Signature.Recv()
		if recv == nil || !types.Identical(recv.Type(), rs) {
			continue
		}
		// role: feeds the message to the in-session inbound handler
		feeds := false
		for _, cl := range Calls(fn) {
			cal := cl.Common().StaticCallee()
			if cal != nil && cal.Signature.Recv() != nil && types.Identical(cal.Signature.Recv().Type(), inSess) &&
				cal.Signature.Params().Len() == fn.Signature.Params().Len() && sameParamTypes(cal.Signature, fn.Signature) && len(fn.Params) == 3 &&
				isPtrToNamed(fn.Params[2].Type(), "Message") {
				feeds = true
			}
		}
		if !feeds {
			continue
		}
		name := FuncName(fn)
		for _, b := range fn.Blocks {
			r, ok := b.Instrs[len(b.Instrs)-1].(*ssa.Return)
			if !ok || b == fn.Recover {
				continue
			}
			for _, res := range r.Results {
				for _, alt := range p.valueAlternatives(res, b, 0) {
					mi, ok := alt.val.(*ssa.MakeInterface)
					if !ok || !types.Identical(mi.X.Type(), rs) {
						continue
					}
					o := p.Origin(mi.X)
					if !(o.Kind == "param" && o.Param == 0) {
						continue
					}
					n++
					d := alt.cond
					inProgress := d.Implies(func(a *Atom) bool {
						// next expected <= range end
						return a.Rel == "<=" && a.L.IsCallTo("(MessageStore).NextTargetMsgSeqNum") && isFieldOrg(a.R, fEnd) && a.R.Base != nil && a.R.Base.Kind == "param" && a.R.Base.Param == 0
					})
					c.Check(inProgress, name, p.InstrPos(r), "recovery-kept-only-in-range", "the recovery state is kept only while NextTargetMsgSeqNum() <= resendRangeEnd",
						"the recovery state hands itself back as the next state under "+clip(d.String(), 240)+", which does not require that the requested range is still open (next expected <= resendRangeEnd): once the gap is closed the session stays in recovery, and a later gap is stashed without any ResendRequest")
				}
			}
		}
	}
	if n == 0 {
		c.Violation("", "-", "no-recovery-self-return", "the recovery state's inbound handler never hands itself back (anchor lost)")
	}
}

func sameParamTypes(a, b *types.Signature) bool {
	if a.Params().Len() != b.Params().Len() {
		return false
	}
	for i := 0; i < a.Params().Len(); i++ {
		if !types.Identical(a.Params().At(i).Type(), b.Params().At(i).Type()) {
			return false
		}
	}
	return true
}

func isPtrToNamed(t types.Type, name string) bool {
	pt, ok := t.(*types.Pointer)
	if !ok {
		return false
	}
	return typeName(pt.Elem()) == name
}

// C06-R7: a Reject quotes the offending number in every protocol version. In the function that
// sets RefSeqNum(45), every path from the entry to the call that sends the reply either sets
// RefSeqNum or has seen the read of MsgSeqNum(34) from the rejected message fail — setting it only
// inside a BeginString-dependent branch leaves FIX.4.0/4.1 Rejects without the required quote.
func c06R7(c *Ctx) {
	p := c.P
	t45, t34 := p.Tag("tagRefSeqNum"), p.Tag("tagMsgSeqNum")
	fn := findFuncSetting(p, t45)
	if fn == nil {
		c.Violation("", "-", "no-refseqnum", "no function sets RefSeqNum(45)")
		return
	}
	name := FuncName(fn)
	sets := map[ssa.Instruction]bool{}
	for _, st := range p.setTagCalls(fn, t45) {
		sets[st.call.(ssa.Instruction)] = true
	}
	getFailed := func(a *Atom) bool {
		if a.Rel != "!=" || !a.R.IsNil() {
			return false
		}
		return (a.L.Kind == "call" || a.L.Kind == "outarg") && a.L.IsCallTo("(FieldMap).GetField", "(FieldMap).GetInt") && a.L.ArgConstInt(0, t34)
	}
	mf := &MustFlow{Fn: fn,
		Transfer: func(in ssa.Instruction, s Set) {
			if sets[in] {
				s["ref"] = true
			}
		},
		Edge: func(from, to *ssa.BasicBlock, s Set) {
			if edgeCond(p, from, to).Implies(getFailed) {
				s["ref"] = true
			}
		},
	}
	n := 0
	for _, cl := range Calls(fn) {
		cal := cl.Common().StaticCallee()
		if cal == nil || !p.InModule(cal) || cal.Signature.Results().Len() != 1 || !isErrorType(cal.Signature.Results().At(0).Type()) {
			continue
		}
		// the send: receives the reply the quote was set on
		isSend := false
		for _, st := range p.setTagCalls(fn, t45) {
			root, _ := st.recv.FieldPath()
			for _, a := range cl.Common().Args {
				if root != nil && root.Val != nil && stripConv(a) == stripConv(root.Val) {
					isSend = true
				}
			}
		}
		if !isSend || sets[cl.(ssa.Instruction)] {
			continue
		}
		n++
		c.Check(mf.Before(cl.(ssa.Instruction))["ref"], name, p.InstrPos(cl.(ssa.Instruction)), "refseqnum-every-version", "every path to the send sets RefSeqNum(45) or failed to read MsgSeqNum(34)",
			"the Reject is sent on a path that neither set RefSeqNum(45) nor failed to read MsgSeqNum(34) of the rejected message: the quote of the offending number depends on a branch (the protocol version) and is missing on the other arm")
	}
	if n == 0 {
		c.Violation(name, p.Pos(fn.Pos()), "no-reject-send", "the function setting RefSeqNum(45) does not send the reply it builds")
	}
}

func clip(s string, n int) string {
	if len(s) <= n {
		return s
	}
	return s[:n] + "…"
}

// C13-R13: entries created by the group's own methods carry the template's order. Every Group the
// methods of the repeating group allocate (Add, the reader) is initialised with the ordering
// obtained from the group's template-order function — an entry initialised with the default
// ascending-tag order is written back with its members re-sorted by tag number, the delimiter no
// longer first, and the next reader splits the entries at the wrong places.
func c13R13(c *Ctx) {
	p := c.P
	initWO := p.Method(modPath, "FieldMap", "initWithOrdering")
	rg := p.Named(modPath, "RepeatingGroup")
	grp := p.Named(modPath, "Group")
	n := 0
	for _, fn := range p.FuncsIn(modPath) {
		rcv := fn.Signature.Recv()
		if rcv == nil || namedOf(rcv.Type()) != rg {
			continue
		}
		ForEachInstr(fn, func(in ssa.Instruction) {
			al, ok := in.(*ssa.Alloc)
			if !ok || !al.Heap || namedOf(al.Type()) != grp {
				return
			}
			n++
			var how string
			okInit := false
			for _, cl := range Calls(fn) {
				cc := cl.Common()
				cal := cc.StaticCallee()
				if cal == nil || len(cc.Args) == 0 {
					continue
				}
				root, _ := p.Origin(cc.Args[0]).FieldPath()
				if root == nil || root.Val != ssa.Value(al) {
					continue
				}
				if cal != initWO {
					if p.reachesAny(cal, func(f *ssa.Function) bool { return f == initWO }) {
						how = "initialised by " + FuncName(cal)
					}
					continue
				}
				ao := p.Origin(cc.Args[1])
				if ao.Kind == "call" && ao.Callee != nil && ao.Callee.Signature.Recv() != nil && namedOf(ao.Callee.Signature.Recv().Type()) == rg {
					okInit = true
				} else {
					how = "initialised with ordering " + ao.String()
				}
			}
			if how == "" {
				how = "not initialised with an ordering"
			}
			c.Check(okInit, FuncName(fn), p.InstrPos(al), "entry-template-order", "new entry initialised with the group's template order",
				"a group entry is "+how+", not with the order of the group's template: when the group is written again its members come out in ascending tag order instead of template order, the delimiter is no longer first, and the reader on the other side splits the entries differently")
		})
	}
	if n < 2 {
		c.Violation("", "-", "no-entry-allocs", "fewer than two entry allocations found in the repeating group's methods")
	}
}

// C18-R8: in the weekly schedule the close of the window an instant belongs to depends on the time
// of day when the instant falls on the end day: the number of days added to reach the close
// (the days argument of AddDate) has an alternative that is chosen under a test involving the
// configured end time. Without it an instant on the end day before the end time is attributed to
// the window that closes a week later, and is "in the same range" as instants of next week.
func c18R8(c *Ctx) {
	p := c.P
	tr := p.Named(modPath+"/internal", "TimeRange")
	fEndTime := p.Field(modPath+"/internal", "TimeRange", "endTime")
	fEndDay := p.Field(modPath+"/internal", "TimeRange", "endDay")
	n := 0
	for _, fn := range p.FuncsIn(modPath + "/internal") {
		rcv := fn.Signature.Recv()
		if rcv == nil || namedOf(rcv.Type()) != tr {
			continue
		}
		for _, cl := range Calls(fn) {
			if callName(cl.Common()) != "(time.Time).AddDate" || len(cl.Common().Args) != 4 {
				continue
			}
			days := cl.Common().Args[3]
			if _, isPhi := days.(*ssa.Phi); !isPhi {
				continue
			}
			weekly, timeDep := false, false
			for _, alt := range p.valueAlternatives(days, cl.Block(), 0) {
				isWeekly := false
				for _, a := range alt.cond.Atoms() {
					if a.Rel == "!=" && a.R != nil && a.R.IsNil() && isFieldOrg(a.L, fEndDay) && alt.cond.Implies(func(b *Atom) bool { return b.ID() == a.ID() }) {
						isWeekly = true
					}
				}
				if !isWeekly {
					continue
				}
				weekly = true
				for _, a := range alt.cond.Atoms() {
					for _, side := range []*Org{a.L, a.R, a.B} {
						if side != nil && side.Mentions(func(x *Org) bool {
							return x.Kind == "field" && x.Field == fEndTime || x.IsCallTo("(time.Time).Before", "(time.Time).After")
						}) {
							timeDep = true
						}
					}
				}
			}
			if !weekly {
				continue
			}
			n++
			c.Check(timeDep, FuncName(fn), p.InstrPos(cl.(ssa.Instruction)), "weekly-close-depends-on-end-time", "the days to the weekly close depend on the end time on the end day",
				"in the weekly schedule the number of days added to reach the window's close never depends on the configured end time: an instant on the end day before the end time gets the close of NEXT week, so it is reported in the same range as instants of the following window")
		}
	}
	if n == 0 {
		c.Violation("", "-", "no-weekly-close", "no AddDate with a weekday-dependent day count found in the schedule code")
	}
}

// C19-R10: every declared component and message is built, not only those something refers to. For
// each list of declarations in the parsed document (the slice fields of the XML document whose
// elements are component declarations) some function of the package hands the elements of that
// list to a fallible builder. A dictionary that builds components lazily on first use never looks
// inside a component nothing refers to, and a dangling reference in it is accepted.
func c19R10(c *Ctx) {
	p := c.P
	pkg := modPath + "/datadictionary"
	doc := p.Named(pkg, "XMLDoc")
	st, ok := doc.Underlying().(*types.Struct)
	if !ok {
		c.Violation("", "-", "no-xmldoc", "XMLDoc is not a struct")
		return
	}
	// the build entries: functions that receive the parsed document and may fail
	var entries []*ssa.Function
	for _, fn := range p.FuncsIn(pkg) {
		res := fn.Signature.Results()
		if res.Len() == 2 && isErrorType(res.At(1).Type()) {
			for i := 0; i < fn.Signature.Params().Len(); i++ {
				if isPtrToNamed(fn.Signature.Params().At(i).Type(), "XMLDoc") {
					entries = append(entries, fn)
				}
			}
		}
	}
	if len(entries) == 0 {
		c.Violation("", "-", "no-build-entry", "no fallible function receives the parsed document")
		return
	}
	reached := func(fn *ssa.Function) bool {
		for _, e := range entries {
			if e == fn || p.reachesAny(e, func(f *ssa.Function) bool { return f == fn }) {
				return true
			}
		}
		return false
	}
	n := 0
	for i := 0; i < st.NumFields(); i++ {
		f := st.Field(i)
		sl, ok := f.Type().Underlying().(*types.Slice)
		if !ok {
			continue
		}
		pt, ok := sl.Elem().(*types.Pointer)
		if !ok || typeName(pt.Elem()) != "XMLComponent" {
			continue
		}
		n++
		built := false
		var where string
		for _, fn := range p.FuncsIn(pkg) {
			if !reached(fn) {
				continue
			}
			for _, cl := range Calls(fn) {
				cal := cl.Common().StaticCallee()
				if cal == nil || !p.InModule(cal) {
					continue
				}
				res := cal.Signature.Results()
				if res.Len() != 2 || !isErrorType(res.At(1).Type()) {
					continue
				}
				for _, a := range cl.Common().Args {
					if !types.Identical(a.Type(), sl.Elem()) {
						continue
					}
					ao := p.Origin(a)
					if ao.Mentions(func(x *Org) bool { return x.Kind == "field" && x.Field == f }) && inAnyLoop(fn, cl.Block()) {
						built = true
						where = FuncName(fn)
					}
				}
			}
		}
		c.Check(built, "XMLDoc."+cn(f), "-", "declared-built:"+cn(f), "every element of "+cn(f)+" is handed to a fallible builder ("+where+")",
			"no loop hands the elements of XMLDoc."+cn(f)+" to a builder that can fail: declarations nothing refers to are never looked at, so an undefined field or component referenced inside them is accepted instead of refused")
	}
	if n < 2 {
		c.Violation("", "-", "no-declaration-lists", "fewer than two declaration lists found in XMLDoc")
	}
}

// C14-R7: time.Parse's leniency about the fraction separator is closed off. Go's parser matches a
// fractional-second element of the layout (".000…") against a decimal point OR a comma in the
// input. Every time.Parse call of the value types whose constant layout has such an element is
// therefore reached only under a test that the input byte at the separator's offset is '.', so
// that "…:16,310" is refused rather than read as "…:16.310" (D21).
func c14R7(c *Ctx) {
	p := c.P
	n := 0
	for _, fn := range p.FuncsIn(modPath) {
		if fnPkg(fn).Pkg.Path() != modPath {
			continue
		}
		for _, cl := range Calls(fn) {
			if callName(cl.Common()) != "time.Parse" {
				continue
			}
			for _, alt := range p.valueAlternatives(cl.Common().Args[0], cl.Block(), 0) {
				layout, ok := p.Origin(alt.val).ConstStringVal()
				if !ok {
					continue // C14-R1 reports non-constant layouts
				}
				k := -1
				for i := 0; i+1 < len(layout); i++ {
					if (layout[i] == '.' || layout[i] == ',') && (layout[i+1] == '0' || layout[i+1] == '9') {
						k = i
						break
					}
				}
				if k < 0 {
					continue
				}
				n++
				in := p.Origin(cl.Common().Args[1])
				d := alt.cond
				okSep := layout[k] == '.' && impliesFeasible(d, func(a *Atom) bool {
					if a.Rel != "==" {
						return false
					}
					for _, pr := range [][2]*Org{{a.L, a.R}, {a.R, a.L}} {
						v, isC := pr[1].ConstIntVal()
						if !isC || v != '.' || pr[0].Kind != "index" || pr[0].Y == nil || !pr[0].Y.IsConstInt(int64(k)) {
							continue
						}
						// the indexed bytes are the parsed input
						base := pr[0].Base
						if in.Mentions(func(x *Org) bool { return x.Kind == base.Kind && x.String() == base.String() }) {
							return true
						}
					}
					return false
				})
				c.Check(okSep, FuncName(fn), p.InstrPos(cl.(ssa.Instruction)), fmt.Sprintf("fraction-separator:%d", len(layout)),
					fmt.Sprintf("layout %q parsed only when input[%d] == '.'", layout, k),
					fmt.Sprintf("time.Parse with layout %q is reached without a test that input[%d] is '.': Go's parser also accepts a comma before the fraction, so a text outside the FIX grammar (…:SS,sss) is read as a value and written back differently", layout, k))
			}
		}
	}
	if n < 3 {
		c.Violation("", "-", "no-fraction-layouts", "fewer than three time.Parse calls with a fractional-second layout found")
	}
}

// constInfeasible: the conjunct bounds one term by integer constants in a way no value satisfies
// (len(x) == 21 together with len(x) <= 17, say).
func constInfeasible(cj Conj) bool {
	type iv struct{ lo, hi int64 }
	ivs := map[string]*iv{}
	get := func(k string) *iv {
		if ivs[k] == nil {
			ivs[k] = &iv{-1 << 62, 1 << 62}
		}
		return ivs[k]
	}
	for _, a := range cj {
		if a.Rel == "" || a.L == nil || a.R == nil {
			continue
		}
		lc, lok := a.L.ConstIntVal()
		rc, rok := a.R.ConstIntVal()
		switch {
		case rok && !lok: // term REL const
			v := get(a.L.String())
			switch a.Rel {
			case "==":
				v.lo, v.hi = max64(v.lo, rc), min64(v.hi, rc)
			case "<":
				v.hi = min64(v.hi, rc-1)
			case "<=":
				v.hi = min64(v.hi, rc)
			}
		case lok && !rok: // const REL term
			v := get(a.R.String())
			switch a.Rel {
			case "==":
				v.lo, v.hi = max64(v.lo, lc), min64(v.hi, lc)
			case "<":
				v.lo = max64(v.lo, lc+1)
			case "<=":
				v.lo = max64(v.lo, lc)
			}
		}
	}
	for _, v := range ivs {
		if v.lo > v.hi {
			return true
		}
	}
	return false
}

func max64(a, b int64) int64 {
	if a > b {
		return a
	}
	return b
}

func min64(a, b int64) int64 {
	if a < b {
		return a
	}
	return b
}

// impliesFeasible: like DNF.Implies, but conjuncts that are infeasible by constant bounds do not count.
func impliesFeasible(d DNF, pred func(*Atom) bool) bool {
	for _, e := range d.Extra {
		if impliesFeasible(e, pred) {
			return true
		}
	}
	if d.Overflow || len(d.Cs) == 0 {
		return false
	}
	any := false
	for _, cj := range d.Cs {
		if constInfeasible(cj) {
			continue
		}
		any = true
		ok := false
		for _, a := range cj {
			if pred(a) {
				ok = true
				break
			}
		}
		if !ok {
			return false
		}
	}
	return any
}
