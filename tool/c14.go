package main

import (
	"fmt"
	"go/token"
	"go/types"
	"sort"
	"strings"

	"golang.org/x/tools/go/ssa"
)

func init() {
	register("C14", propC14)
	register("C18", propC18)
}

func propC14() Property {
	return Property{
		ID: "C14",
		Explanation: "Codec table agreement for the two value types whose reader and writer are driven by tables. R1 (timestamps): for every precision P the layout Read parses when it tags the value P is the layout Write emits for P; the length Read switches on equals len(layout); Write's fall-through layout is the one Read tags with the zero precision (Millis); all four precisions are covered on both sides. " +
			"R2 (booleans): the literals Read accepts are exactly the literals Write produces, with the same polarity (\"Y\" ↔ true, \"N\" ↔ false), anything else is an error. R3 (integer scanner, found by shape: a function folding acc*10+digit over the bytes of a parameter): a byte reaches the accumulation only under guards confining it to '0'..'9'; the accumulator is compared against a limit before it is multiplied (otherwise a long digit string wraps to a different, accepted number); no success return is possible for an empty text — either the scanner tests len itself or every call site passes a text its guards show non-empty (this is what makes a lone '-' an error); the only prefix a caller strips is one byte at position 0 shown equal to '-'. R4 (float): the reader's byte whitelist, read off the rejecting return's guard, is exactly digits (through a predicate shown to be true exactly on '0'..'9'), '.' and '-'; the receiver is assigned only after ParseFloat succeeded and no rejection can follow the assignment. R5: every time-typed Write formats t.UTC() (the layouts carry no zone), so the written text denotes the same instant whatever the value's location. R6: on the path that stripped a '-' the digit scanner's limit is the positive path's limit plus one (|MinInt| = MaxInt + 1).",
		NotDecided: "the grammar accepted by strconv.ParseFloat and time.Parse inside the whitelisted alphabet (e.g. two dots, a '-' in the middle: library behaviour), decimals, value round trips as equalities, truncation to the written precision.",
		Rules: []RuleDef{
			{ID: "C14-R1", Desc: "timestamp layout/length/precision tables agree between Read and Write", Min: 5, Run: c14R1},
			{ID: "C14-R2", Desc: "boolean literals agree between Read and Write", Min: 3, Run: c14R2},
			{ID: "C14-R3", Desc: "integer scanner: digits only, non-empty, sign only in front, accumulation guarded", Min: 4, Run: c14R3},
			{ID: "C14-R4", Desc: "float whitelist: digits, '.', '-' only, before the value is stored", Min: 3, Run: c14R4},
			{ID: "C14-R5", Desc: "timestamp writers format the UTC wall clock", Min: 1, Run: c14R5},
			{ID: "C14-R10", Desc: "the unsigned decimal is truncated, not rounded, to its scale", Min: 1, Run: c14R10},
			{ID: "C14-R9", Desc: "decimals are rendered by the decimal type, never through float64", Min: 2, Run: c14R9},
			{ID: "C14-R8", Desc: "a float is written as FormatFloat(receiver, 'f', -1, 64)", Min: 1, Run: c14R8},
			{ID: "C14-R7", Desc: "timestamp fraction separator is '.', never time.Parse's comma", Min: 3, Run: c14R7},
			{ID: "C14-R6", Desc: "negative integers: scanner limit is the positive limit plus one", Min: 1, Run: c14R6},
		},
	}
}

func c14R1(c *Ctx) {
	p := c.P
	rd := p.Method(modPath, "FIXUTCTimestamp", "Read")
	wr := p.Method(modPath, "FIXUTCTimestamp", "Write")
	fPrec := p.Field(modPath, "FIXUTCTimestamp", "Precision")
	type rrow struct {
		n      int64
		layout string
		prec   int64
		pos    string
	}
	var rows []rrow
	for _, cl := range Calls(rd) {
		if callName(cl.Common()) != "time.Parse" {
			continue
		}
		layout, ok := p.Origin(cl.Common().Args[0]).ConstStringVal()
		if !ok {
			c.Undecided(FuncName(rd), p.InstrPos(cl), "layout-nonconst", "timestamp layout is not a constant")
			continue
		}
		d := p.ReachCond(cl.Block())
		var n int64 = -1
		for _, a := range d.Atoms() {
			if a.Rel == "==" && a.L.IsCallTo("len") {
				if v, ok := a.R.ConstIntVal(); ok && d.Implies(func(b *Atom) bool { return b.String() == a.String() }) {
					n = v
				}
			}
		}
		var prec int64 = -1
		for _, st := range p.FieldStores(fPrec) {
			if st.Fn == rd && st.Store.Block() == cl.Block() {
				if v, ok := p.Origin(st.Store.Val).ConstIntVal(); ok {
					prec = v
				}
			}
		}
		rows = append(rows, rrow{n, layout, prec, p.InstrPos(cl)})
	}
	wlayout := map[int64]string{}
	var deflt string
	hasDef := false
	for _, cl := range Calls(wr) {
		if callName(cl.Common()) != "(time.Time).Format" {
			continue
		}
		for _, alt := range p.valueAlternatives(cl.Common().Args[1], cl.Block(), 0) {
			layout, ok := p.Origin(alt.val).ConstStringVal()
			if !ok {
				continue
			}
			d := alt.cond
			keyed := false
			for _, a := range d.Atoms() {
				if a.Rel == "==" && a.L.Kind == "field" && a.L.Field == fPrec {
					if v, ok := a.R.ConstIntVal(); ok && d.Implies(func(b *Atom) bool { return b.String() == a.String() }) {
						wlayout[v] = layout
						keyed = true
					}
				}
			}
			if !keyed {
				deflt = layout
				hasDef = true
			}
		}
	}
	name := FuncName(rd)
	precs := map[int64]bool{}
	for _, r := range rows {
		precs[r.prec] = true
		okLen := int(r.n) == len(r.layout)
		c.Check(okLen, name, r.pos, fmt.Sprintf("len-%d", r.n), fmt.Sprintf("case %d parses a %d-character layout", r.n, len(r.layout)), fmt.Sprintf("Read's case %d parses with layout %q of length %d: no text of that length can match", r.n, r.layout, len(r.layout)))
		wl, ok := wlayout[r.prec]
		if !ok && hasDef {
			wl = deflt
		}
		c.Check(wl == r.layout, name, r.pos, fmt.Sprintf("layout-prec-%d", r.prec), fmt.Sprintf("precision %d: Read and Write share layout %q", r.prec, r.layout),
			fmt.Sprintf("a value read with layout %q is tagged precision %d, but Write emits precision %d with layout %q: reading a canonical text and writing it back changes it", r.layout, r.prec, r.prec, wl))
	}
	c.Check(len(rows) == 4 && len(precs) == 4, name, p.Pos(rd.Pos()), "four-precisions", "Read covers seconds, millis, micros, nanos", fmt.Sprintf("Read has %d layouts for %d distinct precisions (4 expected)", len(rows), len(precs)))
	// the fall-through of Write is the zero precision's layout
	if hasDef {
		var zeroLayout string
		for _, r := range rows {
			if r.prec == 0 {
				zeroLayout = r.layout
			}
		}
		if _, keyed := wlayout[0]; !keyed {
			c.Check(deflt == zeroLayout, FuncName(wr), p.Pos(wr.Pos()), "default-layout", "Write's default layout is the one Read tags with the zero precision", fmt.Sprintf("Write falls through to layout %q but the zero precision is read with %q", deflt, zeroLayout))
		}
	}
}

func c14R2(c *Ctx) {
	p := c.P
	rd := p.Method(modPath, "FIXBoolean", "Read")
	wr := p.Method(modPath, "FIXBoolean", "Write")
	accept := map[string]bool{}
	nAcc := 0
	ForEachInstr(rd, func(in ssa.Instruction) {
		st, ok := in.(*ssa.Store)
		if !ok {
			return
		}
		if po := p.Origin(st.Addr); po.Kind != "param" {
			return
		}
		bv, isB := p.Origin(st.Val).ConstBoolVal()
		if !isB {
			return
		}
		d := p.ReachCond(st.Block())
		for _, a := range d.Atoms() {
			if a.Rel == "==" {
				if s, ok := a.R.ConstStringVal(); ok && d.Implies(func(b *Atom) bool { return b.String() == a.String() }) {
					accept[s] = bv
					nAcc++
				}
			}
		}
	})
	produce := map[string]bool{}
	for _, b := range wr.Blocks {
		r, ok := b.Instrs[len(b.Instrs)-1].(*ssa.Return)
		if !ok {
			continue
		}
		s, isS := p.Origin(r.Results[0]).ConstStringVal()
		if !isS {
			continue
		}
		d := p.ReachCond(b)
		pol := d.Implies(func(a *Atom) bool { return a.Rel == "" && a.Val && a.B.Kind == "param" })
		neg := d.Implies(func(a *Atom) bool { return a.Rel == "" && !a.Val && a.B.Kind == "param" })
		if pol {
			produce[s] = true
		} else if neg {
			produce[s] = false
		}
	}
	keys := func(m map[string]bool) string {
		var ks []string
		for k, v := range m {
			ks = append(ks, fmt.Sprintf("%s=%v", k, v))
		}
		sort.Strings(ks)
		return strings.Join(ks, ",")
	}
	c.Check(len(accept) == 2 && keys(accept) == keys(produce), FuncName(rd), p.Pos(rd.Pos()), "literals", "accepted and produced literals agree: "+keys(accept), "boolean codec: Read accepts {"+keys(accept)+"} but Write produces {"+keys(produce)+"}")
	c.Check(accept["Y"] && !accept["N"] && len(accept) == 2, FuncName(rd), p.Pos(rd.Pos()), "fix-literals", "FIX literals Y = true, N = false", "boolean literals are not the FIX ones (Y/N): "+keys(accept))
	// everything else is an error: some return of Read has a non-nil error not guarded by an accepted literal
	hasErr := false
	for _, b := range rd.Blocks {
		if r, ok := b.Instrs[len(b.Instrs)-1].(*ssa.Return); ok && !p.Origin(r.Results[0]).IsNil() {
			hasErr = true
		}
	}
	c.Check(hasErr, FuncName(rd), p.Pos(rd.Pos()), "reject-others", "any other text is an error", "FIXBoolean.Read has no error path: every text would be accepted")
}

// ---- C18 ------------------------------------------------------------------------------

func propC18() Property {
	return Property{
		ID: "C18",
		Explanation: "R1 (weekday domain): every time.Weekday value that the schedule code uses as a weekday — compared with another weekday, passed to or returned from a Weekday-typed parameter/result, stored in a Weekday field — lies in [0,6], by interval analysis over the expression (Time.Weekday() ∈ [0,6], constants, parameter intervals joined over in-module call sites, Go's truncated %, +, −). A Weekday difference converted straight to int (day-offset arithmetic) is not a sink. " +
			"R2 (day-name table): every key of the configuration's day map names the Weekday constant it maps to (three-letter prefix), and all seven days are present. R3 (calendar days): window boundaries are wall-clock times in the configured zone, so moving a boundary by whole days must use calendar arithmetic (AddDate / time.Date); no time.Add / Sub in the schedule code takes a duration that is a day count times 24h — on a day with a zone transition that is an hour off, and two instants of one window are reported as different sessions. R4 (one zone): every weekday / clock / date component read in a method of the schedule type is read from t.In(the range's location) or from a time.Date in that location. R5 (no dead arm): no block of those methods has a reach condition that demands incompatible orderings of the same two operands — an arm shadowed by a weakened earlier case never applies. R6: every comparison of the window's start and end time-of-day has the polarity start < end (or its complement), so equal times are a full cycle everywhere. R7: in an overnight window the membership test gets weekday−1 exactly under ts <= end and the plain weekday under start <= ts; a time.Date built from a time-of-day takes hour, minute and second from the same value.",
		NotDecided: "window semantics, IsInSameRange as a relation, time zones, daylight saving.",
		Rules: []RuleDef{
			{ID: "C18-R1", Desc: "weekday values stay in [0,6]", Min: 2, Run: c18R1},
			{ID: "C18-R2", Desc: "day-name table", Min: 7, Run: c18R2},
			{ID: "C18-R3", Desc: "whole days are added on the calendar, not as multiples of 24h", Min: 1, Run: c18R3},
			{ID: "C18-R4", Desc: "wall-clock components are read in the configured zone", Min: 6, Run: c18R4},
			{ID: "C18-R5", Desc: "no decision arm of the schedule code is dead by contradiction", Min: 10, Run: c18R5},
			{ID: "C18-R6", Desc: "start/end time comparisons have one polarity (start < end)", Min: 2, Run: c18R6},
			{ID: "C18-R12", Desc: "the same-window test of the creation time does not depend on the order of the instants", Min: 1, Run: c18R12},
			{ID: "C18-R11", Desc: "weekly day counts equal the distance to the next end day for every weekday pair", Min: 2, Run: c18R11},
			{ID: "C18-R10", Desc: "weekday membership does not depend on the order of the list", Min: 1, Run: c18R10},
			{ID: "C18-R9", Desc: "configured times of day are compared with the wall clock of the instant", Min: 4, Run: c18R9},
			{ID: "C18-R8", Desc: "weekly close on the end day depends on the end time", Min: 1, Run: c18R8},
			{ID: "C18-R7", Desc: "overnight weekday attribution; wall-clock from one time-of-day", Min: 3, Run: c18R7},
		},
	}
}

type ival struct{ lo, hi int64 }

func (a ival) String() string { return fmt.Sprintf("[%d,%d]", a.lo, a.hi) }

func isWeekday(t types.Type) bool {
	if p, ok := t.(*types.Pointer); ok {
		t = p.Elem()
	}
	n, ok := t.(*types.Named)
	return ok && n.Obj().Name() == "Weekday" && n.Obj().Pkg() != nil && n.Obj().Pkg().Path() == "time"
}

// weekdayInterval evaluates the interval of an integer/Weekday expression.
func (p *Prog) weekdayInterval(o *Org, depth int, busy map[string]bool) (ival, bool) {
	if o == nil || depth > 10 {
		return ival{}, false
	}
	join := func(a, b ival) ival {
		if b.lo < a.lo {
			a.lo = b.lo
		}
		if b.hi > a.hi {
			a.hi = b.hi
		}
		return a
	}
	switch o.Kind {
	case "const":
		if n, ok := o.ConstIntVal(); ok {
			return ival{n, n}, true
		}
	case "call":
		if o.IsCallTo("(time.Time).Weekday") {
			return ival{0, 6}, true
		}
		if o.Callee != nil && p.InModule(o.Callee) && o.Callee.Blocks != nil && o.Res == 0 {
			key := "ret:" + o.Callee.String()
			if busy[key] {
				return ival{0, 6}, true
			}
			busy[key] = true
			defer delete(busy, key)
			var acc ival
			first := true
			for _, b := range o.Callee.Blocks {
				if r, ok := b.Instrs[len(b.Instrs)-1].(*ssa.Return); ok && len(r.Results) > 0 {
					iv, ok := p.weekdayInterval(p.Origin(r.Results[0]), depth+1, busy)
					if !ok {
						return ival{}, false
					}
					if first {
						acc, first = iv, false
					} else {
						acc = join(acc, iv)
					}
				}
			}
			return acc, !first
		}
	case "param":
		fn := o.Fn
		exported := fn.Object() != nil && fn.Object().Exported()
		sites := p.StaticCallers(fn)
		if exported || len(sites) == 0 {
			if isWeekday(o.Val.Type()) {
				return ival{0, 6}, true // configuration contract: callers pass real weekdays (R2 checks the table they come from)
			}
			return ival{}, false
		}
		key := fmt.Sprintf("par:%s#%d", fn.String(), o.Param)
		if busy[key] {
			return ival{0, 6}, true
		}
		busy[key] = true
		defer delete(busy, key)
		var acc ival
		first := true
		for _, s := range sites {
			iv, ok := p.weekdayInterval(p.Origin(s.Common().Args[o.Param]), depth+1, busy)
			if !ok {
				return ival{}, false
			}
			if first {
				acc, first = iv, false
			} else {
				acc = join(acc, iv)
			}
		}
		return acc, !first
	case "field", "deref", "index", "next", "lookup":
		if o.Val != nil && isWeekday(o.Val.Type()) {
			return ival{0, 6}, true // stored weekdays: by the invariant this rule establishes at every store
		}
	case "phi":
		var acc ival
		first := true
		for _, a := range o.Alts {
			iv, ok := p.weekdayInterval(a, depth+1, busy)
			if !ok {
				return ival{}, false
			}
			if first {
				acc, first = iv, false
			} else {
				acc = join(acc, iv)
			}
		}
		return acc, !first
	case "binop":
		x, ok1 := p.weekdayInterval(o.X, depth+1, busy)
		y, ok2 := p.weekdayInterval(o.Y, depth+1, busy)
		if !ok1 || !ok2 {
			return ival{}, false
		}
		switch o.Op {
		case token.ADD:
			return ival{x.lo + y.lo, x.hi + y.hi}, true
		case token.SUB:
			return ival{x.lo - y.hi, x.hi - y.lo}, true
		case token.REM:
			if y.lo != y.hi || y.lo <= 0 {
				return ival{}, false
			}
			m := y.lo
			// Go: the result has the sign of the dividend
			lo, hi := int64(0), m-1
			if x.lo < 0 {
				lo = -(m - 1)
				if x.lo > lo {
					lo = x.lo
				}
			}
			if x.hi < 0 {
				hi = 0
			}
			if x.lo >= 0 && x.hi < m {
				lo, hi = x.lo, x.hi
			}
			if x.hi < hi && x.hi >= 0 {
				hi = x.hi
			}
			return ival{lo, hi}, true
		}
	}
	return ival{}, false
}

func c18R1(c *Ctx) {
	p := c.P
	pk := modPath + "/internal"
	report := func(fn *ssa.Function, in ssa.Instruction, what string, v ssa.Value) {
		o := p.Origin(v)
		iv, ok := p.weekdayInterval(o, 0, map[string]bool{})
		name := FuncName(fn)
		if !ok {
			c.Undecided(name, p.InstrPos(in), "weekday-expr:"+o.String(), "weekday expression not understood by the interval analysis: "+o.String())
			return
		}
		c.Check(iv.lo >= 0 && iv.hi <= 6, name, p.InstrPos(in), "weekday-range:"+what, what+" in "+iv.String(),
			fmt.Sprintf("%s is %s with interval %s: a value outside [0,6] equals no time.Weekday, so a window keyed by that day never matches (Go's %% keeps the sign of the dividend)", what, o.String(), iv.String()))
	}
	for _, fn := range p.FuncsIn(pk) {
		ForEachInstr(fn, func(in ssa.Instruction) {
			switch x := in.(type) {
			case *ssa.Return:
				for _, r := range x.Results {
					if isWeekday(r.Type()) {
						report(fn, in, "returned weekday", r)
					}
				}
			case ssa.CallInstruction:
				cc := x.Common()
				cal := cc.StaticCallee()
				if cal == nil || !p.InModule(cal) {
					return
				}
				for _, a := range cc.Args {
					if isWeekday(a.Type()) {
						if _, isPtr := a.Type().(*types.Pointer); isPtr {
							continue
						}
						// only computed values are interesting
						if o := p.Origin(a); o.Kind == "binop" || o.Kind == "call" && o.Callee != nil {
							report(fn, in, "weekday argument of "+FuncName(cal), a)
						}
					}
				}
			case *ssa.Store:
				if isWeekday(x.Val.Type()) {
					if _, isPtr := x.Val.Type().(*types.Pointer); !isPtr {
						if o := p.Origin(x.Val); o.Kind == "binop" {
							report(fn, in, "stored weekday", x.Val)
						}
					}
				}
			case *ssa.BinOp:
				switch x.Op {
				case token.EQL, token.NEQ, token.LSS, token.LEQ, token.GTR, token.GEQ:
					if isWeekday(x.X.Type()) && isWeekday(x.Y.Type()) {
						for _, v := range []ssa.Value{x.X, x.Y} {
							if o := p.Origin(v); o.Kind == "binop" || o.Kind == "call" && o.Callee != nil && p.InModule(o.Callee) {
								report(fn, in, "compared weekday", v)
							}
						}
					}
				}
			}
		})
	}
}

func c18R2(c *Ctx) {
	p := c.P
	// the day map: a package-level map[string]time.Weekday initialised by a literal
	names := []string{"sun", "mon", "tue", "wed", "thu", "fri", "sat"}
	seen := map[int64]int{}
	n := 0
	initFn := p.Root.Func("init")
	if initFn == nil {
		c.Undecided("", "-", "no-init", "package initialiser not found")
		return
	}
	ForEachInstr(initFn, func(in ssa.Instruction) {
		mu, ok := in.(*ssa.MapUpdate)
		if !ok {
			return
		}
		mt, ok := mu.Map.Type().Underlying().(*types.Map)
		if !ok || !isWeekday(mt.Elem()) {
			return
		}
		k, okK := p.Origin(mu.Key).ConstStringVal()
		v, okV := p.Origin(mu.Value).ConstIntVal()
		if !okK || !okV {
			c.Undecided("init", p.InstrPos(mu), "daymap-entry", "non-constant entry in the day-name table")
			return
		}
		n++
		good := v >= 0 && v <= 6 && len(k) >= 3 && strings.ToLower(k[:3]) == names[v]
		seen[v]++
		c.Check(good, "dayLookup", p.InstrPos(mu), "day:"+k, fmt.Sprintf("%q → weekday %d", k, v), fmt.Sprintf("day name %q maps to weekday %d (%s): a schedule configured for that day would apply to another", k, v, safeName(names, v)))
	})
	if n == 0 {
		c.Violation("", "-", "no-daymap", "no map[string]time.Weekday table found in the package initialiser")
		return
	}
	for d := int64(0); d < 7; d++ {
		if seen[d] == 0 {
			c.Violation("dayLookup", "-", fmt.Sprintf("missing-day-%d", d), "the day-name table has no entry for "+names[d])
		}
	}
}

func safeName(names []string, v int64) string {
	if v >= 0 && int(v) < len(names) {
		return names[v]
	}
	return "out of range"
}

// constFactor: product of the constant factors of a multiplication tree (1 if none).
func constFactor(o *Org, depth int) (int64, bool) {
	if o == nil || depth > 8 {
		return 1, false
	}
	if n, ok := o.ConstIntVal(); ok {
		return n, true
	}
	if (o.Kind == "unop" || o.Kind == "convert") && o.Base != nil {
		return constFactor(o.Base, depth+1)
	}
	if o.Kind == "binop" && o.Op == token.MUL {
		a, _ := constFactor(o.X, depth+1)
		b, _ := constFactor(o.Y, depth+1)
		return a * b, false
	}
	return 1, false
}

func c18R3(c *Ctx) {
	p := c.P
	const day = int64(86400) * 1000000000
	n := 0
	for _, fn := range p.FuncsIn(modPath + "/internal") {
		usesWindow := false
		for _, cl := range Calls(fn) {
			switch callName(cl.Common()) {
			case "time.Date", "(time.Time).AddDate", "(time.Time).Weekday":
				usesWindow = true
			}
		}
		if !usesWindow {
			continue
		}
		for _, cl := range Calls(fn) {
			nm := callName(cl.Common())
			if nm == "(time.Time).AddDate" || nm == "time.Date" {
				n++
				c.OK(FuncName(fn), p.InstrPos(cl.(ssa.Instruction)), "calendar arithmetic: "+nm)
				continue
			}
			if nm != "(time.Time).Add" {
				continue
			}
			n++
			ao := p.Origin(cl.Common().Args[1])
			f, isConst := constFactor(ao, 0)
			bad := f != 0 && f%day == 0 && !(isConst && f == 0)
			c.Check(!bad, FuncName(fn), p.InstrPos(cl.(ssa.Instruction)), "day-as-24h", "duration is not a multiple of 24h",
				"a boundary is moved by "+ao.String()+", a multiple of 24 hours of absolute time: across a daylight-saving change the wall-clock boundary ends up an hour off; whole days must be added on the calendar (AddDate)")
		}
	}
	if n == 0 {
		c.Violation("", "-", "no-day-arithmetic", "the schedule code does no calendar arithmetic (time.Date / AddDate not found)")
	}
}

type valueAlt struct {
	val  ssa.Value
	cond DNF
}

// valueAlternatives: the values v can take at a use in block use, each with the condition
// under which it is chosen (phi edges are followed; anything else is one alternative).
func (p *Prog) valueAlternatives(v ssa.Value, use *ssa.BasicBlock, depth int) []valueAlt {
	phi, ok := v.(*ssa.Phi)
	if !ok || depth > 3 {
		return []valueAlt{{v, p.ReachCond(use)}}
	}
	var out []valueAlt
	b := phi.Block()
	for i, e := range phi.Edges {
		pred := b.Preds[i]
		cond := dnfAnd(p.ReachCond(pred), edgeCond(p, pred, b))
		if inner, ok := e.(*ssa.Phi); ok && depth < 3 {
			for _, a := range p.valueAlternatives(inner, pred, depth+1) {
				out = append(out, valueAlt{a.val, dnfAnd(a.cond, cond)})
			}
			continue
		}
		out = append(out, valueAlt{e, cond})
	}
	return out
}

// C18-R4: wall-clock components are read in the configured zone. In the methods of the schedule
// type every (time.Time).Weekday / Clock / Date / Year / Month / Day / Hour … receiver is the
// result of t.In(<the range's location>) (or of time.Date in that location): the weekday and the
// time of day of one instant must come from the same zone.
// C18-R5: no arm of a decision in the schedule code is dead by contradiction: a block whose reach
// condition demands incompatible orderings of the same two operands (a <= b on the way in, then
// a == b excluded, …) can never run — the case the author wrote for it silently never applies.
func c18R4(c *Ctx) {
	p := c.P
	tr := p.Named(modPath+"/internal", "TimeRange")
	reads := map[string]bool{"(time.Time).Weekday": true, "(time.Time).Clock": true, "(time.Time).Date": true, "(time.Time).Year": true, "(time.Time).Month": true, "(time.Time).Day": true, "(time.Time).Hour": true, "(time.Time).Minute": true, "(time.Time).Second": true}
	n := 0
	for _, fn := range p.FuncsIn(modPath + "/internal") {
		rcv := fn.Signature.Recv()
		if rcv == nil || namedOf(rcv.Type()) != tr {
			continue
		}
		for _, cl := range Calls(fn) {
			if !reads[callName(cl.Common())] {
				continue
			}
			n++
			ro := p.Origin(cl.Common().Args[0])
			var inZone func(x *Org, depth int) bool
			inZone = func(x *Org, depth int) bool {
				if x.IsCallTo("(time.Time).In") && len(x.Args) == 1 {
					return x.Args[0].Kind == "field" || x.Args[0].Kind == "deref" || x.Args[0].Mentions(func(y *Org) bool { return y.Kind == "field" })
				}
				if x.IsCallTo("time.Date") {
					return true
				}
				// a parameter of an unexported helper: converted by every caller
				if x.Kind == "param" && x.Fn != nil && depth < 2 && x.Fn.Object() != nil && !x.Fn.Object().Exported() {
					sites := p.CallsTo(x.Fn)
					if len(sites) == 0 {
						return false
					}
					for _, cs := range sites {
						args := cs.Call.Common().Args
						if x.Param >= len(args) || !p.Origin(args[x.Param]).All(func(y *Org) bool { return inZone(y, depth+1) }) {
							return false
						}
					}
					return true
				}
				return false
			}
			ok := ro.All(func(x *Org) bool { return inZone(x, 0) })
			c.Check(ok, FuncName(fn), p.InstrPos(cl.(ssa.Instruction)), "clock-read-in-configured-zone", callName(cl.Common())+" of a time converted to the range's location",
				callName(cl.Common())+" is read from "+ro.String()+", which is not the instant converted to the schedule's configured location: the weekday (or time of day) is taken in whatever zone the caller's time value happens to carry, so the answer depends on the representation of the instant, not on the configured TimeZone")
		}
	}
	if n == 0 {
		c.Violation("", "-", "no-clock-reads", "the schedule type reads no wall-clock component")
	}
}

func c18R5(c *Ctx) {
	p := c.P
	n := 0
	for _, fn := range p.FuncsIn(modPath + "/internal") {
		rcv := fn.Signature.Recv()
		if rcv == nil || typeName(rcv.Type()) != "TimeRange" {
			continue
		}
		for _, b := range fn.Blocks {
			if len(b.Preds) == 0 && b != fn.Blocks[0] {
				continue
			}
			d := p.ReachCond(b)
			if len(d.Cs) == 0 {
				continue
			}
			n++
			dead := true
			why := ""
			for _, cj := range d.Cs {
				if w := contradiction(cj); w == "" {
					dead = false
				} else {
					why = w
				}
			}
			if dead {
				c.Violation(FuncName(fn), p.InstrPos(b.Instrs[0]), "dead-arm", "this arm can never run: its condition requires "+why+". The case written for it never applies, and the instants it was meant for fall into another arm (a window boundary is then computed from the wrong day offset)")
			} else {
				c.OK(FuncName(fn), p.InstrPos(b.Instrs[0]), "reachable")
			}
		}
	}
	if n == 0 {
		c.Violation("", "-", "no-schedule-blocks", "no schedule decisions found")
	}
}

// contradiction: two relational atoms of the conjunction over the same pair of operands whose
// admissible orderings do not intersect. Returns a description or "".
func contradiction(cj Conj) string {
	type key struct{ a, b string }
	const lt, eq, gt = 1, 2, 4
	allowed := map[key]int{}
	desc := map[key][]string{}
	for _, a := range cj {
		if a.Rel == "" || a.L == nil || a.R == nil {
			continue
		}
		ls, rs := a.L.String(), a.R.String()
		if strings.Contains(ls, "…") || strings.Contains(rs, "…") {
			continue // loop-carried values: different iterations
		}
		m := 0
		switch a.Rel {
		case "<":
			m = lt
		case "<=":
			m = lt | eq
		case "==":
			m = eq
		case "!=":
			m = lt | gt
		}
		k := key{ls, rs}
		if ls > rs {
			k = key{rs, ls}
			// flip
			f := 0
			if m&lt != 0 {
				f |= gt
			}
			if m&gt != 0 {
				f |= lt
			}
			if m&eq != 0 {
				f |= eq
			}
			m = f
		}
		if _, ok := allowed[k]; !ok {
			allowed[k] = lt | eq | gt
		}
		allowed[k] &= m
		desc[k] = append(desc[k], a.String())
		if allowed[k] == 0 {
			return strings.Join(desc[k], " and ")
		}
	}
	return ""
}
