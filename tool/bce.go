package main

// The compiler's own bounds-check-elimination report: which index/slice operations gc's
// prove pass could NOT show in range. Compiling is not running.

import (
	"bytes"
	"fmt"
	"go/ast"
	"go/token"
	"os/exec"
	"regexp"
	"sort"
	"strconv"
	"strings"

	"golang.org/x/tools/go/ssa"
)

type BCESite struct {
	File      string
	Line, Col int
	Kind      string // IsInBounds | IsSliceInBounds
}

var bceRe = regexp.MustCompile(`^(\S+?):(\d+):(\d+): Found (IsInBounds|IsSliceInBounds)`)

// RunBCE compiles the packages (relative patterns under repo) with the BCE debug flag.
// go build replays cached compiler diagnostics, so no private cache is needed.
func RunBCE(repo string, pkgs ...string) ([]BCESite, error) {
	var out []BCESite
	for _, pk := range pkgs {
		cmd := exec.Command("go", "build", "-gcflags=-d=ssa/check_bce/debug=1", pk)
		cmd.Dir = repo
		cmd.Env = env()
		var buf bytes.Buffer
		cmd.Stdout = &buf
		cmd.Stderr = &buf
		err := cmd.Run()
		sawHeader := false
		for _, l := range strings.Split(buf.String(), "\n") {
			if strings.HasPrefix(l, "# ") {
				sawHeader = true
				continue
			}
			m := bceRe.FindStringSubmatch(strings.TrimSpace(l))
			if m == nil {
				continue
			}
			ln, _ := strconv.Atoi(m[2])
			co, _ := strconv.Atoi(m[3])
			f := strings.TrimPrefix(m[1], "./")
			if pk != "." {
				f = strings.TrimPrefix(pk, "./") + "/" + f
			}
			out = append(out, BCESite{File: f, Line: ln, Col: co, Kind: m[4]})
		}
		if err != nil && !sawHeader {
			return nil, fmt.Errorf("go build %s: %v: %s", pk, err, firstLine(buf.String()))
		}
		if err != nil && len(out) == 0 {
			return nil, fmt.Errorf("go build %s failed: %s", pk, buf.String())
		}
	}
	sort.Slice(out, func(i, j int) bool {
		a, b := out[i], out[j]
		if a.File != b.File {
			return a.File < b.File
		}
		if a.Line != b.Line {
			return a.Line < b.Line
		}
		return a.Col < b.Col
	})
	return out, nil
}

// BoundsInstr: an SSA instruction that performs a bounds check.
type BoundsInstr struct {
	Fn   *ssa.Function
	In   ssa.Instruction
	Kind string // index | slice
	X    ssa.Value
	Idx  ssa.Value // index
	Low  ssa.Value
	High ssa.Value
	Max  ssa.Value
}

// boundsInstrsAt finds the SSA bounds-checked operations at file:line (any column) in module functions.
func (p *Prog) boundsIndex() map[string][]BoundsInstr {
	idx := map[string][]BoundsInstr{}
	add := func(fn *ssa.Function, in ssa.Instruction, bi BoundsInstr) {
		pos := in.Pos()
		if pos == token.NoPos {
			return
		}
		ps := p.Fset.Position(pos)
		f := strings.TrimPrefix(ps.Filename, p.RepoDir+"/")
		k := fmt.Sprintf("%s:%d", f, ps.Line)
		bi.Fn = fn
		bi.In = in
		idx[k] = append(idx[k], bi)
	}
	for _, fn := range p.Funcs {
		ForEachInstr(fn, func(in ssa.Instruction) {
			switch x := in.(type) {
			case *ssa.IndexAddr:
				add(fn, in, BoundsInstr{Kind: "index", X: x.X, Idx: x.Index})
			case *ssa.Index:
				add(fn, in, BoundsInstr{Kind: "index", X: x.X, Idx: x.Index})
			case *ssa.Slice:
				add(fn, in, BoundsInstr{Kind: "slice", X: x.X, Low: x.Low, High: x.High, Max: x.Max})
			}
		})
	}
	return idx
}

// colOf returns the column of an instruction's position.
func (p *Prog) colOf(in ssa.Instruction) int {
	return p.Fset.Position(in.Pos()).Column
}

// exprAt finds the innermost AST expression node starting at file:line:col.
func (p *Prog) exprKindAt(file string, line, col int) string {
	for _, pk := range p.Pkgs {
		for _, f := range pk.Syntax {
			ps := p.Fset.Position(f.Pos())
			if strings.TrimPrefix(ps.Filename, p.RepoDir+"/") != file {
				continue
			}
			kind := ""
			ast.Inspect(f, func(n ast.Node) bool {
				if n == nil {
					return false
				}
				np := p.Fset.Position(n.Pos())
				ne := p.Fset.Position(n.End())
				if np.Line > line || ne.Line < line {
					return false
				}
				switch x := n.(type) {
				case *ast.IndexExpr:
					if lp := p.Fset.Position(x.Lbrack); lp.Line == line && (lp.Column == col || np.Column == col) {
						kind = "index"
					}
				case *ast.SliceExpr:
					if lp := p.Fset.Position(x.Lbrack); lp.Line == line && (lp.Column == col || np.Column == col) {
						kind = "slice"
					}
				case *ast.CallExpr:
					if lp := p.Fset.Position(x.Lparen); lp.Line == line && (lp.Column == col || np.Column == col) && kind == "" {
						kind = "call"
					}
				}
				return true
			})
			return kind
		}
	}
	return ""
}
