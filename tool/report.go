package main

import (
	"encoding/json"
	"fmt"
	"os"
	"path/filepath"
	"runtime/debug"
	"sort"
	"strings"
	"time"
)

type Finding struct {
	Rule   string `json:"rule"`
	Kind   string `json:"kind"` // violated | undecided
	Key    string `json:"key"`  // rule|function|construct (no line numbers)
	Pos    string `json:"pos"`
	Func   string `json:"function,omitempty"`
	Msg    string `json:"message"`
	Detail any    `json:"detail,omitempty"`
	Known  bool   `json:"known,omitempty"`
}

type RuleResult struct {
	ID         string   `json:"id"`
	Desc       string   `json:"rule"`
	Instances  int      `json:"instances"`
	Discharged int      `json:"discharged"`
	Undecided  int      `json:"undecided"`
	Violated   int      `json:"violated"`
	Min        int      `json:"min_instances"`
	Samples    []string `json:"samples,omitempty"`
	Notes      []string `json:"notes,omitempty"`
}

type Ctx struct {
	P        *Prog
	Prop     string
	Tier     string
	rule     *RuleResult
	Rules    []*RuleResult
	Findings []Finding
	funcs    map[string]bool
	sites    int
	Notes    []string
	// Filter, when set, restricts a shared rule to the instances whose function name passes.
	Filter func(fn string) bool
}

func (c *Ctx) touchFn(name string) {
	if c.funcs == nil {
		c.funcs = map[string]bool{}
	}
	if name != "" {
		c.funcs[name] = true
	}
}

// OK records a discharged instance.
func (c *Ctx) OK(fn, pos, what string) {
	if c.Filter != nil && !c.Filter(fn) {
		return
	}
	c.rule.Instances++
	c.rule.Discharged++
	c.sites++
	c.touchFn(fn)
	if len(c.rule.Samples) < 6 {
		c.rule.Samples = append(c.rule.Samples, strings.TrimSpace(fmt.Sprintf("%s %s: %s", pos, fn, what)))
	}
}

func (c *Ctx) Violation(fn, pos, construct, msg string) {
	if c.Filter != nil && !c.Filter(fn) {
		return
	}
	c.rule.Instances++
	c.rule.Violated++
	c.sites++
	c.touchFn(fn)
	c.Findings = append(c.Findings, Finding{Rule: c.rule.ID, Kind: "violated", Key: c.rule.ID + "|" + fn + "|" + construct, Pos: pos, Func: fn, Msg: msg})
}

func (c *Ctx) Undecided(fn, pos, construct, msg string) {
	if c.Filter != nil && !c.Filter(fn) && fn != "" {
		return
	}
	c.rule.Instances++
	c.rule.Undecided++
	c.sites++
	c.touchFn(fn)
	c.Findings = append(c.Findings, Finding{Rule: c.rule.ID, Kind: "undecided", Key: c.rule.ID + "|" + fn + "|" + construct, Pos: pos, Func: fn, Msg: msg})
}

func (c *Ctx) Note(format string, a ...any) {
	s := fmt.Sprintf(format, a...)
	if c.rule != nil {
		c.rule.Notes = append(c.rule.Notes, s)
	} else {
		c.Notes = append(c.Notes, s)
	}
}

// Check is a convenience: cond true → OK, else Violation.
func (c *Ctx) Check(cond bool, fn, pos, construct, okMsg, badMsg string) bool {
	if cond {
		c.OK(fn, pos, okMsg)
	} else {
		c.Violation(fn, pos, construct, badMsg)
	}
	return cond
}

type RuleDef struct {
	ID   string
	Desc string
	Min  int
	Run  func(c *Ctx)
}

type Property struct {
	ID          string
	Explanation string   // what is decided, what is not
	NotDecided  string   // explicit residue
	Trusted     []string // trusted base
	Rules       []RuleDef
}

func (c *Ctx) RunRule(r RuleDef) {
	rr := &RuleResult{ID: r.ID, Desc: r.Desc, Min: r.Min}
	c.rule = rr
	c.Rules = append(c.Rules, rr)
	func() {
		defer func() {
			if e := recover(); e != nil {
				if ae, ok := e.(AnchorErr); ok {
					c.Undecided("", "-", "anchor:"+ae.What, ae.Error())
					return
				}
				c.Undecided("", "-", "panic", fmt.Sprintf("checker panic: %v\n%s", e, debug.Stack()))
			}
		}()
		r.Run(c)
	}()
	if rr.Instances < r.Min {
		c.Undecided("", "-", "min-instances", fmt.Sprintf("rule matched %d instances, expected at least %d: a rule that matches nothing must not pass", rr.Instances, r.Min))
	}
	c.rule = nil
}

// ---- known findings -------------------------------------------------------------

type KnownEntry struct {
	Property string `json:"property"`
	Status   string `json:"status"` // known | fixed
	Key      string `json:"key"`
	What     string `json:"what"`
	Commit   string `json:"commit,omitempty"`
}

func loadKnown(verifDir string) []KnownEntry {
	b, err := os.ReadFile(filepath.Join(verifDir, "known_findings.json"))
	if err != nil {
		return nil
	}
	var ks []KnownEntry
	if err := json.Unmarshal(b, &ks); err != nil {
		fmt.Fprintf(os.Stderr, "known_findings.json: %v\n", err)
		return nil
	}
	return ks
}

// ---- evidence ---------------------------------------------------------------------

func writeEvidence(verifDir string, prop Property, c *Ctx, tier string, seed int, wall float64, extra map[string]any) (violations int, out []string) {
	known := loadKnown(verifDir)
	replayDir := filepath.Join(verifDir, "evidence", "replay")
	os.MkdirAll(replayDir, 0o755)
	// clear stale replay files of this property
	if ms, _ := filepath.Glob(filepath.Join(replayDir, prop.ID+"-*.json")); ms != nil {
		for _, m := range ms {
			os.Remove(m)
		}
	}
	sort.SliceStable(c.Findings, func(i, j int) bool { return c.Findings[i].Key < c.Findings[j].Key })
	knownPrinted := map[string]bool{}
	n := 0
	for i := range c.Findings {
		f := &c.Findings[i]
		for _, k := range known {
			if k.Property == prop.ID && k.Status == "known" && k.Key == f.Key {
				f.Known = true
				if !knownPrinted[k.Key] {
					knownPrinted[k.Key] = true
					out = append(out, fmt.Sprintf("KNOWN-FINDING: property=%s %s (%s at %s)", prop.ID, k.What, f.Key, f.Pos))
				}
			}
		}
		if f.Known {
			continue
		}
		n++
		rp := filepath.Join(replayDir, fmt.Sprintf("%s-%d.json", prop.ID, n))
		b, _ := json.MarshalIndent(map[string]any{"property": prop.ID, "finding": f, "replay": "bin/qfsa explain " + rp}, "", " ")
		os.WriteFile(rp, b, 0o644)
		rel, _ := filepath.Rel(verifDir, rp)
		out = append(out, fmt.Sprintf("%s rule=%s at %s in %s: %s", strings.ToUpper(f.Kind), f.Rule, f.Pos, f.Func, firstLine(f.Msg)))
		out = append(out, fmt.Sprintf("VIOLATION property=%s replay=%s", prop.ID, rel))
	}
	violations = n

	obl, dis, und, vio := 0, 0, 0, 0
	var samples []any
	for _, r := range c.Rules {
		obl += r.Instances
		dis += r.Discharged
		und += r.Undecided
		vio += r.Violated
		for _, s := range r.Samples {
			if len(samples) < 24 {
				samples = append(samples, r.ID+": "+s)
			}
		}
	}
	if len(samples) == 0 {
		samples = append(samples, "no instances")
	}
	fnames := []string{}
	for k := range c.funcs {
		fnames = append(fnames, k)
	}
	sort.Strings(fnames)
	pkgs := []string{}
	for _, pk := range c.P.Pkgs {
		pkgs = append(pkgs, pk.PkgPath)
	}
	cov := map[string]any{
		"explanation":        prop.Explanation + laterRules(prop) + " NOT DECIDED: " + prop.NotDecided,
		"rules":              c.Rules,
		"obligations":        obl,
		"discharged":         dis,
		"undecided":          und,
		"violated":           vio,
		"samples":            samples,
		"functions_analysed": len(fnames),
		"functions":          fnames,
		"call_sites":         c.sites,
		"packages":           pkgs,
		"source_functions":   len(c.P.Funcs),
		"graph":              graphName(tier),
		"trusted_base":       append([]string{"go/types", "go/ssa (x/tools v0.29.0)", "static + VTA/CHA call graphs; no reflect/unsafe in module packages (asserted at load)"}, prop.Trusted...),
		"checker_cmd":        "bin/qfsa check " + prop.ID + " --tier " + tier,
		"findings":           c.Findings,
		"notes":              c.Notes,
		"exhaustive":         true,
		"timing":             map[string]float64{"load_s": c.P.LoadS, "ssa_s": c.P.SSAS, "graph_s": c.P.GraphS},
	}
	for k, v := range extra {
		cov[k] = v
	}
	ev := map[string]any{
		"property_id": prop.ID,
		"tier":        tier,
		"seed":        seed,
		"level":       "other",
		"coverage":    cov,
		"assumptions": append([]string{"only the structural necessary conditions named in coverage.rules are decided; the behavioural property as a whole is not"}, prop.Trusted...),
		"wall_s":      wall,
		"violations":  violations,
		"generated":   time.Now().UTC().Format(time.RFC3339),
	}
	b, _ := json.MarshalIndent(ev, "", " ")
	os.MkdirAll(filepath.Join(verifDir, "evidence"), 0o755)
	os.WriteFile(filepath.Join(verifDir, "evidence", prop.ID+".json"), b, 0o644)
	return
}

func graphName(tier string) string {
	if tier == "thorough" {
		return "static edges + VTA + CHA superset"
	}
	return "static edges + VTA"
}

func firstLine(s string) string {
	if i := strings.IndexByte(s, '\n'); i >= 0 {
		return s[:i]
	}
	return s
}

// laterRules: one clause for every rule of the property that the hand-written explanation does not
// name (rules added in later rounds), so that the evidence text always covers the whole rule set.
func laterRules(prop Property) string {
	var extra []string
	for _, r := range prop.Rules {
		short := r.ID
		if i := strings.LastIndex(short, "-"); i >= 0 {
			short = short[i+1:]
		}
		if strings.Contains(prop.Explanation, short+" ") || strings.Contains(prop.Explanation, short+":") || strings.Contains(prop.Explanation, short+"(") || strings.Contains(prop.Explanation, short+",") || strings.Contains(prop.Explanation, short+"/") || strings.Contains(prop.Explanation, short+")") {
			continue
		}
		extra = append(extra, short+": "+r.Desc)
	}
	if len(extra) == 0 {
		return ""
	}
	return " Further rules (DESIGN.md §8.2): " + strings.Join(extra, "; ") + "."
}
