package main

import (
	"fmt"
	"go/token"
	"go/types"
	"sort"
	"strings"

	"golang.org/x/tools/go/ssa"
)

func init() { register("C10", propC10) }

func propC10() Property {
	return Property{
		ID: "C10",
		Explanation: "FieldMap keeps two views of one set (tagSort.tags drives write(); the tagLookup map drives length()/total()). " +
			"R1 decides, for every function of the module that updates either view, that the other view is updated on the same paths (insert⇄append-if-absent, delete⇄removal, wholesale⇄wholesale). " +
			"R2: a field copied from one lookup table into another keeps its full length. R3: the tags excluded from BodyLength/CheckSum accumulation are exactly {8,9,10}/{10} in writer and parser. " +
			"R4: header/trailer ordering functions rank 8<9<35<rest and 10 last; builders cook then write Header, body, Trailer in that order. R5: cook binds BodyLength/CheckSum to the sums of the three sections. R6 (shared with C11): the header/trailer tag tables agree with the shipped specs, so what a builder writes into a section parses back into that section. R7: a setter that reuses an existing lookup entry cut to [:1] stores the cut entry back under the same key (an entry may be a whole repeating group; only the table's entry decides what is written). R8: the checksum/length helpers fold byte-typed elements of the slice (not runes of a string conversion); a setter that obtained an entry re-initialises it on every path before returning (no skip on \"unchanged value\" — the stored value may alias the caller's buffer). R9 (shared with C13): the group writer looks members up by the entry's own tag list (every field an entry holds is written), and a group setter stores the group on every path.",
		NotDecided: "numeric correctness of the formatted BodyLength/CheckSum digits, ParseMessage round-trip equality, value escaping.",
		Rules: []RuleDef{
			{ID: "C10-R1", Desc: "tags ⇄ tagLookup paired update in every writer", Min: 6, Run: c10R1},
			{ID: "C10-R2", Desc: "whole-field transfer between lookup tables", Min: 1, Run: c10R2},
			{ID: "C10-R3", Desc: "length/total exclusion sets", Min: 3, Run: c10R3},
			{ID: "C10-R4", Desc: "section ordering tables and builder write order", Min: 6, Run: c10R4},
			{ID: "C10-R5", Desc: "cook binds BodyLength and CheckSum to header+body+trailer", Min: 4, Run: c10R5},
			{ID: "C10-R6", Desc: "header/trailer tag tables agree with the shipped specs (= C11-R1): what is built parses back into the same section", Min: 9, Run: c11R1},
			{ID: "C10-R7", Desc: "re-initialising an existing entry truncates it in the table", Min: 1, Run: c10R7},
			{ID: "C10-R8", Desc: "byte sums fold bytes; setters always re-initialise the entry", Min: 2, Run: c10R8},
			{ID: "C10-R15", Desc: "a field is rendered with strconv's rendering of its whole tag", Min: 1, Run: c10R15},
			{ID: "C10-R14", Desc: "template ranks are looked up with the comma-ok form", Min: 2, Run: c10R14},
			{ID: "C10-R13", Desc: "entries created by the methods of the group carry the template order (= C13-R13)", Min: 2, Run: c13R13},
			{ID: "C10-R12", Desc: "parsing into a used message clears every section (= C11-R8)", Min: 4, Run: c11R8},
			{ID: "C10-R11", Desc: "a message copy copies every section", Min: 3, Run: c10R11},
			{ID: "C10-R10", Desc: "the parser splits a field at its first '=' (= C11-R6): a built value containing '=' parses back", Min: 4, Run: c11R6},
			{ID: "C10-R9", Desc: "the group writer writes every field an entry holds; a group is always stored (= C13-R11)", Min: 2, Run: c13R11},
		},
	}
}

// baseOfField: for an address/val whose origin is X.(…).f returns the string of X with
// embedded tagSort/FieldMap selectors dropped, so views of one FieldMap compare equal.
func fmBase(o *Org) string {
	for o != nil && o.Kind == "field" {
		n := cn(o.Field)
		if n == "tagLookup" || n == "tags" || n == "tagSort" || n == "FieldMap" {
			o = o.Base
			continue
		}
		break
	}
	if o != nil && o.Kind == "deref" {
		o = o.Base
	}
	return o.String()
}

type c10Append struct {
	st   *ssa.Store
	base string
	key  *Org
}

func c10R1(c *Ctx) {
	p := c.P
	fTagLookup := p.Field(modPath, "FieldMap", "tagLookup")
	fTags := p.Field(modPath, "tagSort", "tags")
	fRW := p.Field(modPath, "FieldMap", "rwLock")

	// exceptions by symbol, one line of reason each
	exempt := map[string]string{
		"(*RepeatingGroup).Read": "fills a fresh read-side Group from wire fields with an unconditional append; key and appended tag come from two expressions (tvRange[0].tag vs gi.Tag()) the rule cannot equate; wire-read groups are outside the operations C10 quantifies over",
	}

	type fnInfo struct {
		fn       *ssa.Function
		mus      []*ssa.MapUpdate
		dels     []ssa.CallInstruction
		tagSt    []*ssa.Store
		lookupSt []*ssa.Store
		rwSt     bool
	}
	infos := map[*ssa.Function]*fnInfo{}
	get := func(fn *ssa.Function) *fnInfo {
		if infos[fn] == nil {
			infos[fn] = &fnInfo{fn: fn}
		}
		return infos[fn]
	}
	for _, fn := range p.Funcs {
		ForEachInstr(fn, func(in ssa.Instruction) {
			switch x := in.(type) {
			case *ssa.MapUpdate:
				if isFieldOrg(p.Origin(x.Map), fTagLookup) {
					get(fn).mus = append(get(fn).mus, x)
				}
			case *ssa.Store:
				if fieldAddrOf(x.Addr, fTags) != nil {
					get(fn).tagSt = append(get(fn).tagSt, x)
				}
				if fieldAddrOf(x.Addr, fTagLookup) != nil {
					get(fn).lookupSt = append(get(fn).lookupSt, x)
				}
				if fieldAddrOf(x.Addr, fRW) != nil {
					get(fn).rwSt = true
				}
			case ssa.CallInstruction:
				if cc := builtinCallOf(in, "delete"); cc != nil {
					if isFieldOrg(p.Origin(cc.Args[0]), fTagLookup) {
						get(fn).dels = append(get(fn).dels, x)
					}
				}
			}
		})
	}
	var fns []*ssa.Function
	for fn := range infos {
		fns = append(fns, fn)
	}
	sort.Slice(fns, func(i, j int) bool { return fns[i].Pos() < fns[j].Pos() })

	for _, fn := range fns {
		inf := infos[fn]
		name := FuncName(fn)
		why, ok := exempt[name]
		if !ok && fn.Signature.Recv() != nil && typeName(fn.Signature.Recv().Type()) == "RepeatingGroup" {
			// helpers of the group reader (same receiver type) share its exemption
			why, ok = exempt["(*RepeatingGroup).Read"], true
		}
		if !ok && fn.Object() != nil && !fn.Object().Exported() {
			// an unexported helper every caller of which is a method of the group reader's type
			callers := p.CallsTo(fn)
			all := len(callers) > 0
			for _, cs := range callers {
				if r := cs.Fn.Signature.Recv(); r == nil || typeName(r.Type()) != "RepeatingGroup" {
					all = false
				}
			}
			if all {
				why, ok = exempt["(*RepeatingGroup).Read"], true
			}
		}
		if ok {
			c.Note("%s exempt: %s", name, why)
			continue
		}
		// classify tag stores
		var appends []c10Append
		type trunc struct {
			st   *ssa.Store
			base string
		}
		type removeAt struct {
			st   *ssa.Store
			base string
			idx  *Org
		}
		type fresh struct {
			st    *ssa.Store
			base  string
			other string
		}
		var truncs []trunc
		var removes []removeAt
		var freshes []fresh
		for _, st := range inf.tagSt {
			base := fmBase(p.Origin(st.Addr))
			if ai := asAppend(st.Val); ai != nil {
				bo := p.Origin(ai.Base)
				if len(ai.Elems) == 1 && isFieldOrg(bo, fTags) && fmBase(bo) == base {
					appends = append(appends, c10Append{st, base, p.Origin(ai.Elems[0])})
					continue
				}
				// removal idiom: append(tags[:i], tags[i+1:]...)
				if ai.Spread != nil && bo.Kind == "slice" && isFieldOrg(bo.Base, fTags) && bo.Y != nil {
					so := p.Origin(ai.Spread)
					if so.Kind == "slice" && isFieldOrg(so.Base, fTags) && so.X != nil && so.X.Kind == "binop" && so.X.Op == token.ADD &&
						so.X.X.String() == bo.Y.String() && so.X.Y.IsConstInt(1) && (bo.X == nil || bo.X.IsConstInt(0)) {
						removes = append(removes, removeAt{st, base, bo.Y})
						continue
					}
				}
			}
			vo := p.Origin(st.Val)
			if vo.Kind == "slice" && isFieldOrg(vo.Base, fTags) && fmBase(vo.Base) == base &&
				(vo.X == nil || vo.X.IsConstInt(0)) && vo.Y != nil && vo.Y.IsConstInt(0) {
				truncs = append(truncs, trunc{st, base})
				continue
			}
			if vo.Kind == "make" && vo.X != nil && vo.X.IsCallTo("len") && len(vo.X.Args) == 1 && isFieldOrg(vo.X.Args[0], fTags) {
				freshes = append(freshes, fresh{st, base, fmBase(vo.X.Args[0])})
				continue
			}
			c.Undecided(name, p.InstrPos(st), "tags-store:"+vo.String(), "store to FieldMap tags has a shape the rule does not classify: "+vo.String())
		}
		freshMap := map[string]*ssa.Store{}
		for _, st := range inf.lookupSt {
			base := fmBase(p.Origin(st.Addr))
			vo := p.Origin(st.Val)
			if vo.Kind == "make" {
				freshMap[base] = st
				continue
			}
			c.Undecided(name, p.InstrPos(st), "lookup-store:"+vo.String(), "wholesale store to tagLookup of unclassified value "+vo.String())
		}

		usedAppend := map[*ssa.Store]bool{}
		usedFresh := map[*ssa.Store]bool{}
		// map updates
		for _, mu := range inf.mus {
			base := fmBase(p.Origin(mu.Map))
			key := p.Origin(mu.Key)
			pos := p.InstrPos(mu)
			// copy-all form into a fresh map
			if freshMap[base] != nil && key.Kind == "next" && key.Res == 1 && key.Base.Kind == "range" && isFieldOrg(key.Base.Base, fTagLookup) {
				other := fmBase(key.Base.Base)
				ok := false
				for _, fr := range freshes {
					if fr.base == base && fr.other == other {
						// and the copy(base.tags, other.tags)
						for _, in := range Calls(fn) {
							if cc := builtinCallOf(in, "copy"); cc != nil {
								d, s := p.Origin(cc.Args[0]), p.Origin(cc.Args[1])
								if isFieldOrg(d, fTags) && fmBase(d) == base && isFieldOrg(s, fTags) && fmBase(s) == other && InstrDominates(fr.st, in) {
									ok = true
									usedFresh[fr.st] = true
								}
							}
						}
					}
				}
				c.Check(ok, name, pos, "copy-all:"+base, "copy-all into fresh map paired with tags = make(len(src.tags)); copy(tags, src.tags)",
					"every key of "+other+".tagLookup is inserted into fresh "+base+".tagLookup but "+base+".tags is not replaced by a full copy of "+other+".tags")
				continue
			}
			present := base + ".tagLookup{" + key.String() + "}#ok"
			reachM := p.ReachCond(mu.Block())
			matched := false
			var why []string
			for _, ap := range appends {
				if ap.base != base {
					continue
				}
				if ap.key.String() != key.String() {
					why = append(why, "append of a different key "+ap.key.String())
					continue
				}
				reachA := p.ReachCond(ap.st.Block())
				impliesAbsent := reachA.Implies(func(a *Atom) bool { return a.String() == "!"+present })
				if !impliesAbsent {
					why = append(why, "append at "+p.InstrPos(ap.st)+" is not guarded by absence of the key (reach "+reachA.String()+")")
					continue
				}
				if stripAtoms(reachA, present) != stripAtoms(reachM, present) {
					why = append(why, fmt.Sprintf("append at %s executes under %s but the insert under %s", p.InstrPos(ap.st), reachA, reachM))
					continue
				}
				matched = true
				usedAppend[ap.st] = true
			}
			c.Check(matched, name, pos, "insert:"+base+"["+key.String()+"]",
				"map insert paired with append-if-absent of the same key",
				"insert into "+base+".tagLookup["+key.String()+"] has no matching `tags = append(tags, key)` guarded by absence of the key on the same paths: "+strings.Join(why, "; ")+" — write() walks tags, length()/total() walk the map")
		}
		for _, ap := range appends {
			if !usedAppend[ap.st] {
				c.Violation(name, p.InstrPos(ap.st), "append:"+ap.base+"["+ap.key.String()+"]", "append to "+ap.base+".tags of key "+ap.key.String()+" is not paired with an insert of that key into tagLookup")
			}
		}
		// deletes
		usedTrunc := map[*ssa.Store]bool{}
		usedRemove := map[*ssa.Store]bool{}
		for _, d := range inf.dels {
			cc := d.Common()
			base := fmBase(p.Origin(cc.Args[0]))
			key := p.Origin(cc.Args[1])
			pos := p.InstrPos(d)
			if key.Kind == "next" && key.Res == 1 && key.Base.Kind == "range" && isFieldOrg(key.Base.Base, fTagLookup) && fmBase(key.Base.Base) == base {
				ok := false
				for _, t := range truncs {
					if t.base == base && p.ReachCond(t.st.Block()).String() == "true" {
						ok = true
						usedTrunc[t.st] = true
					}
				}
				c.Check(ok, name, pos, "delete-all:"+base, "delete-all loop paired with tags = tags[:0]", "all keys of "+base+".tagLookup are deleted but "+base+".tags is not truncated in the same function")
				continue
			}
			ok := false
			for _, r := range removes {
				if r.base != base {
					continue
				}
				// guard: tags[i] == key
				g := p.ReachCond(r.st.Block())
				if g.Implies(func(a *Atom) bool {
					if a.Rel != "==" {
						return false
					}
					for _, pr := range [][2]*Org{{a.L, a.R}, {a.R, a.L}} {
						if pr[0].String() == key.String() && (pr[1].Kind == "index" && isFieldOrg(pr[1].Base, fTags) || pr[1].Kind == "next" && pr[1].Res == 2 && isFieldOrg(pr[1].Base.Base, fTags)) {
							return true
						}
					}
					return false
				}) {
					usedRemove[r.st] = true
					// the position comes from a scan of the whole list (tags are kept in insertion
					// order between builds: a position found by an ordered search can miss the key)
					if !(isAscendingIndex(r.idx) || r.idx.Kind == "next") {
						c.Violation(name, p.InstrPos(r.st), "remove-scan:"+base, "the position of the key removed from "+base+".tags is "+r.idx.String()+", not the cursor of a scan over the whole list: tags are in insertion order until write() sorts them, so an ordered search can miss the key, the stale tag stays, and a later Set of the same tag emits the field twice")
						continue
					}
					ok = true
				}
			}
			c.Check(ok, name, pos, "delete:"+base+"["+key.String()+"]", "delete paired with removal of the key from tags",
				"delete("+base+".tagLookup, "+key.String()+") leaves the key in "+base+".tags: a later Set of the same tag appends it again and write() emits the field twice")
		}
		for _, t := range truncs {
			if !usedTrunc[t.st] {
				c.Violation(name, p.InstrPos(t.st), "truncate:"+t.base, t.base+".tags is truncated but the lookup map is not emptied in the same function")
			}
		}
		for _, r := range removes {
			if !usedRemove[r.st] {
				c.Violation(name, p.InstrPos(r.st), "remove:"+r.base, "a key is removed from "+r.base+".tags without the matching delete from tagLookup")
			}
		}
		for _, fr := range freshes {
			if !usedFresh[fr.st] {
				c.Violation(name, p.InstrPos(fr.st), "fresh-tags:"+fr.base, fr.base+".tags replaced wholesale without replacing tagLookup with the same keys")
			}
		}
		for base, st := range freshMap {
			if inf.rwSt {
				c.OK(name, p.InstrPos(st), "constructor role (also installs rwLock): fresh empty map; callers are Init/New* only (tabulated: re-Init of a used FieldMap is outside the C10 operation set)")
				continue
			}
			paired := false
			for _, fr := range freshes {
				if fr.base == base {
					paired = true
				}
			}
			c.Check(paired, name, p.InstrPos(st), "fresh-map:"+base, "fresh map paired with fresh tags", base+".tagLookup replaced wholesale but tags kept")
		}
	}
}

// stripAtoms renders d with the atom `present`/`!present` removed from every conjunct.
func stripAtoms(d DNF, present string) string {
	out := DNF{}
	for _, cj := range d.Cs {
		var n Conj
		for _, a := range cj {
			if a.String() == present || a.String() == "!"+present {
				continue
			}
			n = append(n, a)
		}
		out.Cs = append(out.Cs, n)
	}
	return dnfSimplify(out).String()
}

func c10R2(c *Ctx) {
	p := c.P
	fTagLookup := p.Field(modPath, "FieldMap", "tagLookup")
	fromLookup := func(o *Org) bool {
		// a field value read out of a tagLookup: range value or map lookup
		return o.Any(func(x *Org) bool {
			if x.Kind == "next" && x.Res == 2 && x.Base.Kind == "range" && isFieldOrg(x.Base.Base, fTagLookup) {
				return true
			}
			if x.Kind == "lookup" && x.Res == 0 && isFieldOrg(x.Base, fTagLookup) {
				return true
			}
			return false
		})
	}
	for _, mu := range p.MapUpdatesOn(fTagLookup) {
		fn := mu.Fn
		name := FuncName(fn)
		v := stripConv(mu.In.Value)
		vo := p.Origin(v)
		if fromLookup(vo) {
			c.OK(name, p.InstrPos(mu.In), "same slice transferred")
			continue
		}
		// storage reuse: append(existingEntry[:0], …) writes into the backing array of an entry
		// that, on a parsed message, is a window of the shared Message.fields array
		if ai := asAppend(v); ai != nil {
			bo := p.Origin(ai.Base)
			if bo.Kind == "slice" && fromLookup(bo.Base) || fromLookup(bo) {
				c.Violation(name, p.InstrPos(mu.In), "entry-storage-reuse", "a field is built by appending into the storage of an existing lookup entry ("+bo.String()+"): entries of a parsed message are windows of one shared field array, so the append overwrites the neighbouring fields' values")
				continue
			}
		}
		// fresh slice? find its backing: MakeSlice or Slice of Alloc(makeslice)
		var lenOrg *Org
		var constLen int64 = -1
		switch x := v.(type) {
		case *ssa.MakeSlice:
			lenOrg = p.Origin(x.Len)
		case *ssa.Slice:
			if al, ok := x.X.(*ssa.Alloc); ok && al.Comment == "makeslice" {
				if at, ok := al.Type().Underlying().(*types.Pointer).Elem().Underlying().(*types.Array); ok {
					constLen = at.Len()
				}
			} else {
				continue
			}
		default:
			continue
		}
		// does the function fill it from a lookup-table field?
		var src *Org
		ForEachInstr(fn, func(in ssa.Instruction) {
			if st, ok := in.(*ssa.Store); ok {
				if ia, ok := st.Addr.(*ssa.IndexAddr); ok && stripConv(ia.X) == v {
					so := p.Origin(st.Val)
					if so.Kind == "index" && fromLookup(so.Base) {
						src = so.Base
					}
				}
			}
			if cc := builtinCallOf(in, "copy"); cc != nil && stripConv(cc.Args[0]) == v {
				so := p.Origin(cc.Args[1])
				if fromLookup(so) {
					src = so
				}
			}
		})
		if src == nil {
			continue // fresh field not derived from another table (e.g. getOrCreate)
		}
		full := false
		if lenOrg != nil && lenOrg.IsCallTo("len") && len(lenOrg.Args) == 1 && lenOrg.Args[0].String() == src.String() {
			// needs copy(v, src)
			ForEachInstr(fn, func(in ssa.Instruction) {
				if cc := builtinCallOf(in, "copy"); cc != nil && stripConv(cc.Args[0]) == v && p.Origin(cc.Args[1]).String() == src.String() {
					full = true
				}
			})
		}
		what := "make(len(src)) + copy"
		if constLen >= 0 {
			what = fmt.Sprintf("make(field, %d)", constLen)
		}
		c.Check(full, name, p.InstrPos(mu.In), "transfer:"+src.String(),
			"field copied whole: "+what,
			"a field read from "+src.String()+" is re-stored as "+what+" holding only part of it: group members (elements 1..n of the field) are dropped, so the copy serialises without them")
	}
}

// excludedTags: constants c in dominating atoms `X.tag != c`.
func excludedTags(p *Prog, in ssa.Instruction) []int64 {
	d := p.ReachCond(in.Block())
	set := map[int64]bool{}
	for _, a := range d.Atoms() {
		if a.Rel != "!=" {
			continue
		}
		if a.L.Kind == "field" && cn(a.L.Field) == "tag" {
			if n, ok := a.R.ConstIntVal(); ok {
				// must hold in every conjunct
				if d.Implies(func(b *Atom) bool { return b.String() == a.String() }) {
					set[n] = true
				}
			}
		}
	}
	var out []int64
	for n := range set {
		out = append(out, n)
	}
	sort.Slice(out, func(i, j int) bool { return out[i] < out[j] })
	return out
}

func c10R3(c *Ctx) {
	p := c.P
	lenFn := p.Method(modPath, "TagValue", "length")
	totFn := p.Method(modPath, "TagValue", "total")
	want := map[*ssa.Function][]int64{lenFn: {8, 9, 10}, totFn: {10}}
	for _, target := range []*ssa.Function{lenFn, totFn} {
		for _, cs := range p.CallsTo(target) {
			got := excludedTags(p, cs.Call)
			ok := fmt.Sprint(got) == fmt.Sprint(want[target])
			c.Check(ok, FuncName(cs.Fn), p.InstrPos(cs.Call), "excl:"+target.Name(),
				fmt.Sprintf("%s() accumulated for all tags except %v", target.Name(), got),
				fmt.Sprintf("%s() is accumulated excluding tags %v, expected exactly %v (BodyLength counts everything after tag 9 up to tag 10; CheckSum sums everything but tag 10)", target.Name(), got, want[target]))
		}
	}
}

func c10R4(c *Ctx) {
	p := c.P
	t8, t9, t35, t10 := p.Tag("tagBeginString"), p.Tag("tagBodyLength"), p.Tag("tagMsgType"), p.Tag("tagCheckSum")
	initWO := p.Method(modPath, "FieldMap", "initWithOrdering")
	// which ordering does each section install?
	orderingOf := func(typ string) *ssa.Function {
		init := p.Method(modPath, typ, "Init")
		for _, cl := range Calls(init) {
			if cl.Common().StaticCallee() == initWO {
				o := p.Origin(cl.Common().Args[1])
				if o.Kind == "closure" {
					return o.Fn
				}
			}
		}
		return nil
	}
	hdr := orderingOf("Header")
	trl := orderingOf("Trailer")
	if hdr == nil || trl == nil {
		c.Undecided("", "-", "ordering-fn", "could not resolve the ordering function installed by Header.Init / Trailer.Init")
		return
	}
	// header: rank function = the closure called on both params
	var rank *ssa.Function
	for _, cl := range Calls(hdr) {
		if o := p.Origin(cl.Common().Value); o.Kind == "closure" && o.Fn.Parent() == hdr {
			rank = o.Fn
		}
	}
	if rank == nil {
		c.Undecided(FuncName(hdr), p.Pos(hdr.Pos()), "rank-fn", "header ordering has no rank helper of the known shape")
	} else {
		ranks := map[int64]int64{}
		var def int64 = -1
		haveDef := false
		for _, b := range rank.Blocks {
			r, ok := b.Instrs[len(b.Instrs)-1].(*ssa.Return)
			if !ok || len(r.Results) != 1 {
				continue
			}
			rv, isC := constIntOf(r.Results[0])
			if !isC {
				continue
			}
			d := p.ReachCond(b)
			keyed := false
			for _, a := range d.Atoms() {
				if a.Rel == "==" && a.L.Kind == "param" {
					if n, ok := a.R.ConstIntVal(); ok && d.Implies(func(x *Atom) bool { return x.String() == a.String() }) {
						ranks[n] = rv
						keyed = true
					}
				}
			}
			if !keyed {
				def = rv
				haveDef = true
			}
		}
		ok := haveDef && has64(ranks, t8) && has64(ranks, t9) && has64(ranks, t35) &&
			ranks[t8] < ranks[t9] && ranks[t9] < ranks[t35] && uint32(ranks[t35]) < uint32(def) && len(ranks) == 3
		c.Check(ok, FuncName(rank), p.Pos(rank.Pos()), "header-rank",
			fmt.Sprintf("header rank table %v default %d", ranks, def),
			fmt.Sprintf("header rank table is %v (default %d); required rank(8)<rank(9)<rank(35)<default and no other tag ranked", ranks, def))
		// comparator polarity: returns true under rank(i)<rank(j)
		for _, b := range hdr.Blocks {
			r, ok := b.Instrs[len(b.Instrs)-1].(*ssa.Return)
			if !ok {
				continue
			}
			bv, isB := p.Origin(r.Results[0]).ConstBoolVal()
			if !isB {
				continue
			}
			d := p.ReachCond(b)
			// the decisive atom: rank(param#0) < rank(param#1) (true) or rank(param#1) < rank(param#0) (false)
			lt := func(a, b int) func(*Atom) bool {
				return func(x *Atom) bool {
					return x.Rel == "<" && x.L.Kind == "call" && x.R.Kind == "call" && len(x.L.Args) == 1 && len(x.R.Args) == 1 &&
						x.L.Args[0].Kind == "param" && x.L.Args[0].Param == a && x.R.Args[0].Kind == "param" && x.R.Args[0].Param == b
				}
			}
			if bv {
				c.Check(d.Implies(lt(0, 1)), FuncName(hdr), p.InstrPos(r), "header-cmp-true", "returns true only under rank(i)<rank(j)", "header ordering returns true under "+d.String()+", not under rank(i)<rank(j)")
			} else {
				c.Check(d.Implies(lt(1, 0)), FuncName(hdr), p.InstrPos(r), "header-cmp-false", "returns false only under rank(j)<rank(i)", "header ordering returns false under "+d.String()+", not under rank(j)<rank(i)")
			}
		}
	}
	// trailer: false when i==10; true when j==10 (and i!=10)
	nT, nF := 0, 0
	for _, b := range trl.Blocks {
		r, ok := b.Instrs[len(b.Instrs)-1].(*ssa.Return)
		if !ok {
			continue
		}
		bv, isB := p.Origin(r.Results[0]).ConstBoolVal()
		if !isB {
			continue
		}
		d := p.ReachCond(b)
		eq := func(par int) func(*Atom) bool {
			return func(x *Atom) bool {
				return x.Rel == "==" && x.L.Kind == "param" && x.L.Param == par && x.R.IsConstInt(t10)
			}
		}
		if bv {
			nT++
			c.Check(d.Implies(eq(1)), FuncName(trl), p.InstrPos(r), "trailer-true", "true only when j is CheckSum", "trailer ordering returns true under "+d.String()+": CheckSum (10) would not be written last")
		} else {
			nF++
			c.Check(d.Implies(eq(0)), FuncName(trl), p.InstrPos(r), "trailer-false", "false when i is CheckSum", "trailer ordering returns false under "+d.String())
		}
	}
	if nT == 0 || nF == 0 {
		c.Undecided(FuncName(trl), p.Pos(trl.Pos()), "trailer-shape", "trailer ordering lacks the constant true/false returns keyed on CheckSum")
	}

	// builders: functions that call cook
	cook := p.cookFn()
	fmWrite := p.Method(modPath, "FieldMap", "write")
	for _, cs := range p.CallsTo(cook) {
		fn := cs.Fn
		name := FuncName(fn)
		// ordered section writes: FieldMap.write on Header, (Body | bytes.Buffer.Write(param)), Trailer
		var seq []string
		var instrs []ssa.Instruction
		for _, cl := range Calls(fn) {
			cc := cl.Common()
			if cc.StaticCallee() == fmWrite {
				ro := p.Origin(cc.Args[0])
				_, path := ro.FieldPath()
				sec := "?"
				for _, s := range path {
					if s == "Header" || s == "Body" || s == "Trailer" {
						sec = s
					}
				}
				seq = append(seq, sec)
				instrs = append(instrs, cl)
			} else if callName(cc) == "(*bytes.Buffer).Write" {
				if p.Origin(cc.Args[1]).Kind == "param" {
					seq = append(seq, "Body")
					instrs = append(instrs, cl)
				}
			}
		}
		ok := len(seq) == 3 && seq[0] == "Header" && seq[1] == "Body" && seq[2] == "Trailer"
		if ok {
			for i := 0; i+1 < len(instrs); i++ {
				if !InstrDominates(instrs[i], instrs[i+1]) {
					ok = false
				}
			}
			if !InstrDominates(cs.Call, instrs[0]) {
				ok = false
			}
		}
		c.Check(ok, name, p.InstrPos(cs.Call), "build-order", "cook, then Header, Body, Trailer written in order",
			fmt.Sprintf("builder writes sections %v (need cook first, then Header, Body, Trailer)", seq))
	}
}

func has64(m map[int64]int64, k int64) bool { _, ok := m[k]; return ok }

// sumTerms flattens an ADD tree into term strings.
func sumTerms(o *Org, out *[]string) {
	if o.Kind == "binop" && o.Op == token.ADD {
		sumTerms(o.X, out)
		sumTerms(o.Y, out)
		return
	}
	*out = append(*out, o.String())
}

func c10R5(c *Ctx) {
	p := c.P
	cook := p.cookFn()
	name := FuncName(cook)
	t9, t10 := p.Tag("tagBodyLength"), p.Tag("tagCheckSum")
	var lenSet, sumSet bool
	var fcs *ssa.Function
	for _, cl := range Calls(cook) {
		cc := cl.Common()
		switch callName(cc) {
		case "(*FieldMap).SetInt":
			if v, ok := constIntOf(cc.Args[1]); ok && v == t9 {
				_, path := p.Origin(cc.Args[0]).FieldPath()
				var terms []string
				sumTerms(p.Origin(cc.Args[2]), &terms)
				sort.Strings(terms)
				want := []string{"(FieldMap).length(recv=param#0.Header.FieldMap)", "(FieldMap).length(recv=param#0.Trailer.FieldMap)", "param#1"}
				ok := strings.Join(terms, "+") == strings.Join(want, "+") && contains(path, "Header")
				lenSet = true
				c.Check(ok, name, p.InstrPos(cl), "bodylength-binding", "BodyLength(9) in Header ← Header.length()+bodyLen+Trailer.length()",
					fmt.Sprintf("BodyLength is set from %v in %v; expected Header.length()+bodyLen+Trailer.length() in the Header", terms, path))
			}
		case "(*FieldMap).SetString":
			if v, ok := constIntOf(cc.Args[1]); ok && v == t10 {
				_, path := p.Origin(cc.Args[0]).FieldPath()
				vo := p.Origin(cc.Args[2])
				ok := false
				var terms []string
				if vo.Kind == "call" && vo.Callee != nil && p.InModule(vo.Callee) && len(vo.Args) == 1 {
					fcs = vo.Callee
					a := vo.Args[0]
					if a.Kind == "binop" && a.Op == token.REM && a.Y.IsConstInt(256) {
						sumTerms(a.X, &terms)
						sort.Strings(terms)
						want := []string{"(FieldMap).total(recv=param#0.Header.FieldMap)", "(FieldMap).total(recv=param#0.Trailer.FieldMap)", "param#2"}
						ok = strings.Join(terms, "+") == strings.Join(want, "+")
					}
				}
				sumSet = true
				c.Check(ok && contains(path, "Trailer"), name, p.InstrPos(cl), "checksum-binding", "CheckSum(10) in Trailer ← format((Header.total()+bodyTotal+Trailer.total()) % 256)",
					"CheckSum is set from "+vo.String()+"; expected formatCheckSum((Header.total()+bodyTotal+Trailer.total()) % 256) in the Trailer")
			}
		}
	}
	if !lenSet {
		c.Violation(name, p.Pos(cook.Pos()), "bodylength-missing", "cook does not set BodyLength (tag 9) through SetInt")
	}
	if !sumSet {
		c.Violation(name, p.Pos(cook.Pos()), "checksum-missing", "cook does not set CheckSum (tag 10) through SetString")
	}
	// formatCheckSum: zero padded width 3
	okFmt := false
	if fcs == nil {
		c.Violation(name, p.Pos(cook.Pos()), "checksum-formatter", "CheckSum is not produced by a formatting helper")
		return
	}
	for _, cl := range Calls(fcs) {
		if callName(cl.Common()) == "fmt.Sprintf" {
			if s, ok := p.Origin(cl.Common().Args[0]).ConstStringVal(); ok && s == "%03d" {
				okFmt = true
			}
		}
	}
	c.Check(okFmt, FuncName(fcs), p.Pos(fcs.Pos()), "checksum-format", "three zero-padded digits", "formatCheckSum does not format with %03d")
	// cook call arguments in the builders
	for _, cs := range p.CallsTo(cook) {
		cc := cs.Common()
		a1, a2 := p.Origin(cc.Args[1]), p.Origin(cc.Args[2])
		fname := FuncName(cs.Fn)
		switch {
		case a1.IsCallTo("(FieldMap).length"):
			ok := a2.IsCallTo("(FieldMap).total") && a1.Recv.String() == a2.Recv.String() && strings.Contains(a1.Recv.String(), ".Body.")
			c.Check(ok, fname, p.InstrPos(cs.Call), "cook-args-body", "cook(Body.length(), Body.total())", "cook is called with "+a1.String()+", "+a2.String()+"; expected Body.length(), Body.total()")
		case a1.IsCallTo("len"):
			ok := a2.IsCallTo("bytesTotal") && len(a1.Args) == 1 && len(a2.Args) == 1 && a1.Args[0].String() == a2.Args[0].String() && a1.Args[0].Kind == "param"
			// and the same slice is what gets written
			wrote := false
			for _, cl := range Calls(cs.Fn) {
				if callName(cl.Common()) == "(*bytes.Buffer).Write" && ok && p.Origin(cl.Common().Args[1]).String() == a1.Args[0].String() {
					wrote = true
				}
			}
			c.Check(ok && wrote, fname, p.InstrPos(cs.Call), "cook-args-bytes", "cook(len(b), bytesTotal(b)) and b written verbatim", "raw-body builder: length, byte sum and written bytes do not all derive from the same parameter ("+a1.String()+", "+a2.String()+")")
		default:
			c.Undecided(fname, p.InstrPos(cs.Call), "cook-args", "cook called with unclassified arguments "+a1.String()+", "+a2.String())
		}
	}
}

func contains(ss []string, s string) bool {
	for _, x := range ss {
		if x == s {
			return true
		}
	}
	return false
}

// C10-R7: replacing a field replaces the whole entry. A lookup entry can hold several wire
// fields (a repeating group is stored as one window). A setter that re-initialises element 0 of
// an existing entry must also cut the entry down to that one element IN THE TABLE — truncating a
// local copy of the slice header leaves the old group members behind the new value, and they are
// written out after it. Every value obtained by slicing a lookup entry to [:1] and then handed
// out for re-initialisation is stored back into the table under the same key.
func c10R7(c *Ctx) {
	p := c.P
	fTagLookup := p.Field(modPath, "FieldMap", "tagLookup")
	n := 0
	for _, fn := range p.FuncsIn(modPath) {
		ForEachInstr(fn, func(in ssa.Instruction) {
			sl, ok := in.(*ssa.Slice)
			if !ok || sl.High == nil {
				return
			}
			if k, isC := constIntOf(sl.High); !isC || k != 1 {
				return
			}
			xo := p.Origin(sl.X)
			if xo.Kind != "lookup" || !isFieldOrg(xo.Base, fTagLookup) {
				return
			}
			n++
			// stored back under the same key
			back := false
			ForEachInstr(fn, func(in2 ssa.Instruction) {
				if mu, ok := in2.(*ssa.MapUpdate); ok && isFieldOrg(p.Origin(mu.Map), fTagLookup) && stripConv(mu.Value) == ssa.Value(sl) && p.Origin(mu.Key).String() == xo.Y.String() && InstrDominates(sl, mu) {
					back = true
				}
			})
			// read-only uses (the slice is only read, e.g. indexed for a getter) need no write-back
			escapes := false
			var walk func(v ssa.Value, depth int)
			walk = func(v ssa.Value, depth int) {
				if depth > 3 {
					return
				}
				for _, ref := range *v.Referrers() {
					switch x := ref.(type) {
					case *ssa.Return:
						escapes = true
					case ssa.CallInstruction:
						escapes = true
					case *ssa.Phi:
						walk(x, depth+1)
					case *ssa.ChangeType:
						walk(x, depth+1)
					case *ssa.Store:
						escapes = true
					}
				}
			}
			walk(sl, 0)
			if !escapes {
				c.OK(FuncName(fn), p.InstrPos(sl), "entry[:1] only read")
				return
			}
			c.Check(back, FuncName(fn), p.InstrPos(sl), "entry-truncated-in-table", "the truncated entry is stored back into the lookup table",
				"an existing lookup entry is cut to its first element only in a local copy ("+xo.String()+"[:1]) that is then handed out for re-initialisation; the table keeps the full entry, so when a repeating group is replaced by a plain value the group's members stay behind it and are written after the new value")
		})
	}
	if n == 0 {
		c.Violation("", "-", "no-entry-reuse", "no setter reuses an existing lookup entry")
	}
}
