package main

// Guards: the condition under which a block executes, as a DNF over atoms whose
// operands are Origin descriptors.

import (
	"fmt"
	"go/token"
	"sort"
	"strings"

	"golang.org/x/tools/go/ssa"
)

// Atom is a normalised condition. Relational atoms use only <, <=, ==, != (operands
// swapped as needed); boolean atoms record a boolean-valued origin and its required value.
type Atom struct {
	Rel  string // "<" "<=" "==" "!=" or "" for boolean atoms
	L, R *Org
	B    *Org // boolean atom
	Val  bool
	Cond ssa.Value // the SSA condition this atom came from
	Want bool      // the truth value required of Cond
	str  string
	id   string
}

// ID identifies the evaluation: two comparisons with the same descriptor but evaluated by
// different SSA instructions (e.g. two loads of one variable) are different propositions.
func (a *Atom) ID() string {
	if a.id == "" {
		if a.Cond != nil {
			a.id = fmt.Sprintf("%p:%t", a.Cond, a.Want)
		} else {
			a.id = "d:" + a.String()
		}
	}
	return a.id
}

func (a *Atom) negID() string {
	if a.Cond != nil {
		return fmt.Sprintf("%p:%t", a.Cond, !a.Want)
	}
	return "d:" + a.negKey()
}

func (a *Atom) String() string {
	if a.str != "" {
		return a.str
	}
	if a.Rel != "" {
		a.str = a.L.String() + " " + a.Rel + " " + a.R.String()
	} else if a.Val {
		a.str = a.B.String()
	} else {
		a.str = "!" + a.B.String()
	}
	return a.str
}

func (a *Atom) negKey() string {
	// string of the negated atom
	if a.Rel != "" {
		switch a.Rel {
		case "<":
			return a.R.String() + " <= " + a.L.String()
		case "<=":
			return a.R.String() + " < " + a.L.String()
		case "==":
			return a.L.String() + " != " + a.R.String()
		case "!=":
			return a.L.String() + " == " + a.R.String()
		}
	}
	if a.Val {
		return "!" + a.B.String()
	}
	return a.B.String()
}

type Conj []*Atom

func (c Conj) key() string {
	ss := make([]string, len(c))
	for i, a := range c {
		ss[i] = a.String()
	}
	sort.Strings(ss)
	return strings.Join(ss, " && ")
}

func (c Conj) idKey() string {
	ss := make([]string, len(c))
	for i, a := range c {
		ss[i] = a.ID()
	}
	sort.Strings(ss)
	return strings.Join(ss, "&")
}

func (c Conj) has(id string) bool {
	for _, a := range c {
		if a.ID() == id {
			return true
		}
	}
	return false
}

// DNF: disjunction of conjunctions. A DNF with one empty Conj is True; an empty DNF is False.
type DNF struct {
	Cs       []Conj
	Overflow bool
	// Extra: further factors; the condition is (Cs) ∧ Extra[0] ∧ Extra[1] ∧ … . Used when
	// multiplying out would exceed maxConj. Reach conditions are necessary conditions, so
	// dropping a factor is always sound (it only weakens what can be concluded).
	Extra []DNF
}

func dnfTrue() DNF  { return DNF{Cs: []Conj{{}}} }
func dnfFalse() DNF { return DNF{} }

func (d DNF) String() string {
	if len(d.Extra) > 0 {
		parts := []string{DNF{Cs: d.Cs, Overflow: d.Overflow}.String()}
		for _, e := range d.Extra {
			parts = append(parts, e.String())
		}
		return "(" + strings.Join(parts, ") && (") + ")"
	}
	if d.Overflow {
		return "<overflow>"
	}
	if len(d.Cs) == 0 {
		return "false"
	}
	var parts []string
	for _, c := range d.Cs {
		if len(c) == 0 {
			return "true"
		}
		parts = append(parts, "{"+c.key()+"}")
	}
	sort.Strings(parts)
	return strings.Join(parts, " || ")
}

const maxConj = 64

func dnfAnd(a, b DNF) DNF {
	if len(a.Extra) > 0 || len(b.Extra) > 0 || len(a.Cs)*len(b.Cs) > maxConj {
		// keep factored
		base := DNF{Cs: a.Cs, Overflow: a.Overflow}
		var extra []DNF
		extra = append(extra, a.Extra...)
		bb := DNF{Cs: b.Cs, Overflow: b.Overflow}
		if len(base.Cs)*len(bb.Cs) <= maxConj && !base.Overflow && !bb.Overflow {
			base = dnfAnd(base, bb)
		} else if !(len(bb.Cs) == 1 && len(bb.Cs[0]) == 0) {
			extra = append(extra, bb)
		}
		extra = append(extra, b.Extra...)
		base.Extra = extra
		return base
	}
	if a.Overflow || b.Overflow {
		return DNF{Overflow: true}
	}
	out := DNF{}
	for _, x := range a.Cs {
		for _, y := range b.Cs {
			m := Conj{}
			seen := map[string]bool{}
			contra := false
			for _, at := range append(append(Conj{}, x...), y...) {
				k := at.ID()
				if seen[k] {
					continue
				}
				seen[k] = true
				m = append(m, at)
			}
			for _, at := range m {
				if seen[at.negID()] {
					contra = true
				}
			}
			if !contra {
				out.Cs = append(out.Cs, m)
			}
		}
	}
	return dnfSimplify(out)
}

func dnfOr(a, b DNF) DNF {
	// factors are dropped (sound weakening): (A ∧ E) ∨ B ⇒ A ∨ B
	a.Extra, b.Extra = nil, nil
	if a.Overflow || b.Overflow {
		return DNF{Overflow: true}
	}
	return dnfSimplify(DNF{Cs: append(append([]Conj{}, a.Cs...), b.Cs...)})
}

func dnfSimplify(d DNF) DNF {
	changed := true
	for changed {
		changed = false
		// dedupe
		seen := map[string]bool{}
		var cs []Conj
		for _, c := range d.Cs {
			k := c.idKey()
			if !seen[k] {
				seen[k] = true
				cs = append(cs, c)
			}
		}
		d.Cs = cs
		// absorption: drop supersets
		var keep []Conj
		for i, c := range d.Cs {
			absorbed := false
			for j, o := range d.Cs {
				if i == j || len(o) >= len(c) {
					continue
				}
				sub := true
				for _, a := range o {
					if !c.has(a.ID()) {
						sub = false
						break
					}
				}
				if sub {
					absorbed = true
					break
				}
			}
			if !absorbed {
				keep = append(keep, c)
			}
		}
		if len(keep) != len(d.Cs) {
			changed = true
		}
		d.Cs = keep
		// resolution: (A ∧ x) ∨ (A ∧ ¬x) = A
	outer:
		for i := 0; i < len(d.Cs); i++ {
			for j := i + 1; j < len(d.Cs); j++ {
				a, b := d.Cs[i], d.Cs[j]
				if len(a) != len(b) {
					continue
				}
				var diffA *Atom
				nd := 0
				for _, x := range a {
					if !b.has(x.ID()) {
						nd++
						diffA = x
					}
				}
				if nd == 1 && b.has(diffA.negID()) {
					m := Conj{}
					for _, x := range a {
						if x != diffA {
							m = append(m, x)
						}
					}
					d.Cs[i] = m
					d.Cs = append(d.Cs[:j], d.Cs[j+1:]...)
					changed = true
					break outer
				}
			}
		}
	}
	if len(d.Cs) > maxConj {
		return DNF{Overflow: true, Extra: d.Extra}
	}
	return d
}

// Implies: every conjunct contains an atom satisfying pred (so pred's atom holds whenever d holds).
func (d DNF) Implies(pred func(*Atom) bool) bool {
	for _, e := range d.Extra {
		if e.Implies(pred) {
			return true
		}
	}
	if d.Overflow || len(d.Cs) == 0 {
		return false
	}
	for _, c := range d.Cs {
		ok := false
		for _, a := range c {
			if pred(a) {
				ok = true
				break
			}
		}
		if !ok {
			return false
		}
	}
	return true
}

// Atoms returns all atoms occurring in d.
func (d DNF) Atoms() []*Atom {
	var out []*Atom
	seen := map[string]bool{}
	for _, e := range d.Extra {
		for _, a := range e.Atoms() {
			if !seen[a.String()] {
				seen[a.String()] = true
				out = append(out, a)
			}
		}
	}
	for _, c := range d.Cs {
		for _, a := range c {
			if !seen[a.String()] {
				seen[a.String()] = true
				out = append(out, a)
			}
		}
	}
	return out
}

// ---- atom construction -----------------------------------------------------------

// CondAtoms converts the SSA condition v (required to be `want`) into a DNF.
// Short-circuit operators are already control flow in SSA, so v is a comparison, a
// boolean call result, a negation, a phi of booleans, or a boolean load.
func (p *Prog) CondAtoms(v ssa.Value, want bool) DNF {
	return p.condAtoms(v, want, 0)
}

func (p *Prog) condAtoms(v ssa.Value, want bool, depth int) DNF {
	switch x := v.(type) {
	case *ssa.UnOp:
		if x.Op == token.NOT {
			return p.condAtoms(x.X, !want, depth+1)
		}
	case *ssa.Const:
		if b, ok := p.Origin(x).ConstBoolVal(); ok {
			if b == want {
				return dnfTrue()
			}
			return dnfFalse()
		}
	case *ssa.BinOp:
		op := x.Op
		var rel string
		L, R := x.X, x.Y
		switch op {
		case token.LSS:
			rel = "<"
		case token.LEQ:
			rel = "<="
		case token.GTR:
			rel, L, R = "<", R, L
		case token.GEQ:
			rel, L, R = "<=", R, L
		case token.EQL:
			rel = "=="
		case token.NEQ:
			rel = "!="
		}
		if rel != "" {
			if !want {
				switch rel {
				case "<":
					rel, L, R = "<=", R, L
				case "<=":
					rel, L, R = "<", R, L
				case "==":
					rel = "!="
				case "!=":
					rel = "=="
				}
			}
			lo, ro := p.Origin(L), p.Origin(R)
			if rel == "==" || rel == "!=" {
				// canonical operand order: constants right, otherwise by string
				if lo.Kind == "const" && ro.Kind != "const" || (lo.Kind != "const") == (ro.Kind != "const") && lo.String() > ro.String() {
					lo, ro = ro, lo
				}
				// boolean comparison against a constant is a boolean atom
				if b, ok := ro.ConstBoolVal(); ok {
					w := b
					if rel == "!=" {
						w = !b
					}
					if lv := lo.Val; lv != nil {
						return p.condAtoms(lv, w, depth+1)
					}
				}
			}
			return DNF{Cs: []Conj{{&Atom{Rel: rel, L: lo, R: ro, Cond: v, Want: want}}}}
		}
	case *ssa.Phi:
		// boolean phi: expand one level over incoming edges (value ∧ edge reach condition
		// relative to the phi block's dominator is handled by the caller for If-phi shapes;
		// here: disjunction over edges of value's own atoms).
		if depth < 3 && !condBusy[x] {
			condBusy[x] = true
			defer delete(condBusy, x)
			out := dnfFalse()
			opaque := false
			for i, e := range x.Edges {
				pred := x.Block().Preds[i]
				if x.Block().Dominates(pred) {
					// back edge: the value belongs to the previous iteration; conditions on that
					// path speak about earlier dynamic instances of the same SSA values and must
					// not be mixed with the current ones. Constants contribute without a path
					// condition (weakening); anything else makes the phi opaque.
					if b, ok := p.Origin(e).ConstBoolVal(); ok {
						if b == want {
							out = dnfOr(out, dnfTrue())
						}
						continue
					}
					opaque = true
					break
				}
				d := p.condAtoms(e, want, depth+1)
				d = dnfAnd(d, p.ReachCondRel(x.Block().Idom(), pred, x.Block()))
				out = dnfOr(out, d)
			}
			if opaque {
				break
			}
			return out
		}
	}
	o := p.Origin(v)
	return DNF{Cs: []Conj{{&Atom{B: o, Val: want, Cond: v, Want: want}}}}
}

var condBusy = map[ssa.Value]bool{}

// ---- reach conditions ------------------------------------------------------------

type reachKey struct{ d, b *ssa.BasicBlock }

var reachMemo = map[reachKey]DNF{}
var reachBusy = map[reachKey]bool{}

func edgeCond(p *Prog, from, to *ssa.BasicBlock) DNF {
	if len(from.Instrs) == 0 {
		return dnfTrue()
	}
	ifi, ok := from.Instrs[len(from.Instrs)-1].(*ssa.If)
	if !ok {
		return dnfTrue()
	}
	if from.Succs[0] == to && from.Succs[1] == to {
		return dnfTrue()
	}
	if from.Succs[0] == to {
		return p.CondAtoms(ifi.Cond, true)
	}
	return p.CondAtoms(ifi.Cond, false)
}

// relCond: condition for control to get from d (a dominator of b) to the start of b,
// ignoring back edges.
func (p *Prog) relCond(d, b *ssa.BasicBlock) DNF {
	if d == b {
		return dnfTrue()
	}
	k := reachKey{d, b}
	if r, ok := reachMemo[k]; ok {
		return r
	}
	if reachBusy[k] {
		return dnfFalse()
	}
	reachBusy[k] = true
	res := dnfFalse()
	for _, pr := range b.Preds {
		if b.Dominates(pr) {
			continue // back edge
		}
		if !d.Dominates(pr) {
			continue
		}
		c := dnfAnd(p.relCond(d, pr), edgeCond(p, pr, b))
		res = dnfOr(res, c)
	}
	delete(reachBusy, k)
	reachMemo[k] = res
	return res
}

// ReachCondRel: condition to go from dominator d to block `to` through its predecessor `via`.
func (p *Prog) ReachCondRel(d, via, to *ssa.BasicBlock) DNF {
	if d == nil || !d.Dominates(via) {
		return dnfTrue()
	}
	return dnfAnd(p.relCond(d, via), edgeCond(p, via, to))
}

// ReachCond: the condition (from function entry) under which block b executes.
func (p *Prog) ReachCond(b *ssa.BasicBlock) DNF {
	entry := b.Parent().Blocks[0]
	if b == entry {
		return dnfTrue()
	}
	// compose along the dominator chain: keeps DNFs small
	var chain []*ssa.BasicBlock
	for x := b; x != nil; x = x.Idom() {
		chain = append(chain, x)
	}
	res := dnfTrue()
	for i := len(chain) - 1; i > 0; i-- {
		res = dnfAnd(res, p.relCond(chain[i], chain[i-1]))
	}
	return res
}

// Guards is the reach condition of the instruction's block.
func (p *Prog) Guards(in ssa.Instruction) DNF { return p.ReachCond(in.Block()) }

// Sig: name-free rendering for ledger keys.
func (a *Atom) Sig() string {
	if a.Rel != "" {
		return a.L.Sig() + " " + a.Rel + " " + a.R.Sig()
	}
	if a.Val {
		return a.B.Sig()
	}
	return "!" + a.B.Sig()
}
