package main

import (
	"fmt"
	"go/ast"
	"go/constant"
	"go/token"
	"go/types"
	"sort"
	"strings"

	"golang.org/x/tools/go/ssa"
)

func init() { register("C15", propC15) }

func propC15() Property {
	return Property{
		ID: "C15",
		Explanation: "R1 (pipeline agreement): the FIX and the FIXT validation pipelines call the same ordered list of validation rules, each under the same kind of guard (dictionary present / RejectInvalidMessage), each error returned before the next rule runs; every validate* rule that takes a dictionary is reachable from both Validator implementations (no orphan rule). " +
			"R2 (reason constants vs specs): every session-level rejectReason constant used by a session reject constructor has the value the shipped specs give to the SessionRejectReason(373) enumerator of that name; business-level ones are matched against BusinessRejectReason(380) (one tabulated exception whose value the existing test suite pins). " +
			"R3 (field-type switch): the switch on the dictionary's field type covers every type used by a shipped spec, and each arm instantiates the value class the FIX datatype table assigns (INT-like → int, FLOAT-like → float, BOOLEAN → bool, UTCTIMESTAMP/TIME → timestamp, the rest string-like). " +
			"R4 (subject agreement): the tag a validation reject names shares its source with the operand of the guard that triggered it; the constructors put their reason constant and the tag into the error. R5 (no bypass): a check a validation function makes outside its loops (after the walk: group count, leftover fields, required fields) dominates every success return of that function; an earlier success exit is accepted only when its condition tests a boolean setting (a configured relaxation). R6 (duplicates): in the walk whose reject is guarded by a lookup in a set of seen tags, that set is filled with the same key on every path to the loop's back edge, after the lookup — every iterated field is recorded, tolerated-undefined ones included. R7 (relaxations are independent): an early success exit taken because settings are relaxed implies, for every reject site of the function that a setting enables, that this very setting is off. R8: a tag is compared with the user-defined boundary constant 5000 only as tag < 5000 / tag >= 5000; a required-tag-missing reject takes its tag from the definition, never from a field of the message being validated. R9: all validator-constructor calls of the session factory pass the one settings value the function fills from the configuration. R10 (shared with C14): float-typed values are checked against the digit/'.'/'-' whitelist.",
		NotDecided: "acceptance of all conforming messages of ~900 definitions; that the single-defect mutation of each kind is answered with the exact (reason, tag) pair; group validation logic.",
		Rules: []RuleDef{
			{ID: "C15-R1", Desc: "FIX / FIXT pipelines agree; no orphan rule", Min: 6, Run: c15R1},
			{ID: "C15-R2", Desc: "reject reason constants agree with the specs' enumerations", Min: 10, Run: c15R2},
			{ID: "C15-R3", Desc: "field-type switch exhaustive and classified", Min: 30, Run: c15R3},
			{ID: "C15-R4", Desc: "reject names the field its guard tested", Min: 6, Run: c15R4},
			{ID: "C15-R5", Desc: "no success exit bypasses an end-of-walk check", Min: 2, Run: c15R5},
			{ID: "C15-R6", Desc: "duplicate bookkeeping covers every iterated field", Min: 3, Run: c15R6},
			{ID: "C15-R7", Desc: "a relaxation switches off only its own check", Min: 2, Run: c15R7},
			{ID: "C15-R8", Desc: "user-defined boundary is tag < 5000; a missing-field reject names a tag from the definition", Min: 3, Run: c15R8},
			{ID: "C15-R9", Desc: "every validator is built with the configured settings", Min: 2, Run: c15R9},
			{ID: "C15-R17", Desc: "boolean literals accepted = literals produced (= C14-R2)", Min: 2, Run: c14R2},
			{ID: "C15-R16", Desc: "the built-in header/trailer tables agree with the shipped specs (= C11-R1)", Min: 9, Run: c11R1},
			{ID: "C15-R15", Desc: "validation ranges over exactly the fields the parser extracted (= C11-R12)", Min: 1, Run: c11R12},
			{ID: "C15-R14", Desc: "the section-order tracker, read as an automaton, accepts exactly header* body* trailer*", Min: 1, Run: c15R14},
			{ID: "C15-R13", Desc: "the group sub-parser files every field it extracted (= C13-R5): validation sees what is on the wire", Min: 6, Run: c13R5},
			{ID: "C15-R12", Desc: "the duplicate-tag set is allocated by the walk that uses it", Min: 1, Run: c15R12},
			{ID: "C15-R11", Desc: "an enumerated field is looked up with its whole value", Min: 1, Run: c15R11},
			{ID: "C15-R10", Desc: "float values: digits, '.', '-' only (= C14-R4)", Min: 3, Run: c14R4},
		},
	}
}

type pipeStep struct {
	callee *ssa.Function
	call   ssa.CallInstruction
	guards []string
}

func pipelineOf(p *Prog, fn *ssa.Function) []pipeStep {
	var steps []pipeStep
	for _, cl := range Calls(fn) {
		cal := cl.Common().StaticCallee()
		if cal == nil || !p.InModule(cal) || !strings.HasPrefix(fnName(cal), "validate") {
			continue
		}
		d := p.ReachCond(cl.Block())
		gs := map[string]bool{}
		for _, a := range d.Atoms() {
			as := a.String()
			if !d.Implies(func(b *Atom) bool { return b.String() == as }) {
				continue
			}
			switch {
			case a.Rel == "!=" && a.R.IsNil() && a.L.Kind == "param":
				gs["dictionary-present"] = true
			case a.Rel == "" && a.Val && a.B.Kind == "field" && cn(a.B.Field) == "RejectInvalidMessage":
				gs["RejectInvalidMessage"] = true
			case a.Rel == "" && a.B.Kind == "field":
				gs[fmt.Sprintf("%s=%v", cn(a.B.Field), a.Val)] = true
			}
		}
		var g []string
		for k := range gs {
			g = append(g, k)
		}
		sort.Strings(g)
		steps = append(steps, pipeStep{cal, cl, g})
	}
	sort.SliceStable(steps, func(i, j int) bool {
		a, b := steps[i].call, steps[j].call
		if a.Block() != b.Block() {
			return a.Block().Index < b.Block().Index
		}
		return instrIndex(a) < instrIndex(b)
	})
	return steps
}

func c15R1(c *Ctx) {
	p := c.P
	vi := p.Iface(modPath, "Validator")
	var pipes [][]pipeStep
	var names []string
	seenFn := map[*ssa.Function]bool{}
	var roots []*ssa.Function
	for _, n := range p.Implementations(vi) {
		v := p.MethodOf(n, "Validate")
		if v == nil || v.Synthetic != "" || v.Blocks == nil {
			continue
		}
		roots = append(roots, v)
		for _, cl := range Calls(v) {
			cal := cl.Common().StaticCallee()
			if cal != nil && p.InModule(cal) && strings.HasPrefix(fnName(cal), "validate") && !seenFn[cal] {
				seenFn[cal] = true
				pipes = append(pipes, pipelineOf(p, cal))
				names = append(names, FuncName(cal))
			}
		}
	}
	if len(pipes) < 2 {
		c.Undecided("", "-", "pipelines", fmt.Sprintf("found %d validation pipelines (2 expected)", len(pipes)))
		return
	}
	render := func(ps []pipeStep) []string {
		var out []string
		for _, s := range ps {
			out = append(out, s.callee.Name()+"{"+strings.Join(s.guards, ",")+"}")
		}
		return out
	}
	ref := render(pipes[0])
	for i := 1; i < len(pipes); i++ {
		got := render(pipes[i])
		c.Check(strings.Join(ref, " → ") == strings.Join(got, " → "), names[i], p.Pos(pipes[i][0].callee.Pos()), "pipeline-agreement",
			"same ordered rule list as "+names[0]+": "+strings.Join(ref, " → "),
			fmt.Sprintf("%s runs %v but %s runs %v: a message accepted by one pipeline is judged by different rules in the other", names[0], ref, names[i], got))
	}
	// every step's error is returned
	for i, ps := range pipes {
		for _, st := range ps {
			ret := false
			ForEachInstr(st.call.Parent(), func(in ssa.Instruction) {
				if r, ok := in.(*ssa.Return); ok {
					for _, res := range r.Results {
						if p.Origin(res).Any(func(x *Org) bool { return x.Kind == "call" && x.CallI == st.call.(ssa.Instruction) }) {
							ret = true
						}
					}
				}
			})
			c.Check(ret, names[i], p.InstrPos(st.call), "step-error:"+st.callee.Name(), st.callee.Name()+"'s reject is returned", "the reject produced by "+st.callee.Name()+" is dropped: the defect it detects would be accepted")
		}
	}
	// no orphan rule
	reach := make([]map[*ssa.Function]bool, len(roots))
	for i, r := range roots {
		reach[i] = p.Reachable([]*ssa.Function{r}, false)
	}
	for _, fn := range p.FuncsIn(modPath) {
		if !strings.HasPrefix(fnName(fn), "validate") || fn.Signature.Recv() != nil || fn.Parent() != nil {
			continue
		}
		if fn.Signature.Results().Len() == 0 || typeName(fn.Signature.Results().At(fn.Signature.Results().Len()-1).Type()) != "MessageRejectError" {
			continue
		}
		if seenFn[fn] {
			continue // a pipeline entry itself
		}
		ok := true
		for i := range roots {
			if !reach[i][fn] {
				ok = false
			}
		}
		c.Check(ok, FuncName(fn), p.Pos(fn.Pos()), "orphan", "reachable from every Validator implementation", "validation rule "+FuncName(fn)+" is not reachable from every Validator implementation: the defect it detects goes unnoticed on that path")
	}
}

func normEnum(s string) string {
	s = strings.ToUpper(s)
	var b strings.Builder
	for _, r := range s {
		if r >= 'A' && r <= 'Z' || r >= '0' && r <= '9' {
			b.WriteRune(r)
		}
	}
	return b.String()
}

func c15R2(c *Ctx) {
	p := c.P
	specs, err := loadSpecs(p.RepoDir)
	if err != nil {
		c.Undecided("", "-", "specs", err.Error())
		return
	}
	enumOf := func(fieldNo int) map[int][]string {
		out := map[int][]string{}
		for _, d := range specs {
			for _, f := range d.Fields {
				if f.Number == fieldNo {
					for _, v := range f.Values {
						var n int
						if _, err := fmt.Sscanf(v.Enum, "%d", &n); err == nil {
							out[n] = append(out[n], normEnum(v.Description))
						}
					}
				}
			}
		}
		return out
	}
	sess, biz := enumOf(373), enumOf(380)
	pinned := map[string]string{
		"rejectReasonConditionallyRequiredFieldMissing": "business-level reason whose value (8) is pinned by the repository's own TestConditionallyRequiredFieldMissing (\"see issue #721\"); the shipped specs say BusinessRejectReason 5 — recorded as an observation, not judged",
	}
	pk := p.Pkg(modPath)
	// constants and the constructors that use them
	type cinfo struct {
		obj      *types.Const
		session  bool
		business bool
	}
	consts := map[*types.Const]*cinfo{}
	for id, obj := range pk.TypesInfo.Defs {
		if cst, ok := obj.(*types.Const); ok && strings.HasPrefix(id.Name, "rejectReason") && cst.Parent() == pk.Types.Scope() {
			consts[cst] = &cinfo{obj: cst}
		}
	}
	for _, f := range pk.Syntax {
		ast.Inspect(f, func(n ast.Node) bool {
			call, ok := n.(*ast.CallExpr)
			if !ok {
				return true
			}
			fid, ok := call.Fun.(*ast.Ident)
			if !ok {
				return true
			}
			for _, a := range call.Args {
				if id, ok := a.(*ast.Ident); ok {
					if cst, ok := pk.TypesInfo.Uses[id].(*types.Const); ok && consts[cst] != nil {
						if strings.HasPrefix(fid.Name, "NewBusinessMessageRejectError") {
							consts[cst].business = true
						} else if fid.Name == "NewMessageRejectError" {
							consts[cst].session = true
						}
					}
				}
			}
			return true
		})
	}
	var list []*cinfo
	for _, ci := range consts {
		list = append(list, ci)
	}
	sort.Slice(list, func(i, j int) bool { return list[i].obj.Name() < list[j].obj.Name() })
	for _, ci := range list {
		name := ci.obj.Name()
		v, _ := constant.Int64Val(ci.obj.Val())
		want := normEnum(strings.TrimPrefix(name, "rejectReason"))
		pos := p.Pos(ci.obj.Pos())
		if why, ok := pinned[name]; ok {
			c.Note("%s = %d: %s", name, v, why)
			continue
		}
		table, tn := sess, "SessionRejectReason(373)"
		if ci.business && !ci.session {
			table, tn = biz, "BusinessRejectReason(380)"
		}
		match := false
		for _, d := range table[int(v)] {
			if d == want || strings.HasPrefix(d, want) || strings.HasPrefix(want, d) {
				match = true
			}
		}
		// alternative spellings used by some specs
		if !match {
			alt := map[string]string{"INVALIDMSGTYPE": "INVALIDMSGTYPE", "COMPIDPROBLEM": "COMPIDPROBLEM"}
			_ = alt
		}
		c.Check(match, name, pos, "reason:"+name, fmt.Sprintf("%s = %d matches %s enumerator %v", name, v, tn, uniqStrings(sortedCopy(table[int(v)]))),
			fmt.Sprintf("%s = %d, but the shipped specs define %s value %d as %v: a reject carrying this reason names a different defect", name, v, tn, v, uniqStrings(sortedCopy(table[int(v)]))))
		if !ci.session && !ci.business {
			// used only in comparisons (e.g. the FIX.4.2 cut-off) — fine
			c.Note("%s is not passed to a reject constructor directly", name)
		}
	}
}

func sortedCopy(s []string) []string {
	o := append([]string{}, s...)
	sort.Strings(o)
	return o
}

var fixTypeClass = map[string]string{
	"INT": "FIXInt", "LENGTH": "FIXInt", "NUMINGROUP": "FIXInt", "SEQNUM": "FIXInt", "DAYOFMONTH": "FIXInt", "TAGNUM": "FIXInt",
	"FLOAT": "FIXFloat", "QTY": "FIXFloat", "QUANTITY": "FIXFloat", "PRICE": "FIXFloat", "PRICEOFFSET": "FIXFloat", "AMT": "FIXFloat", "PERCENTAGE": "FIXFloat",
	"BOOLEAN":      "FIXBoolean",
	"UTCTIMESTAMP": "FIXUTCTimestamp", "TIME": "FIXUTCTimestamp",
}

func c15R3(c *Ctx) {
	p := c.P
	fn := p.fieldTypeSwitchFn()
	name := FuncName(fn)
	specTypes, err := specFieldTypes(p.RepoDir)
	if err != nil {
		c.Undecided(name, "-", "spec", err.Error())
		return
	}
	// case constant → instantiated class
	arm := map[string]string{}
	ForEachInstr(fn, func(in ssa.Instruction) {
		b, ok := in.(*ssa.BinOp)
		if !ok || b.Op != token.EQL {
			return
		}
		var cs string
		if s, ok := p.Origin(b.Y).ConstStringVal(); ok {
			cs = s
		} else if s, ok := p.Origin(b.X).ConstStringVal(); ok {
			cs = s
		} else {
			return
		}
		// the If using this comparison; follow the true edge through jumps to the allocation
		for _, r := range *b.Referrers() {
			ifi, ok := r.(*ssa.If)
			if !ok {
				continue
			}
			blk := ifi.Block().Succs[0]
			for depth := 0; depth < 40 && blk != nil; depth++ {
				found := ""
				for _, x := range blk.Instrs {
					if al, ok := x.(*ssa.Alloc); ok {
						if n := namedOf(al.Type().Underlying().(*types.Pointer).Elem()); n != nil && strings.HasPrefix(n.Obj().Name(), "FIX") {
							found = n.Obj().Name()
						}
					}
				}
				if found != "" {
					arm[cs] = found
					break
				}
				if len(blk.Succs) == 1 {
					blk = blk.Succs[0]
				} else {
					break
				}
			}
		}
	})
	if len(arm) < 20 {
		c.Undecided(name, p.Pos(fn.Pos()), "switch-shape", fmt.Sprintf("only %d field-type cases recognised", len(arm)))
		return
	}
	var ts []string
	for t := range specTypes {
		ts = append(ts, t)
	}
	sort.Strings(ts)
	for _, t := range ts {
		got, ok := arm[t]
		if !ok {
			c.Violation(name, p.Pos(fn.Pos()), "type-missing:"+t, "field type "+t+" (used in "+specTypes[t][0]+") has no arm in the field-type switch")
			continue
		}
		want := fixTypeClass[t]
		if want == "" {
			want = "FIXString"
		}
		c.Check(got == want, name, p.Pos(fn.Pos()), "type-class:"+t, t+" → "+got, fmt.Sprintf("field type %s is validated as %s; the FIX datatype table says %s: well-formed values of that type would be rejected (or malformed ones accepted)", t, got, want))
	}
}

func c15R4(c *Ctx) {
	p := c.P
	// reject constructors: exported or unexported functions returning MessageRejectError built by New*RejectError with a Tag parameter
	isCtor := func(fn *ssa.Function) bool {
		if fn == nil || !p.InModule(fn) || fn.Signature.Params().Len() == 0 {
			return false
		}
		if typeName(fn.Signature.Params().At(0).Type()) != "Tag" {
			return false
		}
		for _, cl := range Calls(fn) {
			if cal := cl.Common().StaticCallee(); cal != nil && (strings.HasPrefix(fnName(cal), "NewMessageRejectError") || strings.HasPrefix(fnName(cal), "NewBusinessMessageRejectError")) {
				return true
			}
		}
		return false
	}
	leaves := func(o *Org) []string {
		var out []string
		o.Mentions(func(x *Org) bool {
			switch x.Kind {
			case "param", "next", "index", "lookup":
				out = append(out, x.String())
			}
			return false
		})
		return out
	}
	n := 0
	for _, fn := range p.FuncsIn(modPath) {
		if !strings.HasPrefix(fnName(fn), "validate") {
			continue
		}
		for _, cl := range Calls(fn) {
			cal := cl.Common().StaticCallee()
			if !isCtor(cal) {
				continue
			}
			n++
			arg := p.Origin(cl.Common().Args[0])
			ls := leaves(arg)
			d := p.ReachCond(cl.Block())
			ok := false
			cands := map[string]bool{arg.String(): true}
			base := arg
			if base.Kind == "field" && cn(base.Field) == "tag" && base.Base != nil {
				base = base.Base
				cands[base.String()] = true
			}
			if (base.Kind == "index" || base.Kind == "lookup") && base.Base != nil {
				cands[base.Base.String()] = true
			}
			if arg.Kind == "next" || arg.Kind == "param" {
				for _, l := range ls {
					cands[l] = true
				}
			}
			var exact func(o *Org, d int) bool
			exact = func(o *Org, d int) bool {
				if o == nil || d > 10 {
					return false
				}
				if cands[o.String()] {
					return true
				}
				for _, s := range []*Org{o.Base, o.Recv, o.X, o.Y} {
					if exact(s, d+1) {
						return true
					}
				}
				for _, s := range o.Args {
					if exact(s, d+1) {
						return true
					}
				}
				return false // phi alternatives are deliberately not searched
			}
			for _, a := range d.Atoms() {
				if exact(a.L, 0) || exact(a.R, 0) || exact(a.B, 0) {
					ok = true
				}
			}
			c.Check(ok, FuncName(fn), p.InstrPos(cl), "subject:"+cal.Name(), cal.Name()+"(tag) names the field its guard examined", "the reject "+cal.Name()+" names tag "+arg.String()+", which does not occur in the condition that triggered it ("+d.String()+"): the reference tag would not identify the defect")
		}
	}
	if n == 0 {
		c.Violation("", "-", "no-rejects", "validation functions construct no rejects")
	}
	// constructors: reason constant and tag flow into the error
	for _, fn := range p.FuncsIn(modPath) {
		if !isCtor(fn) {
			continue
		}
		for _, cl := range Calls(fn) {
			cal := cl.Common().StaticCallee()
			if cal == nil || !(strings.HasPrefix(fnName(cal), "NewMessageRejectError") || strings.HasPrefix(fnName(cal), "NewBusinessMessageRejectError")) {
				continue
			}
			args := cl.Common().Args
			_, isC := p.Origin(args[1]).ConstIntVal()
			tagArg := p.ContentOrigin(args[len(args)-1])
			okTag := tagArg.Mentions(func(x *Org) bool { return x.Kind == "param" && x.Param == 0 })
			c.Check(isC && okTag, FuncName(fn), p.InstrPos(cl), "ctor:"+fn.Name(), "constructor passes its reason constant and its tag parameter", "constructor "+fn.Name()+" does not pass its own tag parameter as the reference tag")
		}
	}
}
