package main

import (
	"go/token"
	"go/types"

	"golang.org/x/tools/go/ssa"
)

// AppendInfo decodes `append(base, e1, e2...)` / `append(base, s...)`.
type AppendInfo struct {
	Call   *ssa.Call
	Base   ssa.Value
	Elems  []ssa.Value // explicit elements (varargs array stores)
	Spread ssa.Value   // append(base, s...) with s not a varargs array
}

func stripConv(v ssa.Value) ssa.Value {
	for {
		switch x := v.(type) {
		case *ssa.ChangeType:
			v = x.X
		case *ssa.MakeInterface:
			v = x.X
		case *ssa.ChangeInterface:
			v = x.X
		case *ssa.Convert:
			v = x.X
		default:
			return v
		}
	}
}

func asAppend(v ssa.Value) *AppendInfo {
	v = stripConv(v)
	c, ok := v.(*ssa.Call)
	if !ok {
		return nil
	}
	b, ok := c.Call.Value.(*ssa.Builtin)
	if !ok || b.Name() != "append" || len(c.Call.Args) != 2 {
		return nil
	}
	ai := &AppendInfo{Call: c, Base: c.Call.Args[0]}
	arg := c.Call.Args[1]
	if sl, ok := arg.(*ssa.Slice); ok {
		if al, ok := sl.X.(*ssa.Alloc); ok && al.Comment == "varargs" {
			// collect element stores
			n := 0
			if at, ok := al.Type().Underlying().(*types.Pointer).Elem().Underlying().(*types.Array); ok {
				n = int(at.Len())
			}
			ai.Elems = make([]ssa.Value, n)
			for _, r := range *al.Referrers() {
				if ia, ok := r.(*ssa.IndexAddr); ok {
					idx, isC := ia.Index.(*ssa.Const)
					if !isC {
						continue
					}
					i := int(idx.Int64())
					for _, rr := range *ia.Referrers() {
						if st, ok := rr.(*ssa.Store); ok && st.Addr == ia && i < n {
							ai.Elems[i] = st.Val
						}
					}
				}
			}
			return ai
		}
	}
	ai.Spread = arg
	return ai
}

// builtinCall returns the call if v (or instruction in) is a call of builtin name.
func builtinCallOf(in ssa.Instruction, name string) *ssa.CallCommon {
	c, ok := in.(ssa.CallInstruction)
	if !ok {
		return nil
	}
	if b, ok := c.Common().Value.(*ssa.Builtin); ok && b.Name() == name {
		return c.Common()
	}
	return nil
}

// isLoadOf: v is `*addr` (UnOp MUL) and returns addr.
func loadAddr(v ssa.Value) ssa.Value {
	if u, ok := v.(*ssa.UnOp); ok && u.Op == token.MUL {
		return u.X
	}
	return nil
}

// constIntOf returns the value of an integer constant.
func constIntOf(v ssa.Value) (int64, bool) {
	c, ok := stripConv(v).(*ssa.Const)
	if !ok || c.Value == nil {
		return 0, false
	}
	if !c.IsNil() {
		if bt, ok := c.Type().Underlying().(*types.Basic); ok && bt.Info()&types.IsInteger != 0 {
			return c.Int64(), true
		}
	}
	return 0, false
}

// namedOf unwraps pointers and returns the named type, if any.
func namedOf(t types.Type) *types.Named {
	if p, ok := t.(*types.Pointer); ok {
		t = p.Elem()
	}
	n, _ := t.(*types.Named)
	return n
}

func typeName(t types.Type) string {
	if n := namedOf(t); n != nil {
		return cn(n.Obj())
	}
	return types.TypeString(t, func(*types.Package) string { return "" })
}
