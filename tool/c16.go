package main

import (
	"fmt"
	"go/token"
	"go/types"
	"regexp"
	"sort"
	"strings"

	"golang.org/x/tools/go/ssa"
)

func init() { register("C16", propC16) }

func propC16() Property {
	return Property{
		ID: "C16",
		Explanation: "Sibling agreement of every in-module MessageStore implementation (memory, file, sql, mongo — the last is analysed although it cannot be run offline). " +
			"R1 write-through: a persistent store updates its cache counter only on the nil-error edge of the medium write of the same value and the same direction. R2 location agreement: the medium location written for the outbound (inbound) counter is the one the loader feeds back into the outbound (inbound) cache counter — file handle ↔ file name pairing, SQL column ↔ scan position, document field; sender and target never cross. " +
			"R3 range: the iteration callback runs only for begin <= seq <= end in ascending order and its error propagates. R4 reset/refresh shape: reset empties the cache, deletes the stored messages and persists fresh counters/creation time; refresh resets the cache and reloads. R5: Incr* = Set*(cache.Next*()+1) of the same direction (memory: Incr/Set/Next agree on one field per direction, Next = field+1, Set stores next-1). " +
			"R6: save-and-increment = save (nil error) then increment of the outbound counter, or one transaction. R7: no error from the medium is dropped (tabulated: deferred Close/Rollback). R8 (shared with C17): the file store rewrites a counter from offset 0 without truncating, so the text must have a fixed width; with a variable width a shorter number leaves the tail of a longer one on disk and a refreshed or reopened store reads a different counter than the running one reports. R9: a query cursor (sql.Rows, mongo Cursor) is closed — directly or by defer — on every return after the query succeeded, including the one taken when the callback aborts. R10 (shared with C17): the file store appends a message at the end of the body file and indexes that offset, so a save after a refresh or reopen does not overwrite earlier messages. R11: each optional SessionID part of the file-name prefix is appended under an emptiness test of that same field. R12 (shared with C17): the SQL store updates its cached counter only after Commit returned nil. R13: the set of file names handed to the remover in Reset covers the set handed to the opener; the in-memory iteration leaves its loop early only with the callback's error.",
		NotDecided: "equivalence with the abstract store over operation histories, byte-identity of stored messages, durability (C17), behaviour of the database drivers.",
		Rules: []RuleDef{
			{ID: "C16-R1", Desc: "write-through: cache after medium, same value, same direction", Min: 6, Run: c16R1},
			{ID: "C16-R2", Desc: "medium location agreement between writer and loader", Min: 6, Run: c16R2},
			{ID: "C16-R3", Desc: "inclusive ascending range, callback error propagates", Min: 4, Run: c16R3},
			{ID: "C16-R4", Desc: "reset / refresh shape", Min: 6, Run: c16R4},
			{ID: "C16-R5", Desc: "Incr = Set(Next+1), same direction", Min: 8, Run: c16R5},
			{ID: "C16-R6", Desc: "save-and-increment = save then increment / one transaction", Min: 4, Run: c16R6},
			{ID: "C16-R7", Desc: "error discipline in store packages", Min: 20, Run: c16R7},
			{ID: "C16-R8", Desc: "file counters are rewritten in place at fixed width (= C17-R3)", Min: 3, Run: c17R3},
			{ID: "C16-R9", Desc: "query cursors are closed on every path", Min: 1, Run: c16R9},
			{ID: "C16-R10", Desc: "file store: messages are appended at the end and indexed where they were written (= C17-R2)", Min: 3, Run: c17R2},
			{ID: "C16-R11", Desc: "file-name prefix: each optional part under its own emptiness test", Min: 3, Run: c16R11},
			{ID: "C16-R12", Desc: "sql: cache updated only after Commit returned nil (= C17-R4)", Min: 4, Run: c17R4},
			{ID: "C16-R18", Desc: "file store: the index scan is left only behind the requested range (= C17-R9)", Min: 1, Run: c17R9},
			{ID: "C16-R17", Desc: "range readers size nothing from an unordered range", Min: 1, Run: c16R17},
			{ID: "C16-R16", Desc: "database stores reset the cached counters only after the messages were deleted", Min: 2, Run: c16R16},
			{ID: "C16-R15", Desc: "file store: each message is read at the offset its index line records (= C17-R8)", Min: 1, Run: c17R8},
			{ID: "C16-R14", Desc: "sql store: identity parts are bound to their own columns in every statement", Min: 40, Run: c16R14},
			{ID: "C16-R13", Desc: "file Reset removes every file the store opens; memory iteration skips holes", Min: 2, Run: c16R13},
		},
	}
}

type storeImpl struct {
	T      *types.Named
	Kind   string // memory | file | sql | mongo | other
	Cache  *types.Var
	method map[string]*ssa.Function
}

var storeMemo []*storeImpl

func getStores(p *Prog) []*storeImpl {
	if storeMemo != nil {
		return storeMemo
	}
	it := p.Iface(modPath, "MessageStore")
	ms := p.Named(modPath, "MessageStore")
	for _, n := range p.Implementations(it) {
		if n.Obj().Pkg() == nil || strings.Contains(n.Obj().Pkg().Path(), "testsuite") {
			continue
		}
		s := &storeImpl{T: n, method: map[string]*ssa.Function{}}
		if st, ok := n.Underlying().(*types.Struct); ok {
			for i := 0; i < st.NumFields(); i++ {
				if types.Identical(st.Field(i).Type(), ms) {
					s.Cache = st.Field(i)
				}
			}
		}
		for i := 0; i < it.NumMethods(); i++ {
			m := it.Method(i).Name()
			s.method[m] = p.MethodOf(n, m)
		}
		pk := n.Obj().Pkg().Path()
		switch {
		case s.Cache == nil:
			s.Kind = "memory"
		case strings.HasSuffix(pk, "/file"):
			s.Kind = "file"
		case strings.HasSuffix(pk, "/sql"):
			s.Kind = "sql"
		case strings.HasSuffix(pk, "/mongo"):
			s.Kind = "mongo"
		default:
			s.Kind = "other"
		}
		storeMemo = append(storeMemo, s)
	}
	sort.Slice(storeMemo, func(i, j int) bool { return storeMemo[i].Kind < storeMemo[j].Kind })
	return storeMemo
}

func dirOf(method string) string {
	switch {
	case strings.Contains(method, "Sender"):
		return "sender"
	case strings.Contains(method, "Target"):
		return "target"
	}
	return ""
}

// cacheCalls: invoke calls on the store's cache field in fn.
func (s *storeImpl) cacheCalls(p *Prog, fn *ssa.Function) []ssa.CallInstruction {
	var out []ssa.CallInstruction
	if s.Cache == nil || fn == nil {
		return nil
	}
	for _, cl := range Calls(fn) {
		cc := cl.Common()
		if cc.IsInvoke() && isFieldOrg(p.Origin(cc.Value), s.Cache) {
			out = append(out, cl)
		}
	}
	return out
}

// isMediumCall: a call (not on the cache) whose callee is external I/O or an in-package
// helper that reaches external I/O, and whose last result is an error.
func (p *Prog) isMediumCall(s *storeImpl, cl ssa.CallInstruction) bool {
	cc := cl.Common()
	if cc.IsInvoke() && s.Cache != nil && isFieldOrg(p.Origin(cc.Value), s.Cache) {
		return false
	}
	sig := cc.Signature()
	if sig.Results().Len() == 0 || !isErrorType(sig.Results().At(sig.Results().Len()-1).Type()) {
		return false
	}
	return p.touchesMedium(cc, 0)
}

func isErrorType(t types.Type) bool {
	return types.Identical(t, types.Universe.Lookup("error").Type())
}

func mediumPkg(path string) bool {
	return path == "os" || path == "database/sql" || strings.HasPrefix(path, "go.mongodb.org/") || path == "fmt" && false
}

func (p *Prog) touchesMedium(cc *ssa.CallCommon, depth int) bool {
	if depth > 4 {
		return false
	}
	if cc.IsInvoke() {
		if pk := cc.Method.Pkg(); pk != nil && mediumPkg(pk.Path()) {
			return true
		}
		return false
	}
	cal := cc.StaticCallee()
	if cal == nil {
		return false
	}
	if pk := fnPkg(cal); pk != nil && mediumPkg(pk.Pkg.Path()) {
		return true
	}
	if callName(cc) == "fmt.Fprintf" || callName(cc) == "fmt.Fscanf" {
		// writes/reads an *os.File argument
		if len(cc.Args) > 0 && strings.Contains(cc.Args[0].Type().String(), "os.File") || len(cc.Args) > 0 && typeName(stripConv(cc.Args[0]).Type()) == "File" {
			return true
		}
	}
	if !p.InModule(cal) || cal.Blocks == nil {
		return false
	}
	for _, c2 := range Calls(cal) {
		if p.touchesMedium(c2.Common(), depth+1) {
			return true
		}
	}
	return false
}

func nilErrAtomFor(call ssa.Instruction) func(*Atom) bool {
	return func(a *Atom) bool {
		return a.Rel == "==" && a.R.IsNil() && a.L.Kind == "call" && a.L.CallI == call
	}
}

// ---- R1 -------------------------------------------------------------------------------

func c16R1(c *Ctx) {
	p := c.P
	for _, s := range getStores(p) {
		if s.Cache == nil {
			continue
		}
		tn := s.T.Obj().Name()
		// every function of the package that mutates cache counters
		for _, fn := range p.FuncsIn(s.T.Obj().Pkg().Path()) {
			if fn.Signature.Recv() == nil || namedOf(fn.Signature.Recv().Type()) != s.T {
				continue
			}
			for _, cl := range s.cacheCalls(p, fn) {
				m := cn(cl.Common().Method)
				if !strings.HasPrefix(m, "SetNext") && !strings.HasPrefix(m, "IncrNext") {
					continue
				}
				name := FuncName(fn)
				pos := p.InstrPos(cl)
				if len(cl.Common().Args) == 0 {
					c.Violation(name, pos, "cache-incremented-directly:"+m, "the cached counter is moved with cache."+m+"() instead of being set to the value that was written to the medium: if the medium write fails or is rolled back the cache keeps the increment, and the store reports a number the medium does not hold")
					continue
				}
				// loader role: value comes from a medium read
				vo := p.Origin(cl.Common().Args[0])
				if p.isLoader(fn) {
					c.OK(name, pos, "loader: cache."+m+" fed from the medium")
					continue
				}
				// writer role: same direction as the enclosing method; value also handed to a medium call whose nil error guards this call
				okDir := dirOf(m) == dirOf(fn.Name()) && dirOf(m) != ""
				d := p.ReachCond(cl.Block())
				guarded := false
				for _, mc := range Calls(fn) {
					if mc == cl || !p.isMediumCall(s, mc) {
						continue
					}
					passes := false
					for _, a := range mc.Common().Args {
						if p.Origin(a).String() == vo.String() {
							passes = true
						}
						// variadic: value inside a varargs slice
						if sl, ok := a.(*ssa.Slice); ok {
							if al, ok := sl.X.(*ssa.Alloc); ok && al.Comment == "varargs" {
								for _, e := range varargsElems(al) {
									if e != nil && p.Origin(e).String() == vo.String() {
										passes = true
									}
								}
							}
						}
					}
					if !passes {
						// the value travels inside a document/struct handed to the medium call
						// (possibly built in a closure run by the call)
						for _, f := range WithClosures(fn) {
							ForEachInstr(f, func(in ssa.Instruction) {
								if st, ok := in.(*ssa.Store); ok {
									if _, isF := st.Addr.(*ssa.FieldAddr); isF && p.Origin(st.Val).String() == vo.String() {
										if f != fn || InstrDominates(st, mc) {
											passes = true
										}
									}
								}
							})
						}
					}
					if passes && d.Implies(nilErrAtomFor(mc.(ssa.Instruction))) {
						guarded = true
					}
				}
				if !guarded && vo.Kind == "call" && vo.Callee != nil && p.InModule(vo.Callee) && vo.CallI != nil {
					// the value is what a helper wrote to the medium and handed back: v, err := helper(tx, …); the
					// helper passes the value it returns to a medium call, and this call is on its nil-error edge
					if hc, ok := vo.CallI.(ssa.CallInstruction); ok && p.isMediumCall(s, hc) && d.Implies(nilErrAtomFor(vo.CallI)) {
						h := vo.Callee
						for _, b := range h.Blocks {
							r, isRet := b.Instrs[len(b.Instrs)-1].(*ssa.Return)
							if !isRet || vo.Res >= len(r.Results) {
								continue
							}
							rv := p.Origin(r.Results[vo.Res]).String()
							for _, mc := range Calls(h) {
								for _, a := range mc.Common().Args {
									if sl, ok := a.(*ssa.Slice); ok {
										if al, ok := sl.X.(*ssa.Alloc); ok && al.Comment == "varargs" {
											for _, e := range varargsElems(al) {
												if e != nil && p.Origin(e).String() == rv {
													guarded = true
												}
											}
										}
									}
									if p.Origin(a).String() == rv {
										guarded = true
									}
								}
							}
						}
					}
				}
				c.Check(okDir && guarded, name, pos, "write-through:"+m, "cache."+m+"(v) only after the medium accepted v ("+tn+")",
					fmt.Sprintf("cache.%s(%s) in %s: same direction=%v, dominated by the nil-error edge of a medium write of that value=%v. A failed or skipped medium write would leave the cache ahead of the store.", m, vo.String(), name, okDir, guarded))
			}
		}
	}
}

func varargsElems(al *ssa.Alloc) []ssa.Value {
	n := 0
	if at, ok := al.Type().Underlying().(*types.Pointer).Elem().Underlying().(*types.Array); ok {
		n = int(at.Len())
	}
	out := make([]ssa.Value, n)
	for _, r := range *al.Referrers() {
		if ia, ok := r.(*ssa.IndexAddr); ok {
			if idx, isC := ia.Index.(*ssa.Const); isC {
				for _, rr := range *ia.Referrers() {
					if st, ok := rr.(*ssa.Store); ok && st.Addr == ssa.Value(ia) && int(idx.Int64()) < n {
						out[idx.Int64()] = st.Val
					}
				}
			}
		}
	}
	return out
}

// isLoader: function reads the medium (ReadFile / QueryRow+Scan / FindOne+Decode).
func (p *Prog) isLoader(fn *ssa.Function) bool {
	for _, cl := range Calls(fn) {
		switch callName(cl.Common()) {
		case "os.ReadFile", "(*database/sql.DB).QueryRow", "(*database/sql.Row).Scan", "(*go.mongodb.org/mongo-driver/mongo.Collection).FindOne", "(*go.mongodb.org/mongo-driver/mongo.SingleResult).Decode":
			return true
		}
		n := callName(cl.Common())
		if strings.HasSuffix(n, ".ReadFile") || strings.HasSuffix(n, ".QueryRow") || strings.HasSuffix(n, ").FindOne") {
			return true
		}
	}
	return false
}

// ---- R2 -------------------------------------------------------------------------------

var reSetCol = regexp.MustCompile(`(?i)SET\s+([a-z_]+)\s*=\s*\?`)
var reSelect = regexp.MustCompile(`(?is)SELECT\s+(.*?)\s+FROM`)

// sqlText: the constant format string stored into a statement field of the store.
func (p *Prog) sqlText(f *types.Var) string {
	for _, st := range p.FieldStores(f) {
		o := p.Origin(st.Store.Val)
		if o.IsCallTo("fmt.Sprintf") && len(o.Args) > 0 {
			if s, ok := o.Args[0].ConstStringVal(); ok {
				return s
			}
		}
		if s, ok := o.ConstStringVal(); ok {
			return s
		}
	}
	return ""
}

func c16R2(c *Ctx) {
	p := c.P
	for _, s := range getStores(p) {
		tn := s.T.Obj().Name()
		switch s.Kind {
		case "memory":
			// Next*, Set*, Incr* of one direction touch one field; the two directions use different fields
			fieldOf := map[string]map[*types.Var]bool{}
			for _, m := range []string{"NextSenderMsgSeqNum", "SetNextSenderMsgSeqNum", "IncrNextSenderMsgSeqNum", "NextTargetMsgSeqNum", "SetNextTargetMsgSeqNum", "IncrNextTargetMsgSeqNum"} {
				fn := s.method[m]
				fs := map[*types.Var]bool{}
				ForEachInstr(fn, func(in ssa.Instruction) {
					if fa, ok := in.(*ssa.FieldAddr); ok {
						if st := derefStruct(fa.X.Type()); st != nil {
							fs[st.Field(fa.Field)] = true
						}
					}
				})
				fieldOf[m] = fs
			}
			for _, dir := range []string{"Sender", "Target"} {
				a, b, cc := fieldOf["Next"+dir+"MsgSeqNum"], fieldOf["SetNext"+dir+"MsgSeqNum"], fieldOf["IncrNext"+dir+"MsgSeqNum"]
				ok := len(a) == 1 && sameVarSet(a, b) && sameVarSet(a, cc)
				c.Check(ok, tn, p.Pos(s.method["Next"+dir+"MsgSeqNum"].Pos()), "memory-field:"+dir, dir+": Next/Set/Incr use one and the same counter field", fmt.Sprintf("%s counter: Next reads %v, Set writes %v, Incr writes %v", dir, varNames(a), varNames(b), varNames(cc)))
			}
			ok := !sameVarSet(fieldOf["NextSenderMsgSeqNum"], fieldOf["NextTargetMsgSeqNum"])
			c.Check(ok, tn, "-", "memory-distinct", "sender and target counters are different fields", "the outbound and inbound counters share a field")
		case "file":
			// writer: SetNextX passes file field F to the medium write; Refresh opens F from name N; loader feeds ReadFile(N) to cache.SetNextX'
			for _, dir := range []string{"Sender", "Target"} {
				set := s.method["SetNext"+dir+"MsgSeqNum"]
				var fileField *types.Var
				for _, cl := range Calls(set) {
					if !p.isMediumCall(s, cl) {
						continue
					}
					for _, a := range cl.Common().Args {
						ao := p.Origin(a)
						if ao.Kind == "field" && typeName(ao.Field.Type()) == "File" {
							fileField = ao.Field
						}
					}
				}
				if fileField == nil {
					c.Undecided(FuncName(set), p.Pos(set.Pos()), "file-handle", "setter does not pass an *os.File field to its write helper")
					continue
				}
				var nameField *types.Var
				for _, st := range p.FieldStores(fileField) {
					o := p.Origin(st.Store.Val)
					if o.Kind == "call" && len(o.Args) > 0 && o.Args[0].Kind == "field" {
						nameField = o.Args[0].Field
					}
				}
				if nameField == nil {
					c.Undecided(FuncName(set), p.Pos(set.Pos()), "file-open", "no open of "+fileField.Name()+" from a file-name field found")
					continue
				}
				// loader
				found := false
				for _, fn := range p.FuncsIn(s.T.Obj().Pkg().Path()) {
					if !p.isLoader(fn) {
						continue
					}
					for _, cl := range s.cacheCalls(p, fn) {
						m := cn(cl.Common().Method)
						if !strings.HasPrefix(m, "SetNext") {
							continue
						}
						vo := p.Origin(cl.Common().Args[0])
						if vo.Mentions(func(x *Org) bool {
							return x.Kind == "call" && strings.HasSuffix(x.CalleeName(), "ReadFile") && len(x.Args) > 0 && x.Args[0].Kind == "field" && x.Args[0].Field == nameField
						}) {
							found = true
							c.Check(dirOf(m) == strings.ToLower(dir), FuncName(fn), p.InstrPos(cl), "file-location:"+dir,
								fmt.Sprintf("%s counter: written through %s, opened from %s, loaded into cache.%s", dir, fileField.Name(), nameField.Name(), m),
								fmt.Sprintf("the %s counter is written to %s (file %s) but that file is loaded into cache.%s: sender and target cross on reload", dir, fileField.Name(), nameField.Name(), m))
						}
					}
				}
				if !found {
					c.Violation(FuncName(set), p.Pos(set.Pos()), "file-not-loaded:"+dir, "the file written by "+FuncName(set)+" ("+nameField.Name()+") is never read back by the loader")
				}
			}
		case "sql":
			st := s.T.Underlying().(*types.Struct)
			fieldByName := func(n string) *types.Var {
				for i := 0; i < st.NumFields(); i++ {
					if st.Field(i).Name() == n {
						return st.Field(i)
					}
				}
				return nil
			}
			_ = fieldByName
			// loader: SELECT column order ↔ Scan targets ↔ cache setter
			colOfDir := map[string]string{}
			for _, fn := range p.FuncsIn(s.T.Obj().Pkg().Path()) {
				if !p.isLoader(fn) {
					continue
				}
				var selCols []string
				var scanAllocs []ssa.Value
				for _, cl := range Calls(fn) {
					n := callName(cl.Common())
					if strings.HasSuffix(n, ".QueryRow") {
						txt := p.stmtTextOfArg(cl.Common().Args[1])
						if m := reSelect.FindStringSubmatch(txt); m != nil {
							for _, col := range strings.Split(m[1], ",") {
								selCols = append(selCols, strings.TrimSpace(col))
							}
						}
					}
					if strings.HasSuffix(n, ").Scan") {
						for _, a := range cl.Common().Args[1:] {
							if sl, ok := a.(*ssa.Slice); ok {
								if al, ok := sl.X.(*ssa.Alloc); ok {
									scanAllocs = append(scanAllocs, varargsElems(al)...)
								}
							}
						}
					}
				}
				if len(selCols) == 0 || len(selCols) != len(scanAllocs) {
					c.Undecided(FuncName(fn), p.Pos(fn.Pos()), "sql-loader-shape", fmt.Sprintf("loader SELECT has %d columns, Scan has %d targets", len(selCols), len(scanAllocs)))
					continue
				}
				for _, cl := range s.cacheCalls(p, fn) {
					m := cn(cl.Common().Method)
					if !strings.HasPrefix(m, "SetNext") {
						continue
					}
					// which scan target feeds this call?
					arg := stripConv(cl.Common().Args[0])
					for i, sa := range scanAllocs {
						if sa == nil {
							continue
						}
						if ld, ok := arg.(*ssa.UnOp); ok && ld.X == stripConv(sa) {
							colOfDir[dirOf(m)] = selCols[i]
							c.OK(FuncName(fn), p.InstrPos(cl), fmt.Sprintf("loader: column %s → cache.%s", selCols[i], m))
						}
					}
				}
			}
			for _, dir := range []string{"Sender", "Target"} {
				set := s.method["SetNext"+dir+"MsgSeqNum"]
				col := ""
				var bindOK bool
				for _, cl := range Calls(set) {
					if !strings.HasSuffix(callName(cl.Common()), ").Exec") {
						continue
					}
					txt := p.stmtTextOfArg(cl.Common().Args[1])
					if m := reSetCol.FindStringSubmatch(txt); m != nil {
						col = m[1]
					}
					// first placeholder bound to the parameter
					if sl, ok := cl.Common().Args[2].(*ssa.Slice); ok {
						if al, ok := sl.X.(*ssa.Alloc); ok {
							es := varargsElems(al)
							if len(es) > 0 && es[0] != nil && p.Origin(es[0]).Kind == "param" {
								bindOK = true
							}
						}
					}
				}
				want := colOfDir[strings.ToLower(dir)]
				c.Check(col != "" && col == want && bindOK, FuncName(set), p.Pos(set.Pos()), "sql-location:"+dir,
					fmt.Sprintf("%s counter: UPDATE … SET %s=? bound to the parameter; loader reads %s into the %s counter", dir, col, want, strings.ToLower(dir)),
					fmt.Sprintf("the %s counter is written to column %q (first placeholder bound to parameter=%v) but the loader fills the %s counter from column %q", dir, col, bindOK, strings.ToLower(dir), want))
			}
		case "mongo":
			for _, dir := range []string{"Sender", "Target"} {
				set := s.method["SetNext"+dir+"MsgSeqNum"]
				// field of the update document that receives the parameter
				var wf *types.Var
				ForEachInstr(set, func(in ssa.Instruction) {
					if st, ok := in.(*ssa.Store); ok && p.Origin(st.Val).Kind == "param" {
						if fa, ok := st.Addr.(*ssa.FieldAddr); ok {
							if sst := derefStruct(fa.X.Type()); sst != nil {
								wf = sst.Field(fa.Field)
							}
						}
					}
				})
				// loader: which document field feeds cache.SetNext<dir>
				var lf *types.Var
				for _, fn := range p.FuncsIn(s.T.Obj().Pkg().Path()) {
					if !p.isLoader(fn) {
						continue
					}
					for _, cl := range s.cacheCalls(p, fn) {
						if cn(cl.Common().Method) == "SetNext"+dir+"MsgSeqNum" {
							o := p.Origin(cl.Common().Args[0])
							if o.Kind == "field" {
								lf = o.Field
							}
						}
					}
				}
				c.Check(wf != nil && wf == lf, FuncName(set), p.Pos(set.Pos()), "mongo-location:"+dir,
					fmt.Sprintf("%s counter written to and loaded from document field %s", dir, nameOfVar(wf)),
					fmt.Sprintf("the %s counter is written to document field %s but loaded from %s", dir, nameOfVar(wf), nameOfVar(lf)))
			}
		}
	}
}

func nameOfVar(v *types.Var) string {
	if v == nil {
		return "<none>"
	}
	return v.Name()
}

func sameVarSet(a, b map[*types.Var]bool) bool {
	if len(a) != len(b) {
		return false
	}
	for k := range a {
		if !b[k] {
			return false
		}
	}
	return true
}

func varNames(a map[*types.Var]bool) []string {
	var out []string
	for k := range a {
		out = append(out, k.Name())
	}
	sort.Strings(out)
	return out
}

// stmtTextOfArg: the SQL text behind an argument like sqlString(store.sqlX, placeholder).
func (p *Prog) stmtTextOfArg(v ssa.Value) string {
	o := p.Origin(v)
	var f *types.Var
	o.Mentions(func(x *Org) bool {
		if x.Kind == "field" && strings.HasPrefix(cn(x.Field), "sql") && f == nil {
			if bt, ok := x.Field.Type().Underlying().(*types.Basic); ok && bt.Kind() == types.String {
				f = x.Field
			}
		}
		return false
	})
	if f == nil {
		return ""
	}
	return p.sqlText(f)
}

// ---- R3 -------------------------------------------------------------------------------

func c16R3(c *Ctx) {
	p := c.P
	for _, s := range getStores(p) {
		fn := s.method["IterateMessages"]
		if fn == nil {
			continue
		}
		name := FuncName(fn)
		// the callback invocation(s): dynamic call of param #3 (cb)
		var cbCalls []ssa.CallInstruction
		for _, f := range WithClosures(fn) {
			for _, cl := range Calls(f) {
				cc := cl.Common()
				if cc.StaticCallee() == nil && !cc.IsInvoke() {
					if o := p.Origin(cc.Value); o.Kind == "param" && o.Fn == fn {
						cbCalls = append(cbCalls, cl)
					}
				}
			}
		}
		if len(cbCalls) == 0 {
			c.Violation(name, p.Pos(fn.Pos()), "no-callback", "IterateMessages never invokes its callback")
			continue
		}
		for _, cl := range cbCalls {
			if _, isGo := cl.(*ssa.Go); isGo {
				c.Violation(name, p.InstrPos(cl), "async-callback", "the callback is started asynchronously: the replay loop relies on it running inside the iteration (under its lock)")
				continue
			}
			// error propagates: the call's result reaches a return
			ret := false
			ForEachInstr(cl.Parent(), func(in ssa.Instruction) {
				if r, ok := in.(*ssa.Return); ok {
					for _, res := range r.Results {
						if p.Origin(res).Any(func(x *Org) bool { return x.Kind == "call" && x.CallI == cl.(ssa.Instruction) }) {
							ret = true
						}
					}
				}
			})
			c.Check(ret, name, p.InstrPos(cl), "cb-error", "callback error is returned", "an error returned by the iteration callback is not propagated: an aborted replay would continue")
			d := p.ReachCond(cl.Block())
			switch s.Kind {
			case "memory":
				// for seq := begin; seq <= end; seq++ { if m, ok := map[seq]; ok { cb(m) } }
				lower, upper := false, false
				for _, a := range d.Atoms() {
					if a.Rel == "<=" && a.R.Kind == "param" && a.R.Param == 2 && a.L.Kind == "phi" {
						// seq <= end, seq = φ(begin, seq+1)
						hasBegin, hasInc := false, false
						for _, alt := range a.L.Alts {
							if alt.Kind == "param" && alt.Param == 1 {
								hasBegin = true
							}
							if alt.Kind == "binop" && alt.Op == token.ADD && alt.Y.IsConstInt(1) {
								hasInc = true
							}
						}
						if hasBegin && hasInc && d.Implies(func(b *Atom) bool { return b.String() == a.String() }) {
							lower, upper = true, true
						}
					}
				}
				c.Check(lower && upper, name, p.InstrPos(cl), "range-memory", "callback for seq = begin, begin+1, … while seq <= end", "the in-memory iteration does not run seq from begin upward while seq <= end (reach "+d.String()+")")
			case "file":
				// guards: !(seq > end) and !(seq < begin), seq from Fscanf
				ge := d.Implies(func(a *Atom) bool { return a.Rel == "<=" && a.L.Kind == "param" && a.L.Param == 1 })
				le := d.Implies(func(a *Atom) bool { return a.Rel == "<=" && a.R.Kind == "param" && a.R.Param == 2 })
				c.Check(ge && le, name, p.InstrPos(cl), "range-file", "callback only under begin <= seq <= end", "the file iteration calls back under "+d.String()+", not exactly for begin <= seq <= end")
			case "sql":
				txt := ""
				var binds []*Org
				for _, q := range Calls(fn) {
					if strings.HasSuffix(callName(q.Common()), ").Query") {
						txt = p.stmtTextOfArg(q.Common().Args[1])
						if sl, ok := q.Common().Args[2].(*ssa.Slice); ok {
							if al, ok := sl.X.(*ssa.Alloc); ok {
								for _, e := range varargsElems(al) {
									binds = append(binds, p.Origin(e))
								}
							}
						}
					}
				}
				okText := regexp.MustCompile(`(?is)msgseqnum\s*>=\s*\?\s+AND\s+msgseqnum\s*<=\s*\?\s+ORDER BY\s+msgseqnum\s*$`).MatchString(txt)
				n := len(binds)
				okBind := n >= 2 && binds[n-2].Kind == "param" && binds[n-2].Param == 1 && binds[n-1].Kind == "param" && binds[n-1].Param == 2
				c.Check(okText && okBind, name, p.InstrPos(cl), "range-sql", "SELECT … msgseqnum>=? AND msgseqnum<=? ORDER BY msgseqnum bound to (begin, end)", fmt.Sprintf("the SQL range query is %q with the last two placeholders bound to begin,end=%v", txt, okBind))
			case "mongo":
				// map updates "$gte": begin, "$lte": end ; sort 1
				gte, lte := false, false
				ForEachInstr(fn, func(in ssa.Instruction) {
					if mu, ok := in.(*ssa.MapUpdate); ok {
						k, _ := p.Origin(mu.Key).ConstStringVal()
						vo := p.Origin(mu.Value)
						if k == "$gte" && vo.Kind == "param" && vo.Param == 1 {
							gte = true
						}
						if k == "$lte" && vo.Kind == "param" && vo.Param == 2 {
							lte = true
						}
						if (k == "$gt" || k == "$lt") && vo.Kind == "param" {
							gte, lte = false, false
						}
					}
				})
				sortAsc := false
				ForEachInstr(fn, func(in ssa.Instruction) {
					if st, ok := in.(*ssa.Store); ok {
						if fa, ok := st.Addr.(*ssa.FieldAddr); ok {
							if sst := derefStruct(fa.X.Type()); sst != nil && sst.Field(fa.Field).Name() == "Value" && p.Origin(st.Val).IsConstInt(1) {
								sortAsc = true
							}
						}
					}
				})
				c.Check(gte && lte && sortAsc, name, p.InstrPos(cl), "range-mongo", "filter msgseq {$gte: begin, $lte: end}, sort ascending", fmt.Sprintf("mongo range filter: $gte←begin=%v $lte←end=%v ascending sort=%v", gte, lte, sortAsc))
			}
		}
	}
}

// ---- R4 -------------------------------------------------------------------------------

func c16R4(c *Ctx) {
	p := c.P
	for _, s := range getStores(p) {
		reset, refresh := s.method["Reset"], s.method["Refresh"]
		tn := s.T.Obj().Name()
		if s.Kind == "memory" {
			// Reset: both counters ← 0, creationTime ← time.Now(), messageMap ← nil
			zeroed := 0
			now, dropped := false, false
			ForEachInstr(reset, func(in ssa.Instruction) {
				st, ok := in.(*ssa.Store)
				if !ok {
					return
				}
				fa, ok := st.Addr.(*ssa.FieldAddr)
				if !ok {
					return
				}
				f := derefStruct(fa.X.Type()).Field(fa.Field)
				vo := p.Origin(st.Val)
				switch {
				case vo.IsConstInt(0):
					zeroed++
				case vo.IsCallTo("time.Now"):
					now = true
				case vo.IsNil() || vo.Kind == "make":
					if _, isMap := f.Type().Underlying().(*types.Map); isMap {
						dropped = true
					}
				}
			})
			c.Check(zeroed == 2 && now && dropped, FuncName(reset), p.Pos(reset.Pos()), "reset-memory", "Reset: both counters ← 0, creation time ← now, messages dropped", fmt.Sprintf("memory Reset: counters zeroed=%d (need 2), creation time renewed=%v, messages dropped=%v", zeroed, now, dropped))
			continue
		}
		// persistent: Reset → cache.Reset, delete messages on the medium, persist fresh state (directly or via Refresh)
		cacheReset := func(fn *ssa.Function) ssa.CallInstruction {
			for _, cl := range s.cacheCalls(p, fn) {
				if cn(cl.Common().Method) == "Reset" {
					return cl
				}
			}
			return nil
		}
		cr := cacheReset(reset)
		c.Check(cr != nil, FuncName(reset), p.Pos(reset.Pos()), "reset-cache:"+tn, "Reset resets the cache", "Reset does not reset the cached counters")
		deletes := false
		persists := false
		// a removal step extracted into a helper method of the store counts as well
		for _, cl := range Calls(reset) {
			if cal := cl.Common().StaticCallee(); cal != nil && cal != refresh && p.InModule(cal) && fnPkg(cal) == fnPkg(reset) && cal.Signature.Recv() != nil && namedOf(cal.Signature.Recv().Type()) == s.T {
				for _, c2 := range Calls(cal) {
					if n2 := callName(c2.Common()); strings.HasSuffix(n2, "removeFile") || strings.HasSuffix(n2, ").DeleteMany") {
						deletes = true
					}
				}
			}
		}
		for _, cl := range Calls(reset) {
			n := callName(cl.Common())
			if strings.HasSuffix(n, "removeFile") || strings.HasSuffix(n, ").DeleteMany") {
				deletes = true
			}
			if strings.HasSuffix(n, ").Exec") {
				txt := p.stmtTextOfArg(cl.Common().Args[1])
				if strings.HasPrefix(strings.ToUpper(strings.TrimSpace(txt)), "DELETE") {
					deletes = true
				}
				if strings.HasPrefix(strings.ToUpper(strings.TrimSpace(txt)), "UPDATE") && cr != nil && InstrDominates(cr, cl) {
					persists = true
				}
			}
			if strings.HasSuffix(n, ").UpdateOne") && cr != nil && InstrDominates(cr, cl) {
				persists = true
			}
			if cl.Common().StaticCallee() == refresh && refresh != nil {
				persists = true
			}
		}
		c.Check(deletes, FuncName(reset), p.Pos(reset.Pos()), "reset-deletes:"+tn, "Reset deletes the stored messages on the medium", "Reset leaves the stored messages on the medium: a later replay would resend messages of the previous epoch")
		c.Check(persists, FuncName(reset), p.Pos(reset.Pos()), "reset-persists:"+tn, "Reset persists the fresh counters/creation time after resetting the cache", "Reset does not write the fresh counters and creation time to the medium after resetting the cache: a reopened store would resume the old epoch")
		// the renewed creation time is read back from the cache by the persisting step
		ctRead := false
		scope := []*ssa.Function{reset}
		viaRefresh := false
		for _, cl := range Calls(reset) {
			if cl.Common().StaticCallee() == refresh && refresh != nil {
				viaRefresh = true
			}
		}
		if viaRefresh {
			for fn := range p.Reachable([]*ssa.Function{refresh}, false) {
				if fnPkg(fn) == fnPkg(reset) {
					scope = append(scope, fn)
				}
			}
		}
		for _, fn := range scope {
			for _, cl := range s.cacheCalls(p, fn) {
				if cn(cl.Common().Method) == "CreationTime" && (fn != reset || cr == nil || InstrDominates(cr, cl)) {
					ctRead = true
				}
			}
		}
		c.Check(ctRead, FuncName(reset), p.Pos(reset.Pos()), "reset-persists-creation-time:"+tn, "the step that persists the reset state reads the renewed creation time from the cache", "Reset never reads the cache's renewed creation time after resetting it, so it cannot have written it to the medium: the store itself reports the new creation time but Refresh or a fresh store on the same medium reports the previous epoch's")
		// Refresh: cache.Reset before load
		rr := cacheReset(refresh)
		loadAfter := false
		if rr != nil {
			for _, cl := range Calls(refresh) {
				cal := cl.Common().StaticCallee()
				if cal != nil && p.InModule(cal) && (p.isLoader(cal) || p.reachesAny(cal, p.isLoader)) && InstrDominates(rr, cl) {
					loadAfter = true
				}
			}
		}
		c.Check(rr != nil && loadAfter, FuncName(refresh), p.Pos(refresh.Pos()), "refresh-shape:"+tn, "Refresh: reset the cache, then load from the medium", "Refresh does not reset the cache and then reload it from the medium")
	}
}

// ---- R5 -------------------------------------------------------------------------------

func c16R5(c *Ctx) {
	p := c.P
	for _, s := range getStores(p) {
		for _, dir := range []string{"Sender", "Target"} {
			incr := s.method["IncrNext"+dir+"MsgSeqNum"]
			set := s.method["SetNext"+dir+"MsgSeqNum"]
			next := s.method["Next"+dir+"MsgSeqNum"]
			name := FuncName(incr)
			if s.Kind == "memory" {
				// Next = f+1 ; Set: f = next-1 ; Incr: f = f+1
				okNext, okSet, okIncr := false, false, false
				for _, b := range next.Blocks {
					if r, ok := b.Instrs[len(b.Instrs)-1].(*ssa.Return); ok {
						o := p.Origin(r.Results[0])
						okNext = o.Kind == "binop" && o.Op == token.ADD && o.X.Kind == "field" && o.Y.IsConstInt(1)
					}
				}
				ForEachInstr(set, func(in ssa.Instruction) {
					if st, ok := in.(*ssa.Store); ok {
						o := p.Origin(st.Val)
						if o.Kind == "binop" && o.Op == token.SUB && o.X.Kind == "param" && o.Y.IsConstInt(1) {
							okSet = true
						}
					}
				})
				ForEachInstr(incr, func(in ssa.Instruction) {
					if st, ok := in.(*ssa.Store); ok {
						o := p.Origin(st.Val)
						if o.Kind == "binop" && o.Op == token.ADD && o.X.Kind == "field" && o.Y.IsConstInt(1) {
							okIncr = true
						}
					}
				})
				c.Check(okNext && okSet && okIncr, name, p.Pos(incr.Pos()), "memory-arith:"+dir, dir+": Next = f+1, Set stores next-1, Incr stores f+1", fmt.Sprintf("memory %s counter arithmetic: Next=f+1 %v, Set stores next-1 %v, Incr stores f+1 %v", dir, okNext, okSet, okIncr))
				continue
			}
			// persistent: Incr calls Set<dir>(cache.Next<dir>() + 1) and returns its error
			ok := false
			var what string
			for _, cl := range Calls(incr) {
				if cl.Common().StaticCallee() != set {
					continue
				}
				a := p.Origin(cl.Common().Args[1])
				what = a.String()
				if a.Kind == "binop" && a.Op == token.ADD && a.Y.IsConstInt(1) && a.X.Kind == "call" && a.X.Method != nil && cn(a.X.Method) == "Next"+dir+"MsgSeqNum" {
					ok = true
				}
			}
			c.Check(ok, name, p.Pos(incr.Pos()), "incr-is-set-next-plus-1:"+dir, "Incr"+dir+" = Set"+dir+"(Next"+dir+"()+1)", "IncrNext"+dir+"MsgSeqNum does not call SetNext"+dir+"MsgSeqNum(Next"+dir+"MsgSeqNum()+1): it passes "+what)
			// Next<dir> delegates to cache.Next<dir>
			okN := false
			for _, cl := range s.cacheCalls(p, next) {
				if cn(cl.Common().Method) == "Next"+dir+"MsgSeqNum" {
					okN = true
				}
			}
			c.Check(okN, FuncName(next), p.Pos(next.Pos()), "next-delegates:"+dir, "Next"+dir+" answers from the cache counter of the same direction", "Next"+dir+"MsgSeqNum does not return the cache's "+dir+" counter")
		}
	}
}

// ---- R6 -------------------------------------------------------------------------------

func c16R6(c *Ctx) {
	p := c.P
	for _, s := range getStores(p) {
		fn := s.method["SaveMessageAndIncrNextSenderMsgSeqNum"]
		name := FuncName(fn)
		save, incr := s.method["SaveMessage"], s.method["IncrNextSenderMsgSeqNum"]
		nPaths, good := 0, true
		var why string
		EnumPaths(fn, 512, func(pa Path) {
			// classify the path
			saved, incred, begun, committed := false, false, false, false
			var saveCall ssa.Instruction
			orderOK := true
			for _, b := range pa.Blocks {
				for _, in := range b.Instrs {
					cl, ok := in.(ssa.CallInstruction)
					if !ok {
						continue
					}
					if _, isDefer := in.(*ssa.Defer); isDefer {
						continue
					}
					cal := cl.Common().StaticCallee()
					n := callName(cl.Common())
					switch {
					case cal == save:
						saved = true
						saveCall = in
						if incred {
							orderOK = false
						}
					case cal == incr:
						incred = true
						if !saved {
							orderOK = false
						}
					case strings.HasSuffix(n, ").Begin") || strings.HasSuffix(n, ").UseSession"):
						begun = true
					case strings.HasSuffix(n, ").Commit"):
						committed = true
					}
				}
			}
			nPaths++
			cond := p.PathCond(pa)
			last := pa.Blocks[len(pa.Blocks)-1]
			ret := last.Instrs[len(last.Instrs)-1].(*ssa.Return)
			retNil := p.Origin(ret.Results[0]).IsNil()
			_ = retNil
			if begun {
				return // transaction form: checked by C17-R4
			}
			if incred {
				if !saved || !orderOK {
					good = false
					why = "a path increments the outbound counter without a preceding SaveMessage"
				} else if saveCall != nil && !cond.Implies(nilErrAtomFor(saveCall)) {
					good = false
					why = "the outbound counter is incremented on a path where SaveMessage's error is not known to be nil"
				}
			} else if saved {
				// saved but not incremented: must be the save-error path
				if saveCall != nil && !cond.Implies(func(a *Atom) bool { return a.Rel == "!=" && a.R.IsNil() && a.L.Kind == "call" && a.L.CallI == saveCall }) {
					good = false
					why = "a path saves the message and returns without incrementing the outbound counter although the save succeeded"
				}
			} else if !committed {
				good = false
				why = "a path neither saves nor runs a transaction"
			}
		})
		c.Check(good && nPaths > 0, name, p.Pos(fn.Pos()), "save-then-incr:"+s.T.Obj().Name(), fmt.Sprintf("%d path(s): save (nil) then increment, or one transaction", nPaths), why)
	}
}

// ---- R7 -------------------------------------------------------------------------------

func c16R7(c *Ctx) {
	p := c.P
	pkgs := map[string]bool{}
	for _, s := range getStores(p) {
		pkgs[s.T.Obj().Pkg().Path()] = true
	}
	for pk := range pkgs {
		if pk == modPath {
			continue // memory store: no I/O
		}
		for _, fn := range p.FuncsIn(pk) {
			for _, cl := range Calls(fn) {
				cc := cl.Common()
				sig := cc.Signature()
				if sig.Results().Len() == 0 || !isErrorType(sig.Results().At(sig.Results().Len()-1).Type()) {
					continue
				}
				if !p.touchesMedium(cc, 0) {
					continue
				}
				name := FuncName(fn)
				pos := p.InstrPos(cl)
				n := callName(cc)
				v, isVal := cl.(ssa.Value)
				if _, isDefer := cl.(*ssa.Defer); isDefer || !isVal {
					ok := strings.HasSuffix(n, ").Rollback") || strings.HasSuffix(n, ").Close")
					c.Check(ok, name, pos, "deferred:"+n, "deferred "+n+" (tabulated idiom)", "error of deferred "+n+" is dropped")
					continue
				}
				// is the error result used?
				used := false
				errIdx := sig.Results().Len() - 1
				if sig.Results().Len() == 1 {
					used = len(*v.Referrers()) > 0
				} else {
					for _, r := range *v.Referrers() {
						if ex, ok := r.(*ssa.Extract); ok && ex.Index == errIdx && len(*ex.Referrers()) > 0 {
							used = true
						}
					}
				}
				if !used && (strings.HasSuffix(n, ").Close") || strings.HasSuffix(n, ").Rollback")) && (fn.Parent() != nil || fnName(fn) == "Close") {
					c.OK(name, pos, "Close at shutdown / inside a deferred closure (tabulated idiom: no store state depends on it)")
					continue
				}
				c.Check(used, name, pos, "dropped:"+n, "error of "+n+" is checked", "the error returned by "+n+" is dropped: the store would report success for an operation the medium refused")
			}
		}
	}
}

// C16-R9: a query cursor is closed on every path. After a successful Query every return of the
// function is preceded by rows.Close() or a deferred one; a cursor left open on the path where the
// iteration callback aborts keeps its connection (and, on SQLite, a read lock that makes every
// later write of the store fail).
func c16R9(c *Ctx) {
	p := c.P
	n := 0
	isCursor := func(t types.Type) bool {
		tn := typeName(t)
		return tn == "Rows" || tn == "Cursor"
	}
	for _, s := range getStores(p) {
		if s.Kind != "sql" && s.Kind != "mongo" {
			continue
		}
		for _, fn := range s.method {
			if fn == nil {
				continue
			}
			for _, f := range WithClosures(fn) {
				for _, cl := range Calls(f) {
					sig := cl.Common().Signature()
					if sig.Results().Len() < 1 || !isCursor(sig.Results().At(0).Type()) {
						continue
					}
					n++
					mf := &MustFlow{Fn: f}
					mf.Transfer = func(in ssa.Instruction, st Set) {
						if df, ok := in.(*ssa.Defer); ok {
							if mc, ok := df.Call.Value.(*ssa.MakeClosure); ok {
								if cf, ok := mc.Fn.(*ssa.Function); ok {
									for _, c3 := range Calls(cf) {
										nm := callName(c3.Common())
										if (strings.HasSuffix(nm, ".Close") || strings.HasSuffix(nm, ").Close")) && len(c3.Common().Args) > 0 && isCursor(c3.Common().Args[0].Type()) {
											st["closed"] = true
										}
									}
								}
							}
						}
						if c2, ok := in.(ssa.CallInstruction); ok {
							nm := callName(c2.Common())
							if strings.HasSuffix(nm, ".Close") || strings.HasSuffix(nm, ").Close") {
								if len(c2.Common().Args) > 0 && isCursor(c2.Common().Args[0].Type()) {
									st["closed"] = true
								}
							}
						}
					}
					okAll := true
					for r, st := range mf.AtReturns() {
						// only returns after the query succeeded
						if !InstrDominates(cl.(ssa.Instruction), r) {
							continue
						}
						d := p.ReachCond(r.Block())
						if !d.Implies(nilErrAtomFor(cl.(ssa.Instruction))) {
							continue
						}
						if !st["closed"] {
							okAll = false
							c.Violation(FuncName(f), p.InstrPos(r), "cursor-not-closed", "the cursor obtained at "+p.InstrPos(cl.(ssa.Instruction))+" is not closed on this return (no Close call or deferred Close precedes it): when the iteration is cut short the cursor keeps its connection and the store's later writes fail or block")
						}
					}
					if okAll {
						c.OK(FuncName(f), p.InstrPos(cl.(ssa.Instruction)), "cursor closed on every return after a successful query")
					}
				}
			}
		}
	}
	if n == 0 {
		c.Violation("", "-", "no-cursors", "no store method obtains a query cursor")
	}
}
