package main

import (
	"fmt"
	"go/types"
	"regexp"
	"strconv"
	"strings"

	"golang.org/x/tools/go/ssa"
)

func init() { register("C17", propC17) }

func propC17() Property {
	return Property{
		ID: "C17",
		Explanation: "Ordering rules on every path of the persistent stores' write operations. R1: the file store increments the outbound counter only after SaveMessage returned nil. " +
			"R2: file SaveMessage returns nil only after the message bytes AND the header (index) line were written with their errors checked, the bytes BEFORE the index line (a process death in between must leave unreferenced bytes, not an index entry without bytes), and — when syncing is enabled — after both files were synced, the body file before the header file. " +
			"R3: counter files are rewritten by seek-to-start → write → (sync), errors checked, with a zero-padded fixed-width format of at least 19 digits so that a shorter number never leaves stale trailing digits. " +
			"R4: SQL save-and-increment runs both statements on one transaction, commits only when both succeeded, leaves through Commit or Rollback on every exit after Begin, and updates the cache only after Commit returned nil. R5: no store I/O error is dropped (shared with C16-R7). R6: the file store's loader never turns a read or parse failure of a counter/session file's content into an error of the open — those files are created empty before their first write and a rewrite can be cut short, and reopening must succeed with the default value. R7: the session persists an outgoing message only through the store's save-and-increment, never through a separate SaveMessage and increment (a transactional store can only make the pair atomic when it is asked for the pair).",
		NotDecided: "torn writes inside one write call, what the filesystem persists across power loss beyond the sync order, recovery after reopen as a behaviour over crash points.",
		Rules: []RuleDef{
			{ID: "C17-R1", Desc: "file: save before increment", Min: 1, Run: c17R1},
			{ID: "C17-R2", Desc: "file SaveMessage: data, then index, then sync data, then sync index", Min: 3, Run: c17R2},
			{ID: "C17-R9", Desc: "the index scan is left only behind the requested range", Min: 1, Run: c17R9},
			{ID: "C17-R8", Desc: "each stored message is read at the offset its index line records", Min: 1, Run: c17R8},
			{ID: "C17-R3", Desc: "counter rewrite: seek → fixed-width write → sync", Min: 3, Run: c17R3},
			{ID: "C17-R4", Desc: "sql save-and-increment is one transaction; cache after commit", Min: 4, Run: c17R4},
			{ID: "C17-R5", Desc: "no store I/O error dropped", Min: 20, Run: c16R7},
			{ID: "C17-R6", Desc: "file store: the loader tolerates empty / torn counter and session files", Min: 1, Run: c17R6},
			{ID: "C17-R7", Desc: "the session persists only through the store's save-and-increment", Min: 1, Run: c17R7},
		},
	}
}

func storeOfKind(p *Prog, kind string) *storeImpl {
	for _, s := range getStores(p) {
		if s.Kind == kind {
			return s
		}
	}
	anchorFail("store implementation of kind %s", kind)
	return nil
}

func c17R1(c *Ctx) {
	p := c.P
	s := storeOfKind(p, "file")
	fn := s.method["SaveMessageAndIncrNextSenderMsgSeqNum"]
	save, incr := s.method["SaveMessage"], s.method["IncrNextSenderMsgSeqNum"]
	name := FuncName(fn)
	n := 0
	for _, cl := range Calls(fn) {
		if cl.Common().StaticCallee() != incr {
			continue
		}
		n++
		d := p.ReachCond(cl.Block())
		ok := false
		for _, sc := range Calls(fn) {
			if sc.Common().StaticCallee() == save && InstrDominates(sc, cl) && d.Implies(nilErrAtomFor(sc.(ssa.Instruction))) {
				ok = true
			}
		}
		c.Check(ok, name, p.InstrPos(cl), "incr-after-save", "outbound counter incremented only after SaveMessage returned nil", "the outbound counter is incremented without SaveMessage having returned nil before: after a crash the counter can be ahead of the stored messages")
	}
	if n == 0 {
		c.Violation(name, p.Pos(fn.Pos()), "no-incr", "file SaveMessageAndIncr never increments the counter through IncrNextSenderMsgSeqNum")
	}
}

// fileRoleOf: "body" for the file that receives the message bytes, "header" for the index file.
type fileOp struct {
	in   ssa.Instruction
	kind string // write | sync | seek
	file *types.Var
}

func (p *Prog) fileOps(fn *ssa.Function) []fileOp {
	var out []fileOp
	ForEachInstr(fn, func(in ssa.Instruction) {
		cl, ok := in.(ssa.CallInstruction)
		if !ok {
			return
		}
		if _, isDefer := in.(*ssa.Defer); isDefer {
			return
		}
		cc := cl.Common()
		n := callName(cc)
		fileArg := func(i int) *types.Var {
			if i >= len(cc.Args) {
				return nil
			}
			o := p.Origin(cc.Args[i])
			if o.Kind == "field" && typeName(o.Field.Type()) == "File" {
				return o.Field
			}
			return nil
		}
		switch {
		case n == "(*os.File).Write" || n == "(*os.File).WriteString":
			out = append(out, fileOp{in, "write", fileArg(0)})
		case n == "fmt.Fprintf" || n == "fmt.Fprint" || n == "fmt.Fprintln":
			if f := fileArg(0); f != nil {
				out = append(out, fileOp{in, "write", f})
			} else if o := p.Origin(cc.Args[0]); o.Kind == "param" && typeName(o.Val.Type()) == "File" {
				out = append(out, fileOp{in, "write", nil})
			}
		case n == "(*os.File).Sync":
			out = append(out, fileOp{in, "sync", fileArg(0)})
		case n == "(*os.File).Seek":
			out = append(out, fileOp{in, "seek", fileArg(0)})
		}
	})
	return out
}

func c17R2(c *Ctx) {
	p := c.P
	s := storeOfKind(p, "file")
	fn := s.method["SaveMessage"]
	name := FuncName(fn)
	ops := p.fileOps(fn)
	// roles: body = write whose data argument is the message parameter; header = the other written file
	var body, header *types.Var
	for _, op := range ops {
		if op.kind != "write" {
			continue
		}
		cc := op.in.(ssa.CallInstruction).Common()
		if callName(cc) == "(*os.File).Write" && p.Origin(cc.Args[1]).Kind == "param" {
			body = op.file
		} else if op.file != nil {
			header = op.file
		}
	}
	if body == nil || header == nil || body == header {
		c.Undecided(name, p.Pos(fn.Pos()), "file-roles", "could not identify the body file (receives the message parameter) and the header file")
		return
	}
	// the sync helper (or inline syncs): collect order of syncs reachable on a path, inlining one level
	syncSeq := func(in ssa.Instruction) []*types.Var {
		cl, ok := in.(ssa.CallInstruction)
		if !ok {
			return nil
		}
		cal := cl.Common().StaticCallee()
		if cal == nil || !p.InModule(cal) || cal == fn {
			return nil
		}
		// all nil-returning paths of the helper must sync; take the sequence of the longest path
		var best []*types.Var
		EnumPaths(cal, 64, func(pa Path) {
			var seq []*types.Var
			for _, b := range pa.Blocks {
				for _, x := range b.Instrs {
					for _, op := range p.fileOps(cal) {
						if op.in == x && op.kind == "sync" {
							seq = append(seq, op.file)
						}
					}
				}
			}
			last := pa.Blocks[len(pa.Blocks)-1]
			r := last.Instrs[len(last.Instrs)-1].(*ssa.Return)
			if len(r.Results) == 1 && p.Origin(r.Results[0]).IsNil() {
				if best == nil || len(seq) < len(best) {
					best = seq
				}
			}
		})
		return best
	}
	fSync := func(a *Atom) bool {
		return a.Rel == "" && a.Val && a.B.Kind == "field" && strings.Contains(strings.ToLower(cn(a.B.Field)), "sync")
	}
	nNil := 0
	okAll := true
	report := func(construct, msg string) {
		okAll = false
		c.Violation(name, p.Pos(fn.Pos()), construct, msg)
	}
	EnumPaths(fn, 1024, func(pa Path) {
		last := pa.Blocks[len(pa.Blocks)-1]
		r := last.Instrs[len(last.Instrs)-1].(*ssa.Return)
		if len(r.Results) != 1 {
			return
		}
		ro := p.Origin(r.Results[0])
		// success paths: returns nil, or returns the sync helper's result
		isNil := ro.IsNil()
		viaHelper := ro.Kind == "call" && ro.Callee != nil && len(syncSeq(ro.CallI)) > 0
		if !isNil && !viaHelper {
			return
		}
		nNil++
		cond := p.PathCond(pa)
		var events []string // "wB","wH","sB","sH"
		var writes []ssa.Instruction
		for _, b := range pa.Blocks {
			for _, in := range b.Instrs {
				for _, op := range ops {
					if op.in != in {
						continue
					}
					switch {
					case op.kind == "write" && op.file == body:
						events = append(events, "wB")
						writes = append(writes, in)
					case op.kind == "write" && op.file == header:
						events = append(events, "wH")
						writes = append(writes, in)
					case op.kind == "sync" && op.file == body:
						events = append(events, "sB")
					case op.kind == "sync" && op.file == header:
						events = append(events, "sH")
					}
				}
				for _, f := range syncSeq(in) {
					if f == body {
						events = append(events, "sB")
					} else if f == header {
						events = append(events, "sH")
					}
				}
			}
		}
		idx := func(e string) int {
			for i, x := range events {
				if x == e {
					return i
				}
			}
			return -1
		}
		if idx("wB") < 0 || idx("wH") < 0 {
			report("write-missing", fmt.Sprintf("a success path of SaveMessage performs %v: it must write both the message bytes and the header entry", events))
			return
		}
		for _, w := range writes {
			if !cond.Implies(nilErrAtomFor(w)) {
				report("write-error-unchecked", "SaveMessage can return success on a path where the error of a file write was not checked")
				return
			}
		}
		if idx("wB") > idx("wH") {
			report("index-before-data", "the header (index) line is written before the message bytes: a process death between the two writes leaves an index entry whose bytes were never written; after restart the same number is saved again at that offset and iteration returns torn bytes for the stale entry")
		}
		notSync := func(a *Atom) bool {
			return a.Rel == "" && !a.Val && a.B.Kind == "field" && strings.Contains(strings.ToLower(cn(a.B.Field)), "sync")
		}
		_ = fSync
		if !cond.Implies(notSync) {
			if idx("sB") < 0 || idx("sH") < 0 {
				report("sync-missing", fmt.Sprintf("with syncing enabled a success path syncs %v: both the body and the header file must be synced", events))
				return
			}
			if idx("sB") < idx("wB") || idx("sH") < idx("wH") || idx("sB") < idx("wH") && false {
				report("sync-before-write", "a file is synced before it is written")
			}
			if idx("sB") > idx("sH") {
				report("sync-order", "the header file is synced before the body file: after power loss the index can be durable while the bytes it points at are not")
			}
		}
	})
	// append position: both files are positioned at their END before writing, and the offset
	// recorded in the index is the body file's end position
	for _, op := range ops {
		if op.kind != "seek" || (op.file != body && op.file != header) {
			continue
		}
		cc := op.in.(ssa.CallInstruction).Common()
		off, okO := constIntOf(cc.Args[1])
		wh, okW := constIntOf(cc.Args[2])
		if !(okO && okW && off == 0 && wh == 2) {
			okAll = false
			c.Violation(name, p.InstrPos(op.in), "append-position:"+op.file.Name(), fmt.Sprintf("the %s is positioned with Seek(%d, whence %d) before the append; it must be Seek(0, io.SeekEnd): after a reopen the file position is 0 and new messages would overwrite the oldest stored ones while the index still points at them", op.file.Name(), off, wh))
		}
	}
	// each of the two files is positioned at its end before it is written
	for _, f := range []*types.Var{body, header} {
		for _, w := range ops {
			if w.kind != "write" || w.file != f {
				continue
			}
			pos := false
			for _, sk := range ops {
				if sk.kind == "seek" && sk.file == f && InstrDominates(sk.in, w.in) {
					pos = true
				}
			}
			if !pos {
				okAll = false
				c.Violation(name, p.InstrPos(w.in), "append-position-missing:"+f.Name(), "the "+f.Name()+" is written without having been positioned at its end first: within one open/close cycle the position happens to be at the end, but after a reopen (restart, Refresh) it is 0 and the write overwrites the oldest entries")
			}
		}
	}
	for _, op := range ops {
		if op.kind == "write" && op.file == header {
			cc := op.in.(ssa.CallInstruction).Common()
			// fmt.Fprintf(header, "%d,%d,%d\n", seq, offset, len): the offset argument is the body Seek's result
			found := false
			if len(cc.Args) >= 3 {
				if sl, ok := cc.Args[2].(*ssa.Slice); ok {
					if al, ok := sl.X.(*ssa.Alloc); ok {
						for _, e := range varargsElems(al) {
							if e == nil {
								continue
							}
							eo := p.Origin(e)
							if eo.IsCallTo("(*os.File).Seek") && eo.Recv != nil && eo.Recv.Kind == "field" && eo.Recv.Field == body {
								found = true
							}
						}
					}
				}
			}
			if !found {
				okAll = false
				c.Violation(name, p.InstrPos(op.in), "index-offset", "the offset written into the index line is not the end position of the body file returned by its Seek")
			}
		}
	}
	if nNil == 0 {
		c.Violation(name, p.Pos(fn.Pos()), "no-success-path", "SaveMessage has no success path")
		return
	}
	if okAll {
		c.OK(name, p.Pos(fn.Pos()), fmt.Sprintf("%d success path(s): write bytes → write index (errors checked) → sync body → sync header when syncing", nNil))
		c.OK(name, p.Pos(fn.Pos()), "body file = "+body.Name()+", header file = "+header.Name())
		c.OK(name, p.Pos(fn.Pos()), "data-before-index order holds")
	}
}

var reVerb = regexp.MustCompile(`%(0?)(\d*)d`)

func c17R3(c *Ctx) {
	p := c.P
	s := storeOfKind(p, "file")
	// counter writers: functions of the package (not SaveMessage) that seek to start and write
	n := 0
	for _, fn := range p.FuncsIn(s.T.Obj().Pkg().Path()) {
		if fn == s.method["SaveMessage"] || fn == s.method["IterateMessages"] {
			continue
		}
		ops := p.fileOps(fn)
		hasSeek, hasWrite := false, false
		for _, op := range ops {
			if op.kind == "seek" {
				hasSeek = true
			}
			if op.kind == "write" {
				hasWrite = true
			}
		}
		// setSeqNum takes the file as a parameter: detect Seek/Fprintf/Sync on a *os.File parameter
		var seq []string
		var instrs []ssa.Instruction
		ForEachInstr(fn, func(in ssa.Instruction) {
			cl, ok := in.(ssa.CallInstruction)
			if !ok {
				return
			}
			switch callName(cl.Common()) {
			case "(*os.File).Seek":
				seq = append(seq, "seek")
				instrs = append(instrs, in)
			case "fmt.Fprintf", "fmt.Fprint", "fmt.Fprintln", "(*os.File).Write", "(*os.File).WriteString", "io.WriteString":
				seq = append(seq, "write")
				instrs = append(instrs, in)
			case "(*os.File).Sync":
				seq = append(seq, "sync")
				instrs = append(instrs, in)
			}
		})
		_ = hasSeek
		_ = hasWrite
		if len(seq) == 0 || !containsStr(seq, "seek") || !containsStr(seq, "write") {
			continue
		}
		n++
		name := FuncName(fn)
		okOrder := len(seq) == 3 && seq[0] == "seek" && seq[1] == "write" && seq[2] == "sync"
		if okOrder {
			for i := 0; i+1 < len(instrs); i++ {
				if !InstrDominates(instrs[i], instrs[i+1]) {
					okOrder = false
				}
			}
			// seek to (0, SeekStart)
			sk := instrs[0].(ssa.CallInstruction).Common()
			if !(p.Origin(sk.Args[1]).IsConstInt(0) && p.Origin(sk.Args[2]).IsConstInt(0)) {
				okOrder = false
			}
			// write and seek errors checked: later ops guarded by nil
			for i := 0; i < 2; i++ {
				if !p.ReachCond(instrs[i+1].Block()).Implies(nilErrAtomFor(instrs[i])) {
					okOrder = false
				}
			}
			// sync under the sync flag, and the nil return after it requires sync nil
			d := p.ReachCond(instrs[2].Block())
			if !d.Implies(func(a *Atom) bool {
				return a.Rel == "" && a.Val && a.B.Kind == "field" && strings.Contains(strings.ToLower(cn(a.B.Field)), "sync")
			}) {
				okOrder = false
			}
		}
		c.Check(okOrder, name, p.Pos(fn.Pos()), "rewrite-order", "Seek(0,start) → write → Sync (when enabled), each error checked", fmt.Sprintf("counter/session file rewrite performs %v; expected seek-to-start, write, sync (under the sync flag) with every error checked before the next step", seq))
		// fixed width
		wr := instrs[1].(ssa.CallInstruction).Common()
		if callName(wr) == "fmt.Fprintf" {
			f, _ := p.Origin(wr.Args[1]).ConstStringVal()
			m := reVerb.FindStringSubmatch(f)
			w := 0
			if m != nil {
				w, _ = strconv.Atoi(m[2])
			}
			c.Check(m != nil && m[1] == "0" && w >= 19, name, p.InstrPos(instrs[1]), "fixed-width", "counter written as "+f+" (zero padded, width >= 19)", "counter is written with format "+strconv.Quote(f)+": without zero padding to a fixed width (>= 19 digits) a smaller number rewritten over a larger one leaves stale trailing digits, and the reloaded counter is wrong")
			} else if fn.Signature.Params().Len() >= 2 {
			// a counter writer (file and number are parameters) that writes the number through something
			// other than a fixed-width format: what it writes must be shown to have a fixed width
			isInt := false
			for i := 0; i < fn.Signature.Params().Len(); i++ {
				if b, ok := fn.Signature.Params().At(i).Type().Underlying().(*types.Basic); ok && b.Info()&types.IsInteger != 0 {
					isInt = true
				}
			}
			if isInt {
				c.Violation(name, p.InstrPos(instrs[1]), "fixed-width", "the counter is written with "+callName(wr)+", not with a zero-padded fixed-width format: the file is rewritten in place and never truncated, so a number with fewer digits written over a longer one leaves stale trailing digits and the reloaded counter is wrong")
			}
		}
	}
	if n == 0 {
		c.Violation("", "-", "no-counter-writer", "no function rewrites a counter file by seek + write")
	}
}

func containsStr(ss []string, s string) bool {
	for _, x := range ss {
		if x == s {
			return true
		}
	}
	return false
}

func c17R4(c *Ctx) {
	p := c.P
	s := storeOfKind(p, "sql")
	fn := s.method["SaveMessageAndIncrNextSenderMsgSeqNum"]
	name := FuncName(fn)
	var begin, commit ssa.CallInstruction
	var execs []ssa.CallInstruction
	deferRollback := false
	for _, cl := range Calls(fn) {
		n := callName(cl.Common())
		switch {
		case strings.HasSuffix(n, "sql.DB).Begin") || strings.HasSuffix(n, "sql.DB).BeginTx"):
			begin = cl
		case strings.HasSuffix(n, "sql.Tx).Commit"):
			commit = cl
		case strings.HasSuffix(n, "sql.Tx).Exec"):
			execs = append(execs, cl)
		case strings.HasSuffix(n, "sql.DB).Exec"):
			c.Violation(name, p.InstrPos(cl), "exec-outside-tx", "a statement of save-and-increment is executed on the connection pool, not on the transaction: a failure of the other statement would not roll it back")
		case strings.HasSuffix(n, "sql.Tx).Rollback"):
			if _, isDefer := cl.(*ssa.Defer); isDefer {
				deferRollback = true
			}
		}
		// defer func() { _ = tx.Rollback() }()
		if df, isDefer := cl.(*ssa.Defer); isDefer {
			if mc, ok := df.Call.Value.(*ssa.MakeClosure); ok {
				for _, c2 := range Calls(mc.Fn.(*ssa.Function)) {
					if strings.HasSuffix(callName(c2.Common()), "sql.Tx).Rollback") {
						deferRollback = true
					}
				}
			}
		}
	}
	// statements executed by a helper that is handed the transaction (a block extracted from this function)
	type helperUse struct {
		call  ssa.CallInstruction
		execs []ssa.CallInstruction
		ok    bool // the helper returns a nil error only when all its statements returned nil
	}
	var helpers []helperUse
	if begin != nil {
		for _, cl := range Calls(fn) {
			cal := cl.Common().StaticCallee()
			if cal == nil || !p.InModule(cal) || cal.Blocks == nil {
				continue
			}
			txParam := -1
			for i, a := range cl.Common().Args {
				if o := p.Origin(a); o.Kind == "call" && o.CallI == begin.(ssa.Instruction) && o.Res == 0 {
					txParam = i
				}
			}
			if txParam < 0 || txParam >= len(cal.Params) {
				continue
			}
			hu := helperUse{call: cl, ok: true}
			for _, c2 := range Calls(cal) {
				n2 := callName(c2.Common())
				if strings.HasSuffix(n2, "sql.Tx).Exec") && c2.Common().Args[0] == ssa.Value(cal.Params[txParam]) {
					hu.execs = append(hu.execs, c2)
				}
				if strings.HasSuffix(n2, "sql.DB).Exec") {
					c.Violation(FuncName(cal), p.InstrPos(c2), "exec-outside-tx", "a statement of save-and-increment is executed on the connection pool, not on the transaction")
				}
			}
			if len(hu.execs) == 0 {
				continue
			}
			for _, b := range cal.Blocks {
				r, isRet := b.Instrs[len(b.Instrs)-1].(*ssa.Return)
				if !isRet || len(r.Results) == 0 || !isErrorType(r.Results[len(r.Results)-1].Type()) || !p.possibleSuccess(r) {
					continue
				}
				d := p.ReachCond(b)
				for _, e := range hu.execs {
					if !d.Implies(nilErrAtomFor(e.(ssa.Instruction))) {
						hu.ok = false
					}
				}
			}
			helpers = append(helpers, hu)
		}
	}
	if begin == nil || commit == nil {
		c.Violation(name, p.Pos(fn.Pos()), "no-transaction", "SQL save-and-increment does not run inside Begin … Commit: a failure of either statement can leave the message without the increment or the increment without the message")
		return
	}
	c.OK(name, p.InstrPos(begin), "transaction begun")
	// both statements: one INSERT into messages, one UPDATE of the outbound counter; on the tx from Begin
	var kinds []string
	for _, e := range execs {
		txt := strings.ToUpper(strings.TrimSpace(p.stmtTextOfArg(e.Common().Args[1])))
		switch {
		case strings.HasPrefix(txt, "INSERT"):
			kinds = append(kinds, "insert")
		case strings.HasPrefix(txt, "UPDATE") && strings.Contains(txt, "OUTGOING_SEQNUM"):
			kinds = append(kinds, "update-sender")
		default:
			kinds = append(kinds, "other")
		}
		ro := p.Origin(e.Common().Args[0])
		if !(ro.Kind == "call" && ro.CallI == begin.(ssa.Instruction)) {
			c.Violation(name, p.InstrPos(e), "exec-other-tx", "statement executed on a transaction other than the one begun here")
		}
	}
	for _, hu := range helpers {
		for _, e := range hu.execs {
			txt := strings.ToUpper(strings.TrimSpace(p.stmtTextOfArg(e.Common().Args[1])))
			switch {
			case strings.HasPrefix(txt, "INSERT"):
				kinds = append(kinds, "insert")
			case strings.HasPrefix(txt, "UPDATE") && strings.Contains(txt, "OUTGOING_SEQNUM"):
				kinds = append(kinds, "update-sender")
			default:
				kinds = append(kinds, "other")
			}
		}
	}
	c.Check(len(kinds) == 2 && containsStr(kinds, "insert") && containsStr(kinds, "update-sender"), name, p.Pos(fn.Pos()), "tx-statements", "INSERT message and UPDATE outgoing_seqnum both on the transaction", fmt.Sprintf("transaction executes %v; expected the message INSERT and the outbound-counter UPDATE", kinds))
	// commit only when both execs nil
	d := p.ReachCond(commit.Block())
	okCommit := true
	for _, e := range execs {
		if !d.Implies(nilErrAtomFor(e.(ssa.Instruction))) {
			okCommit = false
		}
	}
	for _, hu := range helpers {
		if !hu.ok || !d.Implies(nilErrAtomFor(hu.call.(ssa.Instruction))) {
			okCommit = false
		}
	}
	c.Check(okCommit && len(execs)+len(helpers) > 0, name, p.InstrPos(commit), "commit-guard", "Commit only after both statements returned nil", "Commit is reachable although a statement failed (or its error was not checked): a partial save-and-increment would be committed")
	// every exit after Begin passes Commit or Rollback
	c.Check(deferRollback || allExitsPass(p, fn, begin, commit), name, p.InstrPos(begin), "tx-closed", "every exit after Begin passes Commit or (deferred) Rollback", "an exit after Begin leaves the transaction open (neither Commit nor Rollback)")
	// cache update after commit nil, with the value written by the UPDATE
	n := 0
	for _, cl := range s.cacheCalls(p, fn) {
		m := cn(cl.Common().Method)
		if !strings.HasPrefix(m, "SetNext") && !strings.HasPrefix(m, "IncrNext") {
			continue
		}
		n++
		dd := p.ReachCond(cl.Block())
		c.Check(dd.Implies(nilErrAtomFor(commit.(ssa.Instruction))) && dirOf(m) == "sender", name, p.InstrPos(cl), "cache-after-commit", "cache counter updated only after Commit returned nil", "the cached outbound counter is updated although Commit is not known to have succeeded: after a failed commit the engine would skip a number the database never recorded")
	}
	if n == 0 {
		c.Violation(name, p.Pos(fn.Pos()), "no-cache-update", "the cached outbound counter is not updated after the transaction")
	}
}

func allExitsPass(p *Prog, fn *ssa.Function, begin, commit ssa.CallInstruction) bool {
	ok := true
	EnumPaths(fn, 512, func(pa Path) {
		after, closed := false, false
		for _, b := range pa.Blocks {
			for _, in := range b.Instrs {
				if in == begin.(ssa.Instruction) {
					after = true
				}
				if cl, isC := in.(ssa.CallInstruction); isC && after {
					n := callName(cl.Common())
					if strings.HasSuffix(n, ").Commit") || strings.HasSuffix(n, ").Rollback") {
						closed = true
					}
				}
			}
		}
		if after && !closed {
			// the Begin-error exit is fine
			if !p.PathCond(pa).Implies(func(a *Atom) bool {
				return a.Rel == "!=" && a.R.IsNil() && a.L.Kind == "call" && a.L.CallI == begin.(ssa.Instruction)
			}) {
				ok = false
			}
		}
	})
	return ok
}

// C17-R6: reopening succeeds on whatever a crash left behind. The counter and session files are
// created empty before their first write, and a rewrite can be cut short; the file store's loader
// must therefore treat an unreadable or unparsable file as "keep the default" and never turn a
// read/parse failure of the medium's content into an error of the open.
func c17R6(c *Ctx) {
	p := c.P
	parseFns := map[string]bool{"strconv.Atoi": true, "strconv.ParseInt": true, "(*time.Time).UnmarshalText": true, "os.ReadFile": true, "io/ioutil.ReadFile": true, "fmt.Sscanf": true, "fmt.Fscanf": true}
	n := 0
	for _, s := range getStores(p) {
		if s.Kind != "file" {
			continue
		}
		for _, fn := range p.FuncsIn(fnPkg(s.method["Refresh"]).Pkg.Path()) {
			if !p.isLoader(fn) {
				continue
			}
			n++
			okAll := true
			for _, b := range fn.Blocks {
				r, ok := b.Instrs[len(b.Instrs)-1].(*ssa.Return)
				if !ok || len(r.Results) == 0 || !isErrorType(r.Results[len(r.Results)-1].Type()) || p.Origin(r.Results[len(r.Results)-1]).IsNil() {
					continue
				}
				d := p.ReachCond(b)
				for _, a := range d.Atoms() {
					if a.Rel != "!=" {
						continue
					}
					l, rr := a.L, a.R
					if !rr.IsNil() {
						l, rr = rr, l
					}
					if rr.IsNil() && l.Kind == "call" && parseFns[l.CalleeName()] && d.Implies(func(x *Atom) bool { return x == a || x.ID() == a.ID() }) {
						okAll = false
						c.Violation(FuncName(fn), p.InstrPos(r), "open-fails-on-torn-file", "the loader returns an error because "+a.String()+": a counter or session file that a crash left empty or half-written (it is created before its first write) makes every later open of the store fail, instead of falling back to the default value")
					}
				}
			}
			if okAll {
				c.OK(FuncName(fn), p.Pos(fn.Pos()), "read/parse failures of the medium's content are not turned into errors")
			}
		}
	}
	if n == 0 {
		c.Violation("", "-", "no-file-loader", "the file store's loader was not found")
	}
}
