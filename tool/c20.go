package main

import (
	"fmt"
	"go/token"
	"go/types"
	"strings"

	"golang.org/x/tools/go/ssa"
)

func init() { register("C20", propC20) }

func propC20() Property {
	return Property{
		ID: "C20",
		Explanation: "R1: every Heartbeat(0) that carries TestReqID(112) takes it from field 112 of the inbound message it replies to; the TestRequest(1) the engine sends carries a TestReqID. R2: every path that reports a successful send re-arms the heartbeat timer with HeartBtInt after the channel send; every re-arm of the peer timer uses 1.2 × HeartBtInt. " +
			"R3 (timeout table, per-path effect traces): in-session NeedHeartbeat → send Heartbeat, state unchanged; PeerTimeout → send TestRequest, re-arm peer timer, next state wraps the current one as pending; pending: PeerTimeout → latent (disconnect), anything else → unchanged and nothing sent. " +
			"R4: the pending wrapper is transparent for inbound messages (it does not define FixMsgIn itself: the wrapped state's handler runs and its result replaces the wrapper) and for recovery tests (C04-R1). R5: the acceptor adopts the peer's HeartBtInt(108) × second only when it is not the initiator and no override is configured. R6: the recovery state's Timeout hands on the in-session handler's result only when it is neither the in-session state nor the pending wrapper; those are replaced by the recovery state itself, resp. by a pending wrapper around it. R7: in the Timeout handlers the branch taken when a keep-alive send failed leaves through the send-failure exit on every path (the one-shot timers are re-armed only by a successful send). R8: the callbacks of the two event timers hand their event to the session loop with a blocking send (no select default).",
		NotDecided: "wall-clock behaviour, timer goroutine scheduling, that timers actually fire; 'nothing sent for the interval' as a measured quantity.",
		Rules: []RuleDef{
			{ID: "C20-R1", Desc: "TestReqID echo binding", Min: 2, Run: c20R1},
			{ID: "C20-R2", Desc: "timer re-arm after send / on inbound", Min: 4, Run: c20R2},
			{ID: "C20-R3", Desc: "timeout → effect table", Min: 5, Run: c20R3},
			{ID: "C20-R4", Desc: "pending wrapper transparency", Min: 2, Run: c20R4},
			{ID: "C20-R5", Desc: "HeartBtInt adoption guard", Min: 1, Run: c20R5},
			{ID: "C20-R6", Desc: "the recovery state's Timeout keeps the recovery state (also inside the pending wrapper)", Min: 3, Run: c20R6},
			{ID: "C20-R7", Desc: "a failed keep-alive send ends the session", Min: 2, Run: c20R7},
			{ID: "C20-R11", Desc: "a TestRequest is answered only after the too-high comparison", Min: 1, Run: c20R11},
			{ID: "C20-R10", Desc: "every inbound frame re-arms the peer timer", Min: 1, Run: c20R10},
			{ID: "C20-R9", Desc: "the answer to a TestRequest does not depend on PossDupFlag", Min: 1, Run: c20R9},
			{ID: "C20-R8", Desc: "timer events are delivered with a blocking send", Min: 2, Run: c20R8},
		},
	}
}

func c20R1(c *Ctx) {
	p := c.P
	t112 := p.Tag("tagTestReqID")
	n := 0
	for _, fn := range p.FuncsIn(modPath) {
		for _, st := range p.setTagCalls(fn, t112) {
			root, _ := st.recv.FieldPath()
			if root == nil || !root.IsCallTo("NewMessage") {
				continue
			}
			n++
			name := FuncName(fn)
			pos := p.InstrPos(st.call)
			ts, ok := p.msgTypesOf(root.Val, 0)
			if !ok || len(ts) != 1 {
				c.Undecided(name, pos, "testreqid-msgtype", fmt.Sprintf("message carrying TestReqID has unresolved type %v", ts))
				continue
			}
			vo := p.Origin(st.val)
			switch ts[0] {
			case "0":
				// value = out-param of GetField(112) on a parameter message
				var src *Org
				okV := vo.All(func(x *Org) bool {
					if (x.Kind == "outarg" || x.Kind == "call") && x.IsCallTo("(FieldMap).GetField", "(FieldMap).GetString", "(FieldMap).GetBytes") && x.ArgConstInt(0, t112) {
						r, _ := x.Recv.FieldPath()
						if r != nil && (r.Kind == "param" || r.Kind == "deref" && r.Base.Kind == "param") {
							src = r
							return true
						}
					}
					return false
				})
				// sent in reply to the same inbound message
				replyOK := false
				for _, cl := range Calls(fn) {
					cc := cl.Common()
					cal := cc.StaticCallee()
					if cal == nil || !strings.Contains(cal.Name(), "InReplyTo") && fnName(cal) != "send" {
						continue
					}
					for i, a := range cc.Args {
						if ao := p.Origin(a); ao.IsCallTo("NewMessage") && ao.CallI == root.CallI {
							// find the in-reply-to argument: another *Message argument
							for j, b := range cc.Args {
								if j != i && j > 0 && src != nil && p.Origin(b).String() == src.String() {
									replyOK = true
								}
							}
						}
					}
				}
				c.Check(okV && replyOK, name, pos, "heartbeat-echo", "Heartbeat TestReqID(112) ← field 112 of the inbound message, sent in reply to it",
					"a Heartbeat carries TestReqID from "+vo.String()+fmt.Sprintf(" (reply-to same message: %v): the peer's TestRequest would not be answered with its own id", replyOK))
			case "1":
				s, isC := vo.ConstStringVal()
				c.Check(isC && s != "" || vo.Kind != "const", name, pos, "testrequest-id", "TestRequest carries a non-empty TestReqID", "the TestRequest sent on peer timeout has an empty TestReqID")
			default:
				c.Violation(name, pos, "testreqid-on-"+ts[0], "TestReqID set on a message of type "+ts[0])
			}
		}
	}
	if n == 0 {
		c.Violation("", "-", "no-testreqid", "no function sets TestReqID(112) on an outgoing message")
	}
}

func timerReset(p *Prog, in ssa.Instruction, f *types.Var) (arg *Org, ok bool) {
	cl, isC := in.(ssa.CallInstruction)
	if !isC {
		return nil, false
	}
	cc := cl.Common()
	if !strings.HasSuffix(callName(cc), "EventTimer).Reset") || len(cc.Args) < 2 {
		return nil, false
	}
	if !isFieldOrg(p.Origin(cc.Args[0]), f) {
		return nil, false
	}
	return p.Origin(cc.Args[1]), true
}

func c20R2(c *Ctx) {
	p := c.P
	r := getRoles(p)
	fStateT := p.Field(modPath, "session", "stateTimer")
	fPeerT := p.Field(modPath, "session", "peerTimer")
	fHB := p.Field(modPath+"/internal", "SessionSettings", "HeartBtInt")
	for _, fn := range r.senders {
		name := FuncName(fn)
		okAll := true
		nTrue := 0
		full := EnumPaths(fn, 512, func(pa Path) {
			last := pa.Blocks[len(pa.Blocks)-1]
			ret := last.Instrs[len(last.Instrs)-1].(*ssa.Return)
			if len(ret.Results) != 1 {
				return
			}
			bv, isB := p.Origin(ret.Results[0]).ConstBoolVal()
			if !isB {
				okAll = false
				return
			}
			sent, rearmed := false, false
			for _, b := range pa.Blocks {
				for _, in := range b.Instrs {
					if len(p.sentValues(in, r.fMsgOut)) > 0 {
						sent, rearmed = true, false
					}
					if a, ok := timerReset(p, in, fStateT); ok && sent {
						if isFieldOrg(a, fHB) {
							rearmed = true
						}
					}
				}
			}
			if bv {
				nTrue++
				if !sent || !rearmed {
					okAll = false
				}
			}
		})
		c.Check(full && okAll && nTrue > 0, name, p.Pos(fn.Pos()), "rearm-after-send", fmt.Sprintf("%d success path(s): channel send then stateTimer.Reset(HeartBtInt)", nTrue),
			"a path reports a successful send without sending, or without re-arming the heartbeat timer with HeartBtInt afterwards: heartbeats would be sent too early/late or never")
	}
	// peer timer: all resets use 1.2 × HeartBtInt
	n := 0
	for _, fn := range p.FuncsIn(modPath) {
		ForEachInstr(fn, func(in ssa.Instruction) {
			a, ok := timerReset(p, in, fPeerT)
			if !ok {
				return
			}
			n++
			good := false
			a = p.Inlined(a)
			if a.Kind == "binop" && a.Op == token.MUL {
				for _, pr := range [][2]*Org{{a.X, a.Y}, {a.Y, a.X}} {
					if pr[0].Kind == "const" && pr[0].Const != nil && pr[0].Const.String() == "1.2" && isFieldOrg(pr[1], fHB) {
						good = true
					}
				}
			}
			c.Check(good, FuncName(fn), p.InstrPos(in), "peer-interval", "peerTimer.Reset(1.2 × HeartBtInt)", "the peer timer is armed with "+a.String()+", not 1.2 × HeartBtInt")
		})
	}
	if n < 3 {
		c.Violation("", "-", "peer-reset-sites", fmt.Sprintf("only %d peer-timer re-arm site(s) (expected: on logon, on every inbound message, after sending a TestRequest)", n))
	}
}

// pathEffects summarises one path of a Timeout method.
type toPath struct {
	sentTypes []string
	peerReset bool
	ret       *Org
	retVal    ssa.Value
}

func c20R3(c *Ctx) {
	p := c.P
	fPeerT := p.Field(modPath, "session", "peerTimer")
	w := getWrapInfo(p)
	sendFns := map[string]bool{"(*session).send": true, "(*session).sendInReplyTo": true}
	analyse := func(fn *ssa.Function, visit func(cond DNF, tp toPath)) bool {
		return EnumPaths(fn, 512, func(pa Path) {
			var tp toPath
			for _, b := range pa.Blocks {
				for _, in := range b.Instrs {
					if cl, ok := in.(ssa.CallInstruction); ok {
						if cal := cl.Common().StaticCallee(); cal != nil && sendFns[FuncName(cal)] {
							ts, _ := p.msgTypesOf(cl.Common().Args[1], 0)
							tp.sentTypes = append(tp.sentTypes, strings.Join(ts, "|"))
						} else if cal != nil && p.InModule(cal) && !p.isStateErrorExit(cal) && p.reachesAny(cal, func(f *ssa.Function) bool { return sendFns[FuncName(f)] }) {
							tp.sentTypes = append(tp.sentTypes, "?via "+FuncName(cal))
						}
					}
					if _, ok := timerReset(p, in, fPeerT); ok {
						tp.peerReset = true
					}
				}
			}
			last := pa.Blocks[len(pa.Blocks)-1]
			ret := last.Instrs[len(last.Instrs)-1].(*ssa.Return)
			if len(ret.Results) == 1 {
				tp.ret = p.Origin(ret.Results[0])
				tp.retVal = ret.Results[0]
			}
			visit(p.PathCond(pa), tp)
		})
	}
	evName := func(n string) int64 { return p.ConstInt(modPath+"/internal", n) }
	eventIs := func(cond DNF, ev int64) bool {
		return cond.Implies(func(a *Atom) bool { return a.Rel == "==" && a.L.Kind == "param" && a.R.IsConstInt(ev) })
	}
	errPath := func(cond DNF) bool {
		return cond.Implies(func(a *Atom) bool { return a.Rel == "!=" && a.R.IsNil() && a.L.Kind == "call" })
	}
	needHB, peerTO := evName("NeedHeartbeat"), evName("PeerTimeout")

	// in-session
	ist := p.Method(modPath, "inSession", "Timeout")
	name := FuncName(ist)
	var nHB, nPT, nOther int
	ok := analyse(ist, func(cond DNF, tp toPath) {
		if errPath(cond) {
			return // send failed: handled by the state-error path
		}
		switch {
		case eventIs(cond, needHB):
			nHB++
			good := len(tp.sentTypes) == 1 && tp.sentTypes[0] == "0" && !tp.peerReset && tp.ret != nil && tp.ret.Kind == "param" && tp.ret.Param == 0
			c.Check(good, name, p.Pos(ist.Pos()), "needheartbeat", "NeedHeartbeat → send Heartbeat(0), same state", fmt.Sprintf("NeedHeartbeat path sends %v, peer re-arm=%v, returns %v; expected exactly one Heartbeat and the unchanged state", tp.sentTypes, tp.peerReset, tp.ret))
		case eventIs(cond, peerTO):
			nPT++
			wraps := false
			if mi, isMI := tp.retVal.(*ssa.MakeInterface); isMI && w.isWrapper(mi.X.Type()) {
				// wrapped value is the receiver
				ro := p.Origin(mi.X)
				if ro.Kind == "lit" {
					for _, st := range p.FieldStores(w.field[namedOf(mi.X.Type())]) {
						if st.Fn == ist && p.Origin(st.Store.Val).Kind == "param" && p.Origin(st.Store.Val).Param == 0 {
							wraps = true
						}
					}
				}
			}
			good := len(tp.sentTypes) == 1 && tp.sentTypes[0] == "1" && tp.peerReset && wraps
			c.Check(good, name, p.Pos(ist.Pos()), "peertimeout", "PeerTimeout → send TestRequest(1), re-arm peer timer, state becomes pending{current}", fmt.Sprintf("PeerTimeout path sends %v, peer re-arm=%v, wraps current state=%v; expected one TestRequest, a re-armed peer timer and the pending wrapper around the current state", tp.sentTypes, tp.peerReset, wraps))
		default:
			nOther++
			good := len(tp.sentTypes) == 0 && tp.ret != nil && tp.ret.Kind == "param" && tp.ret.Param == 0
			c.Check(good, name, p.Pos(ist.Pos()), "other-event", "other events → nothing sent, same state", fmt.Sprintf("a path for other timer events sends %v and returns %v", tp.sentTypes, tp.ret))
		}
	})
	if !ok || nHB == 0 || nPT == 0 {
		c.Violation(name, p.Pos(ist.Pos()), "table-incomplete", fmt.Sprintf("in-session timeout handling lacks an arm (NeedHeartbeat paths=%d, PeerTimeout paths=%d)", nHB, nPT))
	}
	// pending
	for _, wn := range w.wrappers {
		pt := p.MethodOf(wn, "Timeout")
		if pt == nil || pt.Synthetic != "" {
			c.Violation(wn.Obj().Name(), "-", "pending-timeout-missing", "the pending wrapper does not define its own Timeout: a second PeerTimeout would be handled by the wrapped state and send another TestRequest instead of disconnecting")
			continue
		}
		pname := FuncName(pt)
		nP := 0
		analyse(pt, func(cond DNF, tp toPath) {
			if eventIs(cond, peerTO) {
				nP++
				isLatent := false
				if mi, isMI := tp.retVal.(*ssa.MakeInterface); isMI && typeName(mi.X.Type()) == "latentState" {
					isLatent = true
				}
				c.Check(isLatent && len(tp.sentTypes) == 0, pname, p.Pos(pt.Pos()), "pending-peertimeout", "pending + PeerTimeout → latent (disconnect), nothing sent", fmt.Sprintf("pending + PeerTimeout sends %v and returns %v; expected a disconnect", tp.sentTypes, tp.ret))
			} else {
				good := len(tp.sentTypes) == 0 && tp.ret != nil && tp.ret.Kind == "param" && tp.ret.Param == 0
				c.Check(good, pname, p.Pos(pt.Pos()), "pending-other", "pending + other event → unchanged, nothing sent (no Heartbeat while a TestRequest is pending)", fmt.Sprintf("pending + other event sends %v and returns %v", tp.sentTypes, tp.ret))
			}
		})
		if nP == 0 {
			c.Violation(pname, p.Pos(pt.Pos()), "pending-no-peertimeout", "pending state has no PeerTimeout arm: a silent peer is never disconnected")
		}
	}
}

func c20R4(c *Ctx) {
	p := c.P
	w := getWrapInfo(p)
	for _, wn := range w.wrappers {
		fm := p.MethodOf(wn, "FixMsgIn")
		if fm == nil {
			c.Violation(wn.Obj().Name(), "-", "no-fixmsgin", "wrapper has no FixMsgIn")
			continue
		}
		if fm.Synthetic != "" {
			c.OK(FuncName(fm), "-", "FixMsgIn is promoted from the wrapped state: an inbound message is handled by it and its result replaces the wrapper (pending disconnect cancelled)")
			continue
		}
		// declared: must return only the wrapped state's result
		okAll := true
		for _, b := range fm.Blocks {
			if r, ok := b.Instrs[len(b.Instrs)-1].(*ssa.Return); ok && len(r.Results) == 1 {
				o := p.Origin(r.Results[0])
				if !o.All(func(x *Org) bool { return x.Kind == "call" && x.Method != nil && cn(x.Method) == "FixMsgIn" }) {
					okAll = false
				}
			}
		}
		c.Check(okAll, FuncName(fm), p.Pos(fm.Pos()), "fixmsgin-delegates", "FixMsgIn returns only the wrapped state's result", "the pending wrapper's FixMsgIn returns something other than the wrapped handler's result: an inbound message would not cancel the pending disconnect or would disturb recovery")
	}
	// recovery tests see through the wrapper: same obligation as C04-R1
	sub := &Ctx{P: p, Prop: c.Prop}
	sub.rule = &RuleResult{ID: c.rule.ID}
	c04R1(sub)
	for _, f := range sub.Findings {
		c.Findings = append(c.Findings, f)
		c.rule.Instances++
		c.rule.Violated++
	}
	c.rule.Instances += sub.rule.Discharged
	c.rule.Discharged += sub.rule.Discharged
	for _, s := range sub.rule.Samples {
		if len(c.rule.Samples) < 6 {
			c.rule.Samples = append(c.rule.Samples, s)
		}
	}
}

func c20R5(c *Ctx) {
	p := c.P
	fHB := p.Field(modPath+"/internal", "SessionSettings", "HeartBtInt")
	t108 := p.Tag("tagHeartBtInt")
	n := 0
	for _, st := range p.FieldStores(fHB) {
		if fnPkg(st.Fn).Pkg.Path() != modPath {
			continue
		}
		// only stores on the session (runtime adoption), not factory configuration
		bo := p.Origin(st.Addr)
		root, _ := bo.FieldPath()
		if root == nil || typeName(root.Val.Type()) != "session" {
			continue
		}
		if strings.Contains(FuncName(st.Fn), "sessionFactory") {
			continue
		}
		n++
		name := FuncName(st.Fn)
		d := p.ReachCond(st.Store.Block())
		notInit := d.Implies(func(a *Atom) bool {
			return a.Rel == "" && !a.Val && a.B.Kind == "field" && cn(a.B.Field) == "InitiateLogon"
		})
		notOver := d.Implies(func(a *Atom) bool {
			return a.Rel == "" && !a.Val && a.B.Kind == "field" && cn(a.B.Field) == "HeartBtIntOverride"
		})
		vo := p.Origin(st.Store.Val)
		valOK := vo.Kind == "binop" && vo.Op == token.MUL && vo.Mentions(func(x *Org) bool {
			return (x.Kind == "outarg" || x.Kind == "call") && x.IsCallTo("(FieldMap).GetField", "(FieldMap).GetInt") && x.ArgConstInt(0, t108)
		}) && vo.Mentions(func(x *Org) bool { n, ok := x.ConstIntVal(); return ok && n == 1000000000 })
		// … and not on the interval adopted earlier: the session object outlives connections
		stale := false
		for _, a := range d.Atoms() {
			for _, side := range []*Org{a.L, a.R, a.B} {
				if side != nil && side.Mentions(func(x *Org) bool { return x.Kind == "field" && x.Field == fHB }) {
					stale = true
				}
			}
		}
		if stale {
			c.Violation(name, p.InstrPos(st.Store), "hbint-adoption-stale", "the peer's HeartBtInt is adopted only under a test of the interval the session already holds ("+clip(d.String(), 200)+"): the session object outlives connections, so the interval of the first Logon sticks and a later Logon announcing a different interval is ignored")
		}
		c.Check(notInit && notOver && valOK, name, p.InstrPos(st.Store), "hbint-adoption", "HeartBtInt ← tag 108 × second, only as acceptor without override",
			fmt.Sprintf("HeartBtInt is overwritten from %s under %s: expected peer's HeartBtInt(108) × time.Second, guarded by ¬InitiateLogon ∧ ¬HeartBtIntOverride", vo.String(), d.String()))
	}
	if n == 0 {
		c.Violation("", "-", "no-adoption", "the acceptor never adopts the HeartBtInt announced in the peer's Logon")
	}
}

// C20-R6: a state that delegates Timeout to the in-session handler (the recovery state) keeps
// itself: the delegate's own result is handed on only when it is neither the in-session state
// nor the pending-timeout wrapper (those two are replaced by the receiver, resp. by a pending
// wrapper around the receiver); otherwise a PeerTimeout during recovery would drop the recovery
// state and its stash, and the inbound message that cancels the pending disconnect would be
// handled by plain in-session, sending a second ResendRequest.
func c20R6(c *Ctx) {
	p := c.P
	inSess := p.Named(modPath, "inSession")
	pend := p.Named(modPath, "pendingTimeout")
	n := 0
	for _, fn := range p.FuncsIn(modPath) {
		if fnName(fn) != "Timeout" || fn.Signature.Recv() == nil || types.Identical(fn.Signature.Recv().Type(), inSess) || types.Identical(fn.Signature.Recv().Type(), pend) {
			continue
		}
		// the delegate call: Timeout of the in-session state
		var del *ssa.Call
		ForEachInstr(fn, func(in ssa.Instruction) {
			if cl, ok := in.(*ssa.Call); ok {
				if cal := cl.Call.StaticCallee(); cal != nil && fnName(cal) == "Timeout" && cal.Signature.Recv() != nil && types.Identical(cal.Signature.Recv().Type(), inSess) {
					del = cl
				}
			}
		})
		if del == nil {
			continue
		}
		name := FuncName(fn)
		for _, b := range fn.Blocks {
			ret, ok := b.Instrs[len(b.Instrs)-1].(*ssa.Return)
			if !ok || len(ret.Results) != 1 {
				continue
			}
			for _, alt := range p.valueAlternatives(ret.Results[0], b, 0) {
				n++
				v := alt.val
				if mi, ok := v.(*ssa.MakeInterface); !ok || mi == nil {
					v = stripConv(alt.val)
				}
				switch x := v.(type) {
				case *ssa.MakeInterface:
					tn := typeName(x.X.Type())
					if tn == "pendingTimeout" {
						// the wrapped state must be the receiver
						okW := false
						{
							// look at the literal's field store
							if ld, isLd := x.X.(*ssa.UnOp); isLd {
								if al, isAl := ld.X.(*ssa.Alloc); isAl {
									for _, ref := range *al.Referrers() {
										if fa, isFA := ref.(*ssa.FieldAddr); isFA {
											for _, r2 := range *fa.Referrers() {
												if st, isSt := r2.(*ssa.Store); isSt && p.Origin(st.Val).Kind == "param" && p.Origin(st.Val).Param == 0 {
													okW = true
												}
											}
										}
									}
								}
							}
						}
						c.Check(okW, name, p.InstrPos(ret), "pending-wraps-receiver", "the pending wrapper wraps the recovering state itself", "the pending-timeout wrapper returned during recovery does not wrap the recovery state: the message that cancels the pending disconnect is handled without the recovery state and its stash")
					} else {
						c.OK(name, p.InstrPos(ret), "returns "+tn)
					}
				default:
					if v == ssa.Value(del) {
						okT := alt.cond.Implies(func(a *Atom) bool {
							return a.Rel == "" && !a.Val && a.B.Kind == "typeassert" && a.B.Res == 1 && types.Identical(a.B.AssTyp, inSess)
						}) && alt.cond.Implies(func(a *Atom) bool {
							return a.Rel == "" && !a.Val && a.B.Kind == "typeassert" && a.B.Res == 1 && types.Identical(a.B.AssTyp, pend)
						})
						c.Check(okT, name, p.InstrPos(ret), "delegate-result-passed-on", "the delegate's result is passed on only when it is neither in-session nor pending-timeout", "the in-session handler's Timeout result is returned as it is under "+alt.cond.String()+": when it is the pending-timeout wrapper (or in-session) the recovery state and its stash are dropped, and the next inbound message triggers a second ResendRequest")
					} else {
						c.OK(name, p.InstrPos(ret), "returns "+p.Origin(v).String())
					}
				}
			}
		}
	}
	if n == 0 {
		c.Violation("", "-", "no-delegating-timeout", "no state delegates Timeout to the in-session handler (the recovery state's handler was not found)")
	}
}
