package main

// Rules added after the fourth round of independently written changes.

import (
	"fmt"
	"go/token"
	"go/types"
	"sort"
	"strings"

	"golang.org/x/tools/go/ssa"
)

// C01-R9: (a) the comparison that licenses an advance is fresh: between the sequence comparison
// and the increment it licenses nothing resets, refreshes or sets the store's counters; (b) a
// handler advances at most once per message counting the advances its callees make: a path that
// calls a function which may advance (the reject processor) and then advances itself consumes two
// numbers for one message.
func c01R9(c *Ctx) {
	p := c.P
	g := getGate(p)
	r := getRoles(p)
	n := 0
	for _, fn := range p.FuncsIn(modPath) {
		incrs := r.storeCalls(fn, "IncrNextTargetMsgSeqNum")
		if len(incrs) == 0 {
			continue
		}
		mf := &MustFlow{Fn: fn, Transfer: func(in ssa.Instruction, s Set) {
			if _, ok := r.isStoreCall(in, "Reset", "Refresh", "SetNextTargetMsgSeqNum"); ok {
				delete(s, "high")
				delete(s, "low")
				return
			}
			if cl, ok := in.(ssa.CallInstruction); ok {
				cal := cl.Common().StaticCallee()
				switch {
				case cal == nil:
				case cal == g.tooHigh:
					s["high"] = true
				case cal == g.tooLow:
					s["low"] = true
				case cal == g.gate || isThinGateWrapper(p, g, cal):
					s["high"], s["low"] = true, true
				case p.InModule(cal) && p.reachesAny(cal, func(f *ssa.Function) bool { return len(r.storeCalls(f, "Reset", "Refresh")) > 0 }):
					delete(s, "high")
					delete(s, "low")
				}
			}
		}}
		for _, cl := range incrs {
			d := p.ReachCond(cl.Block())
			// only increments that are licensed by a comparison in this function
			usesHigh := d.Implies(func(a *Atom) bool {
				return a.Rel == "==" && a.R.IsNil() && a.L.Kind == "call" && a.L.Callee == g.tooHigh
			})
			if !usesHigh {
				continue
			}
			n++
			c.Check(mf.Before(cl.(ssa.Instruction))["high"], FuncName(fn), p.InstrPos(cl.(ssa.Instruction)), "comparison-fresh-at-advance", "the too-high comparison that licenses the advance was made after the last store reset",
				"the expected inbound number is advanced on the strength of a too-high comparison that was evaluated before the store was reset (or refreshed) on this path: after the reset the expectation is 1, but a message numbered up to the old expectation passes as in sequence, consumes number 1 and the real message 1 is later dropped as a duplicate")
		}
	}
	// (b) the reject processor's verdict is final: its result is returned by the caller. A handler that
	// calls it and carries on would process (and count) the rejected message a second time.
	if rp := rejectProcessor(p); rp != nil {
		for _, cs := range p.CallsTo(rp) {
			n++
			v, _ := cs.Call.(ssa.Value)
			ret := false
			if v != nil {
				var walk func(x ssa.Value, d int)
				walk = func(x ssa.Value, d int) {
					if d > 3 || x.Referrers() == nil {
						return
					}
					for _, ref := range *x.Referrers() {
						switch y := ref.(type) {
						case *ssa.Return:
							ret = true
						case *ssa.Phi:
							walk(y, d+1)
						}
					}
				}
				walk(v, 0)
			}
			c.Check(ret, FuncName(cs.Fn), p.InstrPos(cs.Call), "reject-verdict-returned", "the reject processor's result is returned", "the handler calls the reject processor and carries on instead of returning its result: the rejected message is then handled a second time by the rest of the handler — its sequence number is consumed twice and the next message is refused as too low")
		}
	}
	if n == 0 {
		c.Violation("", "-", "no-licensed-advance", "no advance licensed by a sequence comparison found")
	}
}

// C05-R9: the write loop drains the outbound channel until the session closes it. The session
// hands messages to it with blocking sends while holding its locks; a write loop that gives up
// after a failed write leaves the session goroutine parked on the next send forever.
func c05R9(c *Ctx) {
	p := c.P
	n := 0
	for _, fn := range p.FuncsIn(modPath) {
		if fn.Parent() != nil || fn.Signature.Params().Len() < 2 {
			continue
		}
		// ranges over a receive-only/bidirectional chan []byte parameter and calls Write on a writer parameter
		for _, b := range fn.Blocks {
			for _, in := range b.Instrs {
				uo, ok := in.(*ssa.UnOp)
				if !ok || uo.Op != token.ARROW || !uo.CommaOk {
					continue
				}
				if _, isPar := uo.X.(*ssa.Parameter); !isPar {
					continue
				}
				ch, ok := uo.X.Type().Underlying().(*types.Chan)
				if !ok {
					continue
				}
				if sl, ok := ch.Elem().Underlying().(*types.Slice); !ok || !types.Identical(sl.Elem(), types.Typ[types.Byte]) {
					continue
				}
				writes := false
				for _, cl := range Calls(fn) {
					if cl.Common().IsInvoke() && cn(cl.Common().Method) == "Write" {
						writes = true
					}
				}
				if !writes {
					continue
				}
				n++
				// every return of the function is reached only when the channel was closed (ok == false)
				for _, rb := range fn.Blocks {
					r, isRet := rb.Instrs[len(rb.Instrs)-1].(*ssa.Return)
					if !isRet {
						continue
					}
					d := p.ReachCond(rb)
					closed := d.Implies(func(a *Atom) bool {
						if a.Rel != "" || a.Val || a.B == nil || a.B.Val == nil {
							return false
						}
						ex, ok := a.B.Val.(*ssa.Extract)
						return ok && ex.Tuple == ssa.Value(uo) && ex.Index == 1
					})
					c.Check(closed, FuncName(fn), p.InstrPos(r), "write-loop-runs-until-closed", "the write loop returns only when the outbound channel was closed", "the write loop can return under "+d.String()+" while the outbound channel is still open: the session sends to it with blocking sends (holding its send lock, during a replay also the resend lock); after the loop is gone the next send parks the session goroutine forever — no disconnect handling, no reconnect, nothing stored is ever delivered")
				}
			}
		}
	}
	if n == 0 {
		c.Violation("", "-", "no-write-loop", "no function drains a chan []byte into a writer")
	}
}

// C06-R6: (a) a reject that was constructed is used: the value of every reject-constructor call
// flows somewhere (returned, passed on, compared) — a reject assigned to a shadowed variable is a
// dropped defect report; (b) version gates are upward closed: a decision that enumerates
// BeginString constants and includes FIX.4.4 also includes FIXT.1.1 (every capability FIX.4.4 has,
// the FIXT transport has), unless it enumerates every version.
func c06R6(c *Ctx) {
	p := c.P
	n := 0
	for _, fn := range p.FuncsIn(modPath) {
		for _, cl := range Calls(fn) {
			cal := cl.Common().StaticCallee()
			if cal == nil || !p.isRejectCtor(cal) {
				continue
			}
			v, ok := cl.(ssa.Value)
			if !ok {
				continue
			}
			n++
			used := false
			var walk func(x ssa.Value, d int)
			walk = func(x ssa.Value, d int) {
				if d > 4 || x.Referrers() == nil {
					return
				}
				for _, ref := range *x.Referrers() {
					switch y := ref.(type) {
					case *ssa.Return, ssa.CallInstruction, *ssa.BinOp, *ssa.Store, *ssa.TypeAssert, *ssa.MapUpdate, *ssa.Send, *ssa.If:
						used = true
					case *ssa.Phi:
						walk(y, d+1)
					case *ssa.MakeInterface:
						walk(y, d+1)
					case *ssa.ChangeInterface:
						walk(y, d+1)
					case *ssa.ChangeType:
						walk(y, d+1)
					case *ssa.Extract:
						walk(y, d+1)
					}
				}
			}
			walk(v, 0)
			c.Check(used, FuncName(fn), p.InstrPos(cl.(ssa.Instruction)), "reject-used", "the constructed reject is used", "the reject built by "+fnName(cal)+" is never used (assigned to a variable that is not read again, e.g. a shadowed err): the caller sees success or a different error, and the peer is not told which field was wrong")
		}
	}
	// (b) version sets
	bsGlobals := map[string]string{}
	for _, name := range []string{"BeginStringFIX40", "BeginStringFIX41", "BeginStringFIX42", "BeginStringFIX43", "BeginStringFIX44", "BeginStringFIXT11"} {
		if o, ok := p.Obj(modPath, name).(*types.Const); ok {
			bsGlobals[name] = o.Val().ExactString()
		}
	}
	valToName := map[string]string{}
	for k, v := range bsGlobals {
		valToName[v] = k
	}
	for _, fn := range p.FuncsIn(modPath) {
		set := map[string]bool{}
		var first ssa.Instruction
		ForEachInstr(fn, func(in ssa.Instruction) {
			b, ok := in.(*ssa.BinOp)
			if !ok || b.Op != token.EQL {
				return
			}
			for _, pr := range [][2]ssa.Value{{b.X, b.Y}, {b.Y, b.X}} {
				k, isC := pr[1].(*ssa.Const)
				if !isC || k.Value == nil {
					continue
				}
				nm, known := valToName[k.Value.ExactString()]
				if !known {
					continue
				}
				o := p.Origin(pr[0])
				if o.Kind == "field" && cn(o.Field) == "BeginString" {
					set[nm] = true
					if first == nil {
						first = in
					}
				}
			}
		})
		if len(set) < 2 {
			continue
		}
		n++
		var names []string
		for k := range set {
			names = append(names, k)
		}
		sort.Strings(names)
		ok := !set["BeginStringFIX44"] || set["BeginStringFIXT11"] || len(set) >= 6
		c.Check(ok, FuncName(fn), p.InstrPos(first), "version-set-upward-closed", "version set "+strings.Join(names, ",")+" includes FIXT.1.1 with FIX.4.4", "a decision enumerates the BeginStrings {"+strings.Join(names, ", ")+"}: FIX.4.4 is in the set but FIXT.1.1 is not, so a FIXT.1.1 (FIX 5.0) session gets the behaviour meant for FIX.4.0/4.1 — e.g. Rejects without SessionRejectReason and RefTagID")
	}
	if n == 0 {
		c.Violation("", "-", "no-reject-calls", "no reject constructor calls found")
	}
}

// C16-R13: (a) the file store's Reset removes every file the store opens: the set of file-name
// fields handed to the remover covers the set handed to the opener (a surviving index of the old
// epoch points into the new body file); (b) the in-memory iteration visits the whole requested
// range: the only exits of its loop are the loop condition and a callback error (a missing number
// is skipped, it does not end the iteration).
func c16R13(c *Ctx) {
	p := c.P
	n := 0
	for _, s := range getStores(p) {
		switch s.Kind {
		case "file":
			opened, removed := map[*types.Var]bool{}, map[*types.Var]bool{}
			pkg := s.T.Obj().Pkg().Path()
			collect := func(fn *ssa.Function, into map[*types.Var]bool, pred func(string) bool) {
				for _, f := range p.Reachable([]*ssa.Function{fn}, false) {
					_ = f
				}
				for f := range p.Reachable([]*ssa.Function{fn}, false) {
					if fnPkg(f) == nil || fnPkg(f).Pkg.Path() != pkg {
						continue
					}
					for _, cl := range Calls(f) {
						nm := callName(cl.Common())
						if !pred(nm) {
							continue
						}
						for _, a := range cl.Common().Args {
							o := p.Origin(a)
							if o.Kind == "field" && strings.HasSuffix(strings.ToLower(cn(o.Field)), "fname") {
								into[o.Field] = true
							}
						}
					}
				}
			}
			collect(s.method["Refresh"], opened, func(nm string) bool { return strings.Contains(strings.ToLower(nm), "open") })
			collect(s.method["Reset"], removed, func(nm string) bool { return strings.Contains(strings.ToLower(nm), "remove") })
			// restrict "removed" to the removals made by Reset itself, not by the Refresh it calls
			n++
			var missing []string
			for f := range opened {
				if !removed[f] {
					missing = append(missing, cn(f))
				}
			}
			sort.Strings(missing)
			c.Check(len(opened) >= 3 && len(missing) == 0, FuncName(s.method["Reset"]), p.Pos(s.method["Reset"].Pos()), "reset-removes-every-file", fmt.Sprintf("Reset removes all %d files the store opens", len(opened)), "Reset does not remove "+strings.Join(missing, ", ")+" although the store opens it: after a reset the surviving file of the previous epoch (e.g. the message index) is read together with the new files, and reading the store back returns an error or bytes of the wrong message")
		case "memory":
			fn := s.method["IterateMessages"]
			if fn == nil {
				continue
			}
			loops := naturalLoops(fn)
			for _, l := range loops {
				n++
				for _, b := range fn.Blocks {
					if !l.body[b] {
						continue
					}
					for _, sc := range b.Succs {
						if l.body[sc] || b == l.header {
							continue
						}
						// an exit from inside the body: must be the callback-error return
						okExit := false
						if r, isRet := sc.Instrs[len(sc.Instrs)-1].(*ssa.Return); isRet && len(r.Results) == 1 && !p.Origin(r.Results[0]).IsNil() {
							okExit = true
						}
						c.Check(okExit, FuncName(fn), p.InstrPos(b.Instrs[len(b.Instrs)-1]), "iteration-skips-holes", "the loop is left early only with the callback's error", "the in-memory iteration leaves its loop from inside the body without a callback error (a number with nothing stored ends the iteration instead of being skipped): stored messages behind a hole in the numbering are neither replayed nor gap-filled")
					}
				}
			}
		}
	}
	if n < 2 {
		c.Violation("", "-", "no-reset-or-iteration", "file Reset / memory iteration not found")
	}
}

// C08-R10: (a) when the application flusher finds the session not logged on it empties the queue:
// on the not-logged-on branch of the function that flushes under IsLoggedOn(), the queue dropper
// runs before the function returns (a kept application message would be flushed later by any
// engine-generated send — after the engine's Logout); (b) tearing a connection down closes AND
// forgets the outbound channel before anything else can run: between close(messageOut) and
// messageOut = nil there is no call, and both precede the drain of the inbound channel.
func c08R10(c *Ctx) {
	p := c.P
	r := getRoles(p)
	n := 0
	// droppers
	dropper := map[*ssa.Function]bool{}
	for _, st := range p.FieldStores(r.fToSend) {
		vo := p.Origin(st.Store.Val)
		if vo.IsNil() || vo.Kind == "slice" && vo.Y != nil && vo.Y.IsConstInt(0) {
			dropper[st.Fn] = true
		}
	}
	for _, fn := range p.FuncsIn(modPath) {
		// a flusher that decides on IsLoggedOn
		for _, b := range fn.Blocks {
			iff, ok := b.Instrs[len(b.Instrs)-1].(*ssa.If)
			if !ok {
				continue
			}
			o := p.Origin(iff.Cond)
			if !(o.Kind == "call" && (o.Method != nil && cn(o.Method) == "IsLoggedOn" || o.Callee != nil && fnName(o.Callee) == "IsLoggedOn")) {
				continue
			}
			// the positive branch only flushes what is queued (calls a flusher directly and numbers nothing itself)
			flushes := false
			for _, cl := range Calls(fn) {
				if cal := cl.Common().StaticCallee(); cal != nil && containsFn(r.flushers, cal) && b.Succs[0].Dominates(cl.Block()) {
					flushes = true
				}
			}
			numbers := false
			for _, cl := range Calls(fn) {
				if cal := cl.Common().StaticCallee(); cal != nil && p.InModule(cal) && (containsFn(r.prep, cal) || p.reachesAny(cal, func(f *ssa.Function) bool { return containsFn(r.prep, f) })) {
					numbers = true
				}
			}
			if !flushes || numbers || containsFn(r.prep, fn) {
				continue
			}
			n++
			// on the negative branch a dropper call is reached on every path to a return
			mf := &MustFlow{Fn: fn, Transfer: func(in ssa.Instruction, s Set) {
				if cl, ok := in.(ssa.CallInstruction); ok {
					if cal := cl.Common().StaticCallee(); cal != nil && dropper[cal] {
						s["dropped"] = true
					}
				}
				if st, ok := in.(*ssa.Store); ok && dropper[fn] && fieldAddrOf(st.Addr, r.fToSend) != nil {
					s["dropped"] = true
				}
			}}
			okAll := true
			neg := b.Succs[1]
			for rt, st := range mf.AtReturns() {
				if !(neg == rt.Block() || neg.Dominates(rt.Block())) {
					// returns reachable from the negative branch through a join: check reachability
					if !reaches(neg, rt.Block()) {
						continue
					}
					// joined return: require the drop on the branch itself
					dropOnBranch := false
					for _, cl := range Calls(fn) {
						if cal := cl.Common().StaticCallee(); cal != nil && dropper[cal] && (cl.Block() == neg || neg.Dominates(cl.Block())) {
							dropOnBranch = true
						}
					}
					if !dropOnBranch {
						okAll = false
					}
					continue
				}
				if !st["dropped"] {
					okAll = false
				}
			}
			c.Check(okAll, FuncName(fn), p.InstrPos(iff), "queue-dropped-when-not-logged-on", "not logged on → the queue is emptied", "when the session is not logged on the application flusher leaves queued application messages in the send queue: the next engine-generated send (a replay, a gap fill, a Logout reply) flushes the whole queue, and a first-time application message goes out after the engine's Logout")
		}
	}
	// (b) close → nil → drain
	for _, fn := range p.FuncsIn(modPath) {
		for _, b := range fn.Blocks {
			for i, in := range b.Instrs {
				cc := builtinCallOf(in, "close")
				if cc == nil || !isFieldOrg(p.Origin(cc.Args[0]), r.fMsgOut) {
					continue
				}
				n++
				okNil := false
				for _, in2 := range b.Instrs[i+1:] {
					if st, ok := in2.(*ssa.Store); ok && fieldAddrOf(st.Addr, r.fMsgOut) != nil && p.Origin(st.Val).IsNil() {
						okNil = true
						break
					}
					if _, isCall := in2.(ssa.CallInstruction); isCall {
						break
					}
				}
				c.Check(okNil, FuncName(fn), p.InstrPos(in), "close-then-forget", "messageOut is set to nil right after it is closed, before any call", "the outbound channel is closed but not forgotten at once (a call runs between close(messageOut) and messageOut = nil, or the nil store is missing): a reply produced meanwhile — e.g. for a buffered inbound message that is drained — passes the nil test and is sent on the closed channel, which panics in the session goroutine")
				// the drain of the inbound channel comes after
				for _, cl := range Calls(fn) {
					cal := cl.Common().StaticCallee()
					if cal == nil || !p.InModule(cal) {
						continue
					}
					drains := false
					ForEachInstr(cal, func(x ssa.Instruction) {
						if sel, ok := x.(*ssa.Select); ok {
							for _, st := range sel.States {
								if st.Dir == types.RecvOnly {
									drains = true
								}
							}
						}
					})
					if !drains {
						continue
					}
					okOrder := InstrDominates(in, cl.(ssa.Instruction))
					if dec := decisionOf(in.Block()); dec != nil && !okOrder {
						// close under `if messageOut != nil`: the test itself precedes the drain
						okOrder = dec.Dominates(cl.Block()) && !reaches(cl.Block(), in.Block())
					}
					c.Check(okOrder, FuncName(fn), p.InstrPos(cl.(ssa.Instruction)), "close-before-drain", "the outbound channel is closed before buffered inbound messages are drained", "buffered inbound messages are drained while the outbound channel of the dead connection is still open: their answers are written to that connection after the disconnect (and after OnLogout)")
				}
			}
		}
	}
	if n < 2 {
		c.Violation("", "-", "no-flusher-or-close", "application flusher / outbound close not found")
	}
}

// C11-R10: the XMLDataLen pick-up sees every field. The test that arms the length-driven extraction
// (tag == XMLDataLen) runs for each parsed field, whichever branch filed it — a group sub-parser
// may already have filed the header field that ends a group. Its reach condition contains no
// classification of the field.
func c11R10(c *Ctx) {
	p := c.P
	parse, _ := p.parseFn()
	t212 := p.Tag("tagXMLDataLen")
	n := 0
	for _, cl := range Calls(parse) {
		v, isV := cl.(ssa.Value)
		if !isV {
			continue
		}
		o := p.Origin(v)
		if !(o.IsCallTo("(FieldMap).getIntNoLock", "(FieldMap).GetInt") && o.ArgConstInt(0, t212)) {
			continue
		}
		n++
		d := p.ReachCond(cl.Block())
		classified := ""
		for _, a := range d.Atoms() {
			if a.Rel == "" && a.B.Kind == "call" && a.B.Callee != nil && p.InModule(a.B.Callee) && len(a.B.Args) >= 1 && typeName(a.B.Callee.Signature.Results().At(0).Type()) == "bool" {
				// a classifier call (takes the tag): isHeaderField, isTrailerField, isNumInGroupField
				for _, arg := range a.B.Args {
					if arg.Mentions(func(x *Org) bool { return x.Kind == "field" && cn(x.Field) == "tag" }) {
						classified = a.String()
					}
				}
			}
		}
		for _, a := range d.Atoms() {
			for _, side := range []*Org{a.L, a.R, a.B} {
				if side != nil && side.Mentions(func(x *Org) bool {
					return x.Kind == "field" && (cn(x.Field) == "foundBody" || cn(x.Field) == "foundTrailer")
				}) {
					classified = a.String() + " (the parser's progress flag)"
				}
			}
		}
		c.Check(classified == "", FuncName(parse), p.InstrPos(cl.(ssa.Instruction)), "xml-length-seen-for-every-field", "the XMLDataLen pick-up does not depend on how the field was classified", "the XMLDataLen pick-up runs only under "+classified+": when the length field is filed by another branch (a header field that ends a repeating group is filed by the group sub-parser) the length is missed, the XML payload is cut at its first SOH and the rest is parsed as fields")
	}
	if n == 0 {
		c.Violation(FuncName(parse), p.Pos(parse.Pos()), "no-xml-length-pickup", "the parser never reads XMLDataLen")
	}
}

// C13-R11: (a) the group writer writes what the entry holds: its member loop ranges over the
// entry's own (template-ordered) tag list, not over the template — a field set on an entry that the
// template does not name is still written; (b) setting a group always stores it (an empty group is
// a NumInGroup=0 field).
func c13R11(c *Ctx) {
	p := c.P
	rg := getRG(p)
	fn := rg.write
	n := 0
	// lookups into an entry's tagLookup inside Write: the key comes from a tag list of the same entry
	fTagLookup := p.Field(modPath, "FieldMap", "tagLookup")
	ForEachInstr(fn, func(in ssa.Instruction) {
		lk, ok := in.(*ssa.Lookup)
		if !ok || !isFieldOrg(p.Origin(lk.X), fTagLookup) {
			return
		}
		n++
		ko := p.Origin(lk.Index)
		fromEntry := ko.Mentions(func(x *Org) bool {
			return x.Kind == "call" && x.Callee != nil && x.Callee.Signature.Recv() != nil && typeName(x.Callee.Signature.Recv().Type()) == "FieldMap"
		}) || ko.Mentions(func(x *Org) bool { return x.Kind == "field" && cn(x.Field) == "tags" })
		fromTemplate := ko.Mentions(func(x *Org) bool { return x.Kind == "field" && x.Field == rg.fTemplate })
		c.Check(fromEntry && !fromTemplate, FuncName(fn), p.InstrPos(lk), "writer-ranges-over-entry-tags", "members are looked up by the entry's own tag list", "the group writer looks members up by "+ko.String()+" instead of the entry's own tag list: a field set on an entry but not named by the template is silently left out of the written bytes")
	})
	// (b) SetGroup-like: FieldMap methods taking a group writer insert on every path
	for _, f := range p.FuncsIn(modPath) {
		if f.Signature.Recv() == nil || typeName(f.Signature.Recv().Type()) != "FieldMap" || f.Signature.Params().Len() != 1 || typeName(f.Signature.Params().At(0).Type()) != "FieldGroupWriter" {
			continue
		}
		var mus []*ssa.MapUpdate
		ForEachInstr(f, func(in ssa.Instruction) {
			if mu, ok := in.(*ssa.MapUpdate); ok && isFieldOrg(p.Origin(mu.Map), fTagLookup) {
				mus = append(mus, mu)
			}
		})
		n++
		ok := len(mus) > 0
		for _, b := range f.Blocks {
			if _, isRet := b.Instrs[len(b.Instrs)-1].(*ssa.Return); !isRet || b == f.Recover {
				continue
			}
			dom := false
			for _, mu := range mus {
				if mu.Block().Dominates(b) {
					dom = true
				}
			}
			if !dom {
				ok = false
			}
		}
		c.Check(ok, FuncName(f), p.Pos(f.Pos()), "group-always-stored", "every return comes after the group was stored", "the group setter can return without storing the group (e.g. when it has no entries): an empty group is then missing from the message instead of being written as NumInGroup=0, and an earlier non-empty group under the same tag stays in place")
	}
	if n < 2 {
		c.Violation("", "-", "no-writer-lookups", "group writer lookups / group setter not found")
	}
}

// C14-R6: the negative branch of the integer reader allows a magnitude one greater than the
// positive branch (|MinInt| = MaxInt + 1): the digit scanner's limit on the path that stripped a
// '-' is the positive path's limit plus one. With the same limit on both paths the most negative
// int, which Write produces, cannot be read back.
func c14R6(c *Ctx) {
	p := c.P
	scanners := p.digitScanners()
	if len(scanners) == 0 {
		c.Violation("", "-", "no-digit-scanner", "integer scanner not found")
		return
	}
	sc := scanners[0].fn
	// limit parameter of the scanner: the non-slice parameter
	limIdx := -1
	for i, q := range sc.Params {
		if _, isSl := q.Type().Underlying().(*types.Slice); !isSl {
			limIdx = i
		}
	}
	var limitOf func(cl ssa.CallInstruction, depth int) (uint64, bool)
	limitOf = func(cl ssa.CallInstruction, depth int) (uint64, bool) {
		cal := cl.Common().StaticCallee()
		if cal == sc && limIdx >= 0 {
			if k, ok := stripConv(cl.Common().Args[limIdx]).(*ssa.Const); ok && k.Value != nil {
				if u, ok2 := constUint64(k); ok2 {
					return u, true
				}
			}
			// MaxInt+1 is computed as uint(MaxInt)+1 and folded by the compiler into a constant; otherwise a BinOp
			if bo, ok := stripConv(cl.Common().Args[limIdx]).(*ssa.BinOp); ok && bo.Op == token.ADD {
				if kx, ok := stripConv(bo.X).(*ssa.Const); ok {
					if ky, ok := stripConv(bo.Y).(*ssa.Const); ok {
						a, _ := constUint64(kx)
						b, _ := constUint64(ky)
						return a + b, true
					}
				}
			}
			return 0, false
		}
		if cal != nil && p.InModule(cal) && depth < 2 {
			for _, c2 := range Calls(cal) {
				if u, ok := limitOf(c2, depth+1); ok {
					return u, true
				}
			}
		}
		return 0, false
	}
	n := 0
	for _, fn := range p.FuncsIn(modPath) {
		var neg, pos []uint64
		var at ssa.Instruction
		for _, cl := range Calls(fn) {
			if fn == sc {
				continue
			}
			u, ok := limitOf(cl, 0)
			if !ok {
				continue
			}
			ao := stripOrgConv(p.Origin(cl.Common().Args[0]))
			if ao.Kind == "slice" && ao.X != nil && ao.X.IsConstInt(1) {
				neg = append(neg, u)
				at = cl.(ssa.Instruction)
			} else if ao.Kind == "param" {
				pos = append(pos, u)
			}
		}
		if len(neg) == 0 || len(pos) == 0 {
			continue
		}
		n++
		c.Check(neg[0] == pos[0]+1, FuncName(fn), p.InstrPos(at), "negative-limit-is-positive-plus-one", fmt.Sprintf("limits: positive %d, negative %d", pos[0], neg[0]), fmt.Sprintf("after stripping '-' the digits are scanned with limit %d, the positive path uses %d: the negative limit must be one greater, otherwise the most negative int — which Write produces — is rejected on Read (or a magnitude beyond it is accepted)", neg[0], pos[0]))
	}
	if n == 0 {
		c.Violation("", "-", "no-signed-reader", "no function scans digits both with and without a stripped sign")
	}
}

func constUint64(k *ssa.Const) (uint64, bool) {
	if k == nil || k.Value == nil {
		return 0, false
	}
	s := k.Value.ExactString()
	var u uint64
	if _, err := fmt.Sscanf(s, "%d", &u); err != nil {
		return 0, false
	}
	return u, true
}

var _ = sort.Strings
var _ = strings.TrimSpace

// C15-R9: every validator the session factory builds gets the settings read from the
// configuration: all validator-constructor calls of one function pass the same settings value.
func c15R9(c *Ctx) {
	p := c.P
	n := 0
	for _, fn := range p.FuncsIn(modPath) {
		var calls []ssa.CallInstruction
		for _, cl := range Calls(fn) {
			cal := cl.Common().StaticCallee()
			if cal != nil && p.InModule(cal) && cal.Signature.Results().Len() == 1 && typeName(cal.Signature.Results().At(0).Type()) == "Validator" && len(cl.Common().Args) >= 1 && typeName(cl.Common().Args[0].Type()) == "ValidatorSettings" {
				calls = append(calls, cl)
			}
		}
		if len(calls) < 2 {
			continue
		}
		// the settings value: a local the function fills from the configuration (loads of one Alloc)
		cell := func(v ssa.Value) ssa.Value {
			if ld, ok := stripConv(v).(*ssa.UnOp); ok {
				return ld.X
			}
			return stripConv(v)
		}
		votes := map[ssa.Value]int{}
		for _, cl := range calls {
			votes[cell(cl.Common().Args[0])]++
		}
		var major ssa.Value
		for v, k := range votes {
			if _, isAl := v.(*ssa.Alloc); isAl && (major == nil || k > votes[major]) {
				major = v
			}
		}
		for _, cl := range calls {
			n++
			cv := cell(cl.Common().Args[0])
			_, isLocal := cv.(*ssa.Alloc)
			c.Check(isLocal && cv == major, FuncName(fn), p.InstrPos(cl.(ssa.Instruction)), "validator-gets-configured-settings", "every validator is built with the function's configured settings value", "this validator is built with "+p.Origin(cl.Common().Args[0]).String()+" rather than with the settings value the function fills from the configuration (which the other validators of the function receive): sessions of this kind ignore the configured validator settings")
		}
	}
	if n == 0 {
		c.Violation("", "-", "no-validator-construction", "no function builds several validators")
	}
}

// C18-R7: (a) in an overnight window the early-morning part belongs to the day before and the
// evening part to the day itself: the weekday handed to the membership test is "weekday − 1"
// exactly under ts <= end and the plain weekday under start <= ts; (b) a wall-clock time built
// from a time-of-day takes hour, minute and second from the same time-of-day value.
func c18R7(c *Ctx) {
	p := c.P
	n := 0
	for _, fn := range p.FuncsIn(modPath + "/internal") {
		rcv := fn.Signature.Recv()
		if rcv == nil || typeName(rcv.Type()) != "TimeRange" {
			continue
		}
		for _, cl := range Calls(fn) {
			cal := cl.Common().StaticCallee()
			// (b) time.Date
			if callName(cl.Common()) == "time.Date" {
				args := cl.Common().Args
				var parents []string
				for _, a := range args[3:6] {
					o := p.Origin(a)
					root, path := o.FieldPath()
					if root == nil || len(path) < 2 {
						parents = nil
						break
					}
					parents = append(parents, strings.Join(path[:len(path)-1], "."))
				}
				if len(parents) == 3 {
					n++
					c.Check(parents[0] == parents[1] && parents[1] == parents[2], FuncName(fn), p.InstrPos(cl.(ssa.Instruction)), "clock-from-one-time-of-day", "hour, minute, second from "+parents[0], "the wall-clock time is assembled from hour of "+parents[0]+", minute of "+parents[1]+" and second of "+parents[2]+": the window boundary is off by the difference, and two instants of the same window near the boundary are reported as different sessions")
				}
				continue
			}
			// (a) membership test with a weekday argument
			if cal == nil || !p.InModule(cal) || len(cl.Common().Args) != 2 || !isWeekday(cl.Common().Args[1].Type()) || cal.Signature.Results().Len() != 1 {
				continue
			}
			if b, ok := cal.Signature.Results().At(0).Type().Underlying().(*types.Basic); !ok || b.Kind() != types.Bool {
				continue
			}
			d := p.ReachCond(cl.Block())
			isF := func(o *Org, name string) bool {
				root, path := o.FieldPath()
				return root != nil && root.Kind == "param" && len(path) >= 1 && path[0] == name
			}
			// overnight part only: not under start < end
			sameDay := d.Implies(func(a *Atom) bool { return a.Rel == "<" && isF(a.L, "startTime") && isF(a.R, "endTime") })
			if sameDay {
				continue
			}
			morning := d.Implies(func(a *Atom) bool { return a.Rel == "<=" && isF(a.R, "endTime") && !isF(a.L, "startTime") })
			evening := d.Implies(func(a *Atom) bool { return a.Rel == "<=" && isF(a.L, "startTime") && !isF(a.R, "endTime") })
			if !morning && !evening {
				continue
			}
			n++
			iv, okIv := p.weekdayOffsetOf(p.Origin(cl.Common().Args[1]))
			if !okIv {
				iv, okIv = p.weekdayOffsetOf(p.Inlined(p.Origin(cl.Common().Args[1])))
			}
			want := 0
			if morning {
				want = -1
			}
			c.Check(okIv && iv == want, FuncName(fn), p.InstrPos(cl.(ssa.Instruction)), "overnight-weekday-attribution", fmt.Sprintf("weekday offset %d under %s", want, map[bool]string{true: "ts <= end", false: "start <= ts"}[morning]),
				fmt.Sprintf("in the overnight window the %s part is tested against weekday%+d (expected weekday%+d): the window is attributed to the wrong day, so with a Weekdays restriction it opens on the day before (or after) the configured one", map[bool]string{true: "early-morning", false: "evening"}[morning], iv, want))
		}
	}
	if n < 3 {
		c.Violation("", "-", "few-schedule-sites", fmt.Sprintf("only %d weekday-attribution / time.Date sites found", n))
	}
}

// weekdayOffsetOf: o is t.Weekday() (offset 0) or (t.Weekday() + k + 7) % 7 / a helper call with constant offset k.
func (p *Prog) weekdayOffsetOf(o *Org) (int, bool) {
	if o == nil {
		return 0, false
	}
	if o.IsCallTo("(time.Time).Weekday") {
		return 0, true
	}
	if o.Kind == "call" && o.Callee != nil && p.InModule(o.Callee) && len(o.Args) == 2 {
		if k, ok := o.Args[1].ConstIntVal(); ok && o.Args[0].IsCallTo("(time.Time).Weekday") {
			return int(k), true
		}
	}
	// ((w + k') + 7) % 7 with constant k' (possibly -1 % 7 folded)
	if o.Kind == "binop" && o.Op == token.REM {
		sum := 0
		found := false
		var walk func(x *Org) bool
		walk = func(x *Org) bool {
			x = stripOrgConv(x)
			if x.IsCallTo("(time.Time).Weekday") {
				found = true
				return true
			}
			if k, ok := x.ConstIntVal(); ok {
				sum += int(k)
				return true
			}
			if x.Kind == "binop" && x.Op == token.ADD {
				return walk(x.X) && walk(x.Y)
			}
			if x.Kind == "binop" && x.Op == token.SUB {
				if k, ok := stripOrgConv(x.Y).ConstIntVal(); ok {
					sum -= int(k)
					return walk(x.X)
				}
			}
			return false
		}
		if walk(o.X) && found {
			off := sum % 7
			if off > 3 {
				off -= 7
			}
			return off, true
		}
	}
	return 0, false
}

// C19-R9: (a) the tags reachable through a field definition include those of nested members at
// any depth: the method that collects the child tags of a FieldDef calls itself on the members it
// ranges over; (b) a field's enumeration table is built whenever the file lists at least one value.
func c19R9(c *Ctx) {
	p := c.P
	n := 0
	fd := p.Named(modPath+"/datadictionary", "FieldDef")
	for _, fn := range p.FuncsIn(modPath + "/datadictionary") {
		rcv := fn.Signature.Recv()
		if rcv == nil || namedOf(rcv.Type()) != fd || fn.Signature.Results().Len() != 1 {
			continue
		}
		sl, ok := fn.Signature.Results().At(0).Type().Underlying().(*types.Slice)
		if !ok || !types.Identical(sl.Elem(), types.Typ[types.Int]) || fn.Signature.Params().Len() != 0 {
			continue
		}
		// ranges over its Fields?
		ranges := false
		ForEachInstr(fn, func(in ssa.Instruction) {
			if ia, ok := in.(*ssa.IndexAddr); ok {
				if o := p.Origin(ia.X); o.Kind == "field" && cn(o.Field) == "Fields" {
					ranges = true
				}
			}
		})
		if !ranges || !strings.Contains(strings.ToLower(fnName(fn)), "tag") {
			continue
		}
		n++
		self := false
		for _, cl := range Calls(fn) {
			if cl.Common().StaticCallee() == fn {
				self = true
			}
		}
		c.Check(self, FuncName(fn), p.Pos(fn.Pos()), "child-tags-recursive", "the child-tag collector recurses into the members", "the function that collects the tags below a field definition does not call itself on the members: tags reachable only through a group nested inside another group are missing from the message's tag set")
	}
	// (b) enumeration guard
	fEnums := p.Field(modPath+"/datadictionary", "FieldType", "Enums")
	for _, st := range p.FieldStores(fEnums) {
		d := p.ReachCond(st.Store.Block())
		for _, a := range d.Atoms() {
			if a.R != nil && a.R.IsCallTo("len") && a.Rel == "<" {
				if k, ok := a.L.ConstIntVal(); ok {
					n++
					c.Check(k == 0, FuncName(st.Fn), p.InstrPos(st.Store), "enums-built-for-one-value", "enumeration built when at least one value is listed", fmt.Sprintf("the enumeration table is built only when more than %d values are listed: a field that declares exactly %d value(s) is loaded without an enumeration and every value is accepted for it", k, k))
				}
			}
		}
	}
	if n < 2 {
		c.Violation("", "-", "no-childtags-or-enums", "child-tag collector / enumeration guard not found")
	}
}

// C20-R8: timer events are handed to the session loop with a blocking send. The one-shot timers are
// re-armed only as a consequence of the event being processed; a non-blocking send (select with
// default) drops the event whenever the loop is busy, and the keep-alive stops for good.
func c20R8(c *Ctx) {
	p := c.P
	n := 0
	for _, fn := range p.FuncsIn(modPath) {
		for _, cl := range Calls(fn) {
			if callName(cl.Common()) != "internal.NewEventTimer" && !strings.HasSuffix(callName(cl.Common()), "NewEventTimer") {
				continue
			}
			mc, ok := cl.Common().Args[0].(*ssa.MakeClosure)
			if !ok {
				continue
			}
			body := mc.Fn.(*ssa.Function)
			n++
			sends, blocking := 0, true
			ForEachInstr(body, func(in ssa.Instruction) {
				switch x := in.(type) {
				case *ssa.Send:
					sends++
				case *ssa.Select:
					for _, st := range x.States {
						if st.Dir == types.SendOnly {
							sends++
							if !x.Blocking {
								blocking = false
							}
						}
					}
				}
			})
			c.Check(sends > 0 && blocking, FuncName(fn), p.InstrPos(cl.(ssa.Instruction)), "timer-event-blocking-send", "the timer callback hands its event over with a blocking send", "the timer callback sends its event without blocking (select with default), or sends nothing: when the session loop is busy at that moment the event is lost, and because the timer is one-shot and re-armed only when its event is processed, no further Heartbeat / TestRequest / dead-peer disconnect ever happens")
		}
	}
	if n < 2 {
		c.Violation("", "-", "no-event-timers", "the session does not create its two event timers")
	}
}
