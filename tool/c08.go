package main

import (
	"fmt"
	"go/types"
	"sort"
	"strings"

	"golang.org/x/tools/go/ssa"
)

func init() { register("C08", propC08) }

func propC08() Property {
	return Property{
		ID: "C08",
		Explanation: "Typestate rules. R1: every call that flushes the send queue to the connection is (a) under IsLoggedOn()=true, or (b) the drop-and-send role whose message, at every caller, is built with MsgType \"A\" or \"5\" (Logon/Logout), or (c) the raw-enqueue role whose callers pass only replayed bytes or a SequenceReset; the not-logged-on arm of the queue flusher only drops. " +
			"R2: in the logon state every call that can reach an application callback or a send is dominated by MsgType == Logon. R3: stateMachine.State has exactly two writers (the transition function and Start); OnLogout and OnLogon are each invoked from exactly one function; the OnLogout function is reached only from the transition function under cur.IsConnected ∧ ¬next.IsConnected (or the connect-outside-session-time arm), and where it can be re-entered through its own callees the call is protected by a re-entrancy flag set before and cleared after. " +
			"R4: every channel send to the connection is in a function that first tests messageOut != nil; every close(messageOut) is followed on all paths by messageOut = nil. " +
			"R5: in the disconnect handler the reads of the state that decide OnLogout, and the OnLogout call itself, come before any call that can re-enter inbound processing (the drain of buffered messages), which may change the state. " +
			"R6: a logged-on state that delegates an inbound message to the in-session handler (the recovery state) returns itself only when the delegate's result is still logged on: when the engine has sent its Logout (logout state) or disconnected, the wrapper must not put the session back into a logged-on state. R7: a state handler that has initiated the engine's Logout returns, on every return reachable from that call, the logout state (or delegates / takes the send-failure exit) — never its own logged-on state. R8: in the function that invokes OnLogon, every return that lets the session become logged on (nil error, or the too-high error that starts a recovery) comes after the OnLogon call. R9: the logout state's handlers return the logout state, the latent state, or the delegate's result only when that is the latent state. R10: the application flusher (the function that only flushes the queue under IsLoggedOn()) empties the queue on the not-logged-on branch; close(messageOut) is followed by messageOut = nil before any call, and both precede the drain of buffered inbound messages.",
		NotDecided: "'exactly one' as a count over event histories (R3 shows a unique guarded, non-re-entrant site, not a trace count); delivery to the application outside logon (C06 decides the gate).",
		Rules: []RuleDef{
			{ID: "C08-R1", Desc: "wire sends only when logged on / Logon-Logout / replay", Min: 4, Run: c08R1},
			{ID: "C08-R2", Desc: "logon state handles only Logon", Min: 1, Run: c08R2},
			{ID: "C08-R3", Desc: "single state writer; single, guarded, non-re-entrant OnLogout/OnLogon site", Min: 5, Run: c08R3},
			{ID: "C08-R4", Desc: "nothing written after disconnect", Min: 3, Run: c08R4},
			{ID: "C08-R5", Desc: "logout decision taken before buffered input is drained", Min: 1, Run: c08R5},
			{ID: "C08-R6", Desc: "a logged-on wrapper state never survives its delegate leaving the logged-on set", Min: 1, Run: c08R6},
			{ID: "C08-R7", Desc: "a handler that initiated the Logout returns the logout state", Min: 3, Run: c08R7},
			{ID: "C08-R8", Desc: "OnLogon precedes every return that makes the session logged on", Min: 2, Run: c08R8},
			{ID: "C08-R9", Desc: "the logout state never hands the session back to a logged-on state", Min: 2, Run: c08R9},
			{ID: "C08-R14", Desc: "the pending-timeout wrapper is transparent to state tests (= C20-R4)", Min: 2, Run: c20R4},
			{ID: "C08-R13", Desc: "OnLogon only after the Logon reply was sent", Min: 1, Run: c08R13},
			{ID: "C08-R12", Desc: "after ShutdownNow the session state is changed on every path", Min: 2, Run: c08R12},
			{ID: "C08-R11", Desc: "the application-side send API only queues: transmission is decided on the session loop (= C02-R6)", Min: 2, Run: c02R6},
			{ID: "C08-R10", Desc: "not logged on → queue emptied; close → nil → drain on teardown", Min: 2, Run: c08R10},
		},
	}
}

// msgTypesOf: the constant MsgType(35) values a *Message value is built with, following
// NewMessage() locals and returns of in-module builder functions. ok=false if unknown.
func (p *Prog) msgTypesOf(v ssa.Value, depth int) (typesSet []string, ok bool) {
	if depth > 4 {
		return nil, false
	}
	tagMT := p.Tag("tagMsgType")
	o := p.Origin(v)
	all := true
	o.All(func(x *Org) bool {
		switch {
		case x.IsCallTo("NewMessage"):
			fn := x.CallI.Parent()
			found := false
			for _, st := range p.setTagCalls(fn, tagMT) {
				root, _ := st.recv.FieldPath()
				if root != nil && root.Kind == "call" && root.CallI == x.CallI {
					vo := p.Origin(st.val)
					if s, isC := vo.ConstStringVal(); isC {
						typesSet = append(typesSet, s)
						found = true
					} else if vo.Kind == "global" {
						typesSet = append(typesSet, "global:"+vo.Global.Name())
						found = true
					} else {
						all = false
					}
				}
			}
			if !found {
				all = false
			}
		case x.Kind == "call" && x.Callee != nil && p.InModule(x.Callee) && x.Callee.Blocks != nil:
			for _, b := range x.Callee.Blocks {
				if r, isR := b.Instrs[len(b.Instrs)-1].(*ssa.Return); isR && len(r.Results) > 0 {
					ts, ok2 := p.msgTypesOf(r.Results[0], depth+1)
					if !ok2 {
						all = false
					}
					typesSet = append(typesSet, ts...)
				}
			}
		case x.Kind == "param":
			sites := p.StaticCallers(x.Fn)
			for _, s := range sites {
				args := s.Common().Args
				if x.Param < len(args) {
					ts, ok2 := p.msgTypesOf(args[x.Param], depth+1)
					if !ok2 {
						all = false
					}
					typesSet = append(typesSet, ts...)
				}
			}
			// no callers: dead code, contributes nothing
		default:
			all = false
		}
		return true
	})
	sort.Strings(typesSet)
	return uniqStrings(typesSet), all
}

func uniqStrings(ss []string) []string {
	var out []string
	for i, s := range ss {
		if i == 0 || s != ss[i-1] {
			out = append(out, s)
		}
	}
	return out
}

func loggedOnAtom(a *Atom) bool {
	return a.Rel == "" && a.Val && a.B.Kind == "call" && strings.HasSuffix(a.B.CalleeName(), ".IsLoggedOn")
}

func c08R1(c *Ctx) {
	p := c.P
	r := getRoles(p)
	fToSend := r.fToSend
	if len(r.flushers) == 0 {
		c.Undecided("", "-", "no-flusher", "no function flushes the send queue")
		return
	}
	for _, fl := range r.flushers {
		for _, cs := range p.CallsTo(fl) {
			fn := cs.Fn
			name := FuncName(fn)
			pos := p.InstrPos(cs.Call)
			d := p.ReachCond(cs.Call.Block())
			if d.Implies(loggedOnAtom) {
				c.OK(name, pos, "queue flushed under IsLoggedOn() = true")
				continue
			}
			// what does this function enqueue before flushing?
			var enq []ssa.Value
			ForEachInstr(fn, func(in ssa.Instruction) {
				if st, ok := in.(*ssa.Store); ok && fieldAddrOf(st.Addr, fToSend) != nil {
					if ai := asAppend(st.Val); ai != nil && len(ai.Elems) == 1 {
						enq = append(enq, ai.Elems[0])
					}
				}
			})
			if len(enq) == 0 {
				c.Violation(name, pos, "flush-unguarded", "the send queue is flushed to the connection without an IsLoggedOn() test and without this function enqueueing a message of its own: queued application messages can leave before logon completes or after logout")
				continue
			}
			for _, e := range enq {
				eo := p.Origin(e)
				switch {
				case eo.Kind == "call" && eo.Callee != nil && containsFn(r.prep, eo.Callee):
					// drop-and-send role: queue dropped first, message type Logon/Logout at every caller
					dropped := false
					for _, cl := range Calls(fn) {
						if InstrDominates(cl, cs.Call) {
							if cal := cl.Common().StaticCallee(); cal != nil && p.truncatesQueue(cal, fToSend) {
								dropped = true
							}
						}
					}
					msgArg := eo.Args[0]
					ts, ok := p.msgTypesOf(msgArg.Val, 0)
					okTypes := ok && len(ts) > 0
					for _, t := range ts {
						if t != "A" && t != "5" {
							okTypes = false
						}
					}
					c.Check(dropped && okTypes, name, pos, "drop-and-send", fmt.Sprintf("queue dropped, then a message of type %v numbered and sent (Logon/Logout only)", ts),
						fmt.Sprintf("a message is sent while not necessarily logged on: queue dropped first=%v, message types at callers=%v (resolved=%v); only Logon(A)/Logout(5) may travel outside a logged-on session", dropped, ts, ok))
				case eo.Kind == "param":
					// raw-enqueue role: every caller passes replayed bytes or a SequenceReset
					for _, rc := range p.CallsTo(fn) {
						a := rc.Common().Args[1+eo.Param-1]
						ao := p.Origin(a)
						okArg := false
						what := ao.String()
						ffB, fbB := p.builders()
						if ao.Kind == "call" && ao.Callee == fbB {
							okArg = true
							what = "replayed stored message"
						} else if ao.Kind == "call" && ao.Callee == ffB {
							ts, ok := p.msgTypesOf(ao.Recv.Val, 0)
							okArg = ok && len(ts) == 1 && ts[0] == "4"
							what = fmt.Sprintf("built message of type %v", ts)
						}
						c.Check(okArg, FuncName(rc.Fn), p.InstrPos(rc.Call), "raw-enqueue", "raw enqueue of "+what,
							"bytes enqueued and flushed without a logged-on test are "+what+": only replays of stored messages and SequenceReset gap fills may bypass the numbering path")
					}
				default:
					c.Violation(name, pos, "flush-unguarded:"+eo.String(), "queue flushed without IsLoggedOn() after enqueueing "+eo.String())
				}
			}
		}
	}
	// the app-message flusher: not-logged-on arm reaches only the drop
	sam := p.Method(modPath, "stateMachine", "SendAppMessages")
	for _, cl := range Calls(sam) {
		cal := cl.Common().StaticCallee()
		if cal == nil || !p.InModule(cal) {
			continue
		}
		d := p.ReachCond(cl.Block())
		notLogged := d.Implies(func(a *Atom) bool {
			return a.Rel == "" && !a.Val && a.B.Kind == "call" && strings.HasSuffix(a.B.CalleeName(), ".IsLoggedOn")
		})
		if notLogged {
			c.Check(p.truncatesQueue(cal, fToSend) && !containsFn(r.flushers, cal), FuncName(sam), p.InstrPos(cl), "not-logged-on-arm", "while not logged on the queued application messages are dropped, not sent",
				"in the not-logged-on arm "+FuncName(cal)+" is called, which is not the queue drop")
		}
	}
}

// truncatesQueue: function stores toSend[:0] (and nothing else) to the queue.
func (p *Prog) truncatesQueue(fn *ssa.Function, fToSend *types.Var) bool {
	n, ok := 0, true
	ForEachInstr(fn, func(in ssa.Instruction) {
		if st, isS := in.(*ssa.Store); isS && fieldAddrOf(st.Addr, fToSend) != nil {
			n++
			vo := p.Origin(st.Val)
			if !(vo.Kind == "slice" && vo.Y != nil && vo.Y.IsConstInt(0)) {
				ok = false
			}
		}
	})
	return n > 0 && ok
}

// reachesAny: fn statically reaches (module call edges + closures) a function satisfying pred.
func (p *Prog) reachesAny(fn *ssa.Function, pred func(*ssa.Function) bool) bool {
	for f := range p.Reachable([]*ssa.Function{fn}, false) {
		if pred(f) {
			return true
		}
	}
	return false
}

func c08R2(c *Ctx) {
	p := c.P
	r := getRoles(p)
	app := p.Named(modPath, "Application")
	cbFns := map[*ssa.Function]bool{}
	for _, m := range []string{"FromApp", "FromAdmin", "OnLogon", "ToApp", "ToAdmin"} {
		for _, cs := range p.InvokeSites(app, m) {
			cbFns[cs.Fn] = true
		}
	}
	ls := p.Method(modPath, "logonState", "FixMsgIn")
	name := FuncName(ls)
	n := 0
	for _, cl := range Calls(ls) {
		cal := cl.Common().StaticCallee()
		if cal == nil || !p.InModule(cal) {
			continue
		}
		if !p.reachesAny(cal, func(f *ssa.Function) bool { return cbFns[f] || containsFn(r.senders, f) }) {
			continue
		}
		n++
		d := p.ReachCond(cl.Block())
		ok := d.Implies(func(a *Atom) bool {
			if a.Rel != "" || !a.Val || !a.B.IsCallTo("bytes.Equal") || len(a.B.Args) != 2 {
				return false
			}
			for i := 0; i < 2; i++ {
				g, m := a.B.Args[i], a.B.Args[1-i]
				if g.Kind == "global" && cn(g.Global.Object()) == "msgTypeLogon" && m.IsCallTo("(FieldMap).GetBytes") && m.ArgConstInt(0, p.Tag("tagMsgType")) {
					return true
				}
			}
			return false
		})
		c.Check(ok, name, p.InstrPos(cl), "logon-only:"+FuncName(cal), FuncName(cal)+" (reaches callbacks/sends) only for MsgType == Logon",
			"while waiting for Logon, "+FuncName(cal)+" — which can reach an application callback or a send — is called under "+d.String()+", not only for a Logon message")
	}
	if n == 0 {
		c.Violation(name, p.Pos(ls.Pos()), "no-logon-handling", "the logon state never processes a Logon")
	}
}

func c08R3(c *Ctx) {
	p := c.P
	fState := p.Field(modPath, "stateMachine", "State")
	app := p.Named(modPath, "Application")
	// writers of State
	writers := map[*ssa.Function][]*ssa.Store{}
	for _, st := range p.FieldStores(fState) {
		writers[st.Fn] = append(writers[st.Fn], st.Store)
	}
	var transition, starter *ssa.Function
	for fn, sts := range writers {
		isConst := true
		for _, st := range sts {
			o := p.Origin(st.Val)
			if !(o.Kind == "lit" || o.Kind == "zero" || o.Kind == "const") {
				isConst = false
			}
		}
		if isConst {
			if starter != nil {
				c.Violation(FuncName(fn), p.InstrPos(sts[0]), "extra-state-writer", "a second function assigns a literal state directly to stateMachine.State, bypassing the transition function (disconnect handling and OnLogout are skipped)")
			}
			starter = fn
		} else {
			if transition != nil {
				c.Violation(FuncName(fn), p.InstrPos(sts[0]), "extra-transition", "more than one function assigns computed states to stateMachine.State: "+FuncName(transition)+" and "+FuncName(fn))
			}
			transition = fn
		}
	}
	if transition == nil {
		c.Undecided("", "-", "no-transition", "no transition function stores stateMachine.State")
		return
	}
	c.OK(FuncName(transition), p.Pos(transition.Pos()), "the single transition function")
	if starter != nil {
		// its literal must be a not-connected state
		ok := true
		for _, st := range writers[starter] {
			so := p.Origin(st.Val)
			t := ""
			if so.AssTyp != nil {
				t = typeName(so.AssTyp)
			} else if so.Val != nil {
				t = typeName(so.Val.Type())
			}
			if t != "latentState" && t != "notSessionTime" {
				ok = false
			}
		}
		c.Check(ok, FuncName(starter), p.Pos(starter.Pos()), "start-state", "initial state is a not-connected literal", "a function other than the transition function sets a connected state directly")
	}
	// callbacks
	for _, m := range []string{"OnLogout", "OnLogon"} {
		sites := p.InvokeSites(app, m)
		fns := map[*ssa.Function]bool{}
		for _, s := range sites {
			fns[s.Fn] = true
		}
		c.Check(len(sites) == 1, "", "-", "single-"+m, m+" invoked at exactly one site", fmt.Sprintf("%s is invoked at %d sites in %d functions: one logged-on period could be notified more than once", m, len(sites), len(fns)))
	}
	sites := p.InvokeSites(app, "OnLogout")
	if len(sites) == 0 {
		return
	}
	lf := sites[0].Fn // the disconnect handler
	// callers of the disconnect handler
	for _, cs := range p.CallsTo(lf) {
		name := FuncName(cs.Fn)
		pos := p.InstrPos(cs.Call)
		d := p.ReachCond(cs.Call.Block())
		if cs.Fn == transition {
			curConn := d.Implies(func(a *Atom) bool {
				return a.Rel == "" && a.Val && a.B.Kind == "call" && strings.HasSuffix(a.B.CalleeName(), ".IsConnected") && a.B.Recv != nil && a.B.Recv.Kind == "param" && a.B.Recv.Param == 0
			})
			nextDisc := d.Implies(func(a *Atom) bool {
				return a.Rel == "" && !a.Val && a.B.Kind == "call" && strings.HasSuffix(a.B.CalleeName(), ".IsConnected") && a.B.Recv != nil && a.B.Recv.Kind == "param" && a.B.Recv.Param != 0
			})
			c.Check(curConn && nextDisc, name, pos, "disconnect-guard", "disconnect handling only on connected → not connected", "the disconnect handler (OnLogout) is reached under "+d.String()+", not exactly when the current state is connected and the next is not")
		} else {
			okArm := d.Implies(func(a *Atom) bool {
				return a.Rel == "" && !a.Val && a.B.Kind == "call" && strings.HasSuffix(a.B.CalleeName(), ".IsSessionTime")
			})
			c.Check(okArm, name, pos, "disconnect-other-caller", "only other caller: connect outside session time", "the disconnect handler (OnLogout) is also called from "+name+" under "+d.String())
		}
		// re-entrancy: can the handler reach its own caller again?
		reach := p.Reachable([]*ssa.Function{lf}, true)
		if reach[cs.Fn] {
			flagOK := false
			for _, a := range d.Atoms() {
				if a.Rel != "" || a.Val || a.B.Kind != "field" {
					continue
				}
				as := a.String()
				if !d.Implies(func(b *Atom) bool { return b.String() == as }) {
					continue
				}
				f := a.B.Field
				setBefore, clearedAfter := false, false
				for _, st := range p.FieldStores(f) {
					if st.Fn != cs.Fn {
						continue
					}
					bv, isB := p.Origin(st.Store.Val).ConstBoolVal()
					if !isB {
						continue
					}
					if bv && InstrDominates(st.Store, cs.Call) && st.Store.Block() == cs.Call.Block() {
						setBefore = true
					}
					if !bv && InstrDominates(cs.Call, st.Store) {
						clearedAfter = true
					}
				}
				if setBefore && clearedAfter {
					flagOK = true
				}
			}
			c.Check(flagOK, name, pos, "reentrancy", "re-entrant call protected by a flag (tested, set before, cleared after)",
				"the disconnect handler can reach its own caller again (it drains buffered inbound messages through Incoming while the old state is still installed) and the call is not protected by a re-entrancy flag: a second buffered message that ends the session makes OnLogout fire twice for one logged-on period")
		}
	}
}

func c08R4(c *Ctx) {
	p := c.P
	r := getRoles(p)
	for _, fn := range r.senders {
		for _, s := range p.sendsOn(fn, r.fMsgOut) {
			d := p.ReachCond(s.Block())
			ok := d.Implies(func(a *Atom) bool {
				return a.Rel == "!=" && a.R.IsNil() && isFieldOrg(a.L, r.fMsgOut) && p.atomFresh(a, s)
			})
			c.Check(ok, FuncName(fn), p.InstrPos(s), "send-nil-test", "send dominated by messageOut != nil", "send on the connection channel is not dominated by a messageOut != nil test: after a disconnect (channel closed and nil'ed) this blocks forever or panics")
		}
	}
	nClose := 0
	for _, cs := range p.BuiltinCalls("close") {
		if !isFieldOrg(p.Origin(cs.Common().Args[0]), r.fMsgOut) {
			continue
		}
		nClose++
		fn := cs.Fn
		// every path from the close to a return stores nil to messageOut
		mf := &MustFlow{Fn: fn, Transfer: func(in ssa.Instruction, s Set) {
			if in == cs.Call.(ssa.Instruction) {
				s["closed"] = true
				delete(s, "nil")
			}
			if st, ok := in.(*ssa.Store); ok && fieldAddrOf(st.Addr, r.fMsgOut) != nil {
				if p.Origin(st.Val).IsNil() {
					s["nil"] = true
				} else {
					delete(s, "nil")
				}
			}
		}}
		ok := true
		for _, s := range mf.AtReturns() {
			if s["closed"] && !s["nil"] {
				ok = false
			}
		}
		// and paths that may have closed (not must): use enumeration for exactness
		EnumPaths(fn, 512, func(pa Path) {
			closed, nilled := false, false
			for _, b := range pa.Blocks {
				for _, in := range b.Instrs {
					if in == cs.Call.(ssa.Instruction) {
						closed, nilled = true, false
					}
					if st, isS := in.(*ssa.Store); isS && fieldAddrOf(st.Addr, r.fMsgOut) != nil && closed {
						nilled = p.Origin(st.Val).IsNil()
					}
				}
			}
			if closed && !nilled {
				ok = false
			}
		})
		c.Check(ok, FuncName(fn), p.InstrPos(cs.Call), "close-then-nil", "close(messageOut) followed by messageOut = nil on every path", "the connection channel is closed but not set to nil on some path: a later send panics (send on closed channel)")
	}
	if nClose == 0 {
		c.Undecided("", "-", "no-close", "no function closes session.messageOut")
	}
	// the only stores of a non-nil channel are the connect handler's
	for _, st := range p.FieldStores(r.fMsgOut) {
		o := p.Origin(st.Store.Val)
		if o.IsNil() {
			continue
		}
		d := p.ReachCond(st.Store.Block())
		ok := d.Implies(func(a *Atom) bool {
			return a.Rel == "" && !a.Val && a.B.Kind == "call" && strings.HasSuffix(a.B.CalleeName(), ".IsConnected")
		})
		c.Check(ok, FuncName(st.Fn), p.InstrPos(st.Store), "connect-store", "a new connection channel is installed only while not connected", "messageOut is replaced under "+d.String()+": a live connection's channel could be overwritten")
	}
}

func c08R5(c *Ctx) {
	p := c.P
	app := p.Named(modPath, "Application")
	fState := p.Field(modPath, "stateMachine", "State")
	sites := p.InvokeSites(app, "OnLogout")
	if len(sites) == 0 {
		c.Violation("", "-", "no-onlogout", "OnLogout is never invoked")
		return
	}
	inc := p.incomingFn()
	for _, site := range sites {
		fn := site.Fn
		name := FuncName(fn)
		// calls that can re-enter inbound processing
		var reentrant []ssa.CallInstruction
		for _, cl := range Calls(fn) {
			cal := cl.Common().StaticCallee()
			if cal == nil || !p.InModule(cal) {
				continue
			}
			if p.Reachable([]*ssa.Function{cal}, true)[inc] {
				reentrant = append(reentrant, cl)
			}
		}
		if len(reentrant) == 0 {
			c.OK(name, p.Pos(fn.Pos()), "the disconnect handler cannot re-enter inbound processing")
			continue
		}
		after := func(k, x ssa.Instruction) bool {
			if k.Block() == x.Block() {
				return instrIndex(k) < instrIndex(x)
			}
			return reaches(k.Block(), x.Block())
		}
		for _, k := range reentrant {
			ok := !after(k, site.Call)
			// state reads that feed the decision: loads of State and IsLoggedOn-like calls
			ForEachInstr(fn, func(in ssa.Instruction) {
				if u, isU := in.(*ssa.UnOp); isU && fieldAddrOf(u.X, fState) != nil && after(k, in) {
					ok = false
				}
				if cl, isC := in.(ssa.CallInstruction); isC {
					if n := callName(cl.Common()); (strings.HasSuffix(n, ".IsLoggedOn") || strings.HasSuffix(n, ".IsConnected")) && after(k, in) {
						ok = false
					}
				}
			})
			c.Check(ok, name, p.InstrPos(k), "drain-after-decision", "OnLogout decided and sent before buffered inbound messages are drained",
				"buffered inbound messages are drained (a call that can re-enter Incoming) before the state is read to decide OnLogout: a drained message that changes the state (e.g. the peer's Logout) makes the decision see the new state, and a logged-on period ends with no logout notification")
		}
	}
}

func c08R6(c *Ctx) {
	p := c.P
	it := p.Iface(modPath, "sessionState")
	inSess := p.Named(modPath, "inSession")
	n := 0
	for _, T := range p.Implementations(it) {
		if T == inSess {
			continue
		}
		fn := p.MethodOf(T, "FixMsgIn")
		if fn == nil || fn.Synthetic != "" || fn.Blocks == nil {
			continue
		}
		// is this a logged-on state? (its IsLoggedOn returns true)
		lo := p.MethodOf(T, "IsLoggedOn")
		loggedOn := false
		if lo != nil {
			f := lo
			// peel promotion wrappers: find the declared method's constant
			for _, fnc := range p.Funcs {
				if fnName(fnc) == "IsLoggedOn" && fnc.Signature.Recv() != nil {
					rt := namedOf(fnc.Signature.Recv().Type())
					if rt != nil && embeds(T, rt) {
						f = fnc
					}
				}
			}
			for _, b := range f.Blocks {
				if r, ok := b.Instrs[len(b.Instrs)-1].(*ssa.Return); ok && len(r.Results) == 1 {
					if bv, isB := p.Origin(r.Results[0]).ConstBoolVal(); isB && bv {
						loggedOn = true
					}
				}
			}
		}
		if !loggedOn {
			continue
		}
		// delegates to the in-session handler?
		var delegates []ssa.CallInstruction
		for _, cl := range Calls(fn) {
			cal := cl.Common().StaticCallee()
			if cal != nil && fnName(cal) == "FixMsgIn" && cal.Signature.Recv() != nil && types.Identical(cal.Signature.Recv().Type(), inSess) {
				delegates = append(delegates, cl)
			}
		}
		if len(delegates) == 0 {
			continue
		}
		name := FuncName(fn)
		for _, b := range fn.Blocks {
			r, ok := b.Instrs[len(b.Instrs)-1].(*ssa.Return)
			if !ok || len(r.Results) != 1 {
				continue
			}
			mi, ok := r.Results[0].(*ssa.MakeInterface)
			if !ok || !types.Identical(mi.X.Type(), T) {
				continue
			}
			n++
			d := p.ReachCond(b)
			okG := d.Implies(func(a *Atom) bool {
				if a.Rel != "" || !a.Val || a.B.Kind != "call" || a.B.Method == nil || cn(a.B.Method) != "IsLoggedOn" {
					return false
				}
				return a.B.Recv != nil && a.B.Recv.Mentions(func(x *Org) bool {
					return x.Kind == "call" && x.Callee != nil && fnName(x.Callee) == "FixMsgIn"
				})
			})
			c.Check(okG, name, p.InstrPos(r), "wrapper-keeps-logged-on", "returns itself only while the delegate's result is still logged on",
				"the "+T.Obj().Name()+" state returns itself under "+d.String()+" without having established that the in-session handler's result is still logged on: after the engine sent its own Logout (or disconnected) the session would be put back into a logged-on state and queued application messages would be transmitted after the Logout")
		}
	}
	if n == 0 {
		c.Violation("", "-", "no-wrapper", "no logged-on state delegates to the in-session handler")
	}
}

// embeds: named struct type T embeds (transitively) the named type E.
func embeds(T, E *types.Named) bool {
	if T == E {
		return true
	}
	st, ok := T.Underlying().(*types.Struct)
	if !ok {
		return false
	}
	for i := 0; i < st.NumFields(); i++ {
		f := st.Field(i)
		if f.Embedded() {
			if n := namedOf(f.Type()); n != nil && embeds(n, E) {
				return true
			}
		}
	}
	return false
}

// C08-R7: once a handler has initiated the engine's Logout, it does not hand the session back
// to a logged-on state: every return reachable after a call of a logout initiator yields the
// logout state (or a delegation / the send-failure exit), never the receiver state or inSession.
func c08R7(c *Ctx) {
	p := c.P
	inits := p.logoutInitiators()
	n := 0
	for _, fn := range p.FuncsIn(modPath) {
		res := fn.Signature.Results()
		if res.Len() != 1 || typeName(res.At(0).Type()) != "sessionState" || containsFn(inits, fn) {
			continue
		}
		for _, cl := range Calls(fn) {
			cal := cl.Common().StaticCallee()
			if cal == nil || !containsFn(inits, cal) {
				continue
			}
			n++
			okAll := true
			for _, b := range fn.Blocks {
				ret, ok := b.Instrs[len(b.Instrs)-1].(*ssa.Return)
				if !ok {
					continue
				}
				after := b == cl.Block() || reaches(cl.Block(), b)
				if !after {
					continue
				}
				// the value returned
				var vals []ssa.Value
				if phi, isPhi := ret.Results[0].(*ssa.Phi); isPhi {
					vals = append(vals, phi.Edges...)
				} else {
					vals = append(vals, ret.Results[0])
				}
				for _, v := range vals {
					good := false
					switch x := v.(type) {
					case *ssa.MakeInterface:
						tn := typeName(x.X.Type())
						good = tn == "logoutState" || tn == "latentState"
					case *ssa.Call:
						good = true // delegation (send-failure exit, another handler)
					}
					if o := p.Origin(v); o.Kind == "call" {
						good = true
					}
					if !good {
						okAll = false
						c.Violation(FuncName(fn), p.InstrPos(ret), "state-after-logout-initiated", "after initiating the engine's Logout (at "+p.InstrPos(cl.(ssa.Instruction))+") the handler returns "+p.Origin(v).String()+" instead of the logout state: the session stays logged on after its own Logout went out, application messages keep being transmitted and the logout timeout is ignored")
					}
				}
			}
			if okAll {
				c.OK(FuncName(fn), p.InstrPos(cl.(ssa.Instruction)), "every return after the Logout was initiated yields the logout state or delegates")
			}
		}
	}
	if n == 0 {
		c.Violation("", "-", "no-logout-initiation", "no state handler initiates a Logout")
	}
}

// C08-R8: every logged-on period starts with a logon notification. In the function that invokes
// OnLogon, every return that lets the session become logged on — a nil error, or the too-high
// error that starts a recovery (the recovery state is logged on) — comes after the OnLogon call.
// C08-R9: once the engine's Logout is out, nothing puts the session back into a logged-on state:
// the logout state's handlers return the logout state, the latent state, or the delegate's
// result only when that result is the latent (not logged on) state.
func c08R8(c *Ctx) {
	p := c.P
	g := getGate(p)
	n := 0
	for _, fn := range p.FuncsIn(modPath) {
		var on ssa.CallInstruction
		for _, cl := range Calls(fn) {
			if cl.Common().IsInvoke() && cn(cl.Common().Method) == "OnLogon" {
				on = cl
			}
		}
		if on == nil || fn.Signature.Results().Len() != 1 || !isErrorType(fn.Signature.Results().At(0).Type()) {
			continue
		}
		mf := &MustFlow{Fn: fn, Transfer: func(in ssa.Instruction, s Set) {
			if in == on.(ssa.Instruction) {
				s["notified"] = true
			}
		}}
		for r, st := range mf.AtReturns() {
			ev := r.Results[0]
			o := p.Origin(ev)
			tooHigh := false
			o.Mentions(func(x *Org) bool {
				if x.Kind == "call" && x.Callee == g.tooHigh {
					tooHigh = true
				}
				if x.Val != nil {
					if mi, ok := x.Val.(*ssa.MakeInterface); ok && typeName(mi.X.Type()) == "targetTooHigh" {
						tooHigh = true
					}
				}
				return false
			})
			if mi, ok := ev.(*ssa.MakeInterface); ok && typeName(mi.X.Type()) == "targetTooHigh" {
				tooHigh = true
			}
			if !p.possibleSuccess(r) && !tooHigh {
				continue
			}
			n++
			c.Check(st["notified"], FuncName(fn), p.InstrPos(r), "logon-notified-before-logged-on", "OnLogon precedes this return",
				"the logon handler can return "+o.String()+" — which makes the session logged on (in session, or recovering after a too-high Logon) — without having called OnLogon: application messages are then delivered and sent in a logged-on period the application was never told about, and it ends with an OnLogout that has no OnLogon")
		}
	}
	if n == 0 {
		c.Violation("", "-", "no-logon-handler", "no error-returning function invokes OnLogon")
	}
}

func c08R9(c *Ctx) {
	p := c.P
	lo := p.Named(modPath, "logoutState")
	n := 0
	for _, fn := range p.FuncsIn(modPath) {
		if fn.Signature.Recv() == nil || !types.Identical(fn.Signature.Recv().Type(), lo) || fn.Signature.Results().Len() != 1 || typeName(fn.Signature.Results().At(0).Type()) != "sessionState" {
			continue
		}
		for _, b := range fn.Blocks {
			ret, ok := b.Instrs[len(b.Instrs)-1].(*ssa.Return)
			if !ok {
				continue
			}
			for _, alt := range p.valueAlternatives(ret.Results[0], b, 0) {
				n++
				switch x := alt.val.(type) {
				case *ssa.MakeInterface:
					tn := typeName(x.X.Type())
					c.Check(tn == "logoutState" || tn == "latentState", FuncName(fn), p.InstrPos(ret), "after-logout-state", "returns "+tn, "after the engine's Logout the logout state hands the session to "+tn+", a logged-on state: application messages are transmitted again after the Logout")
				default:
					// a delegate's result: only when it is shown not logged on
					okG := alt.cond.Implies(func(a *Atom) bool {
						if a.Rel == "" && a.Val && a.B.Kind == "typeassert" && a.B.Res == 1 && typeName(a.B.AssTyp) == "latentState" {
							return true
						}
						return a.Rel == "" && !a.Val && a.B.Kind == "call" && a.B.Method != nil && cn(a.B.Method) == "IsLoggedOn"
					})
					c.Check(okG, FuncName(fn), p.InstrPos(ret), "after-logout-delegate", "the delegate's result is handed on only when it is the latent state", "after the engine's Logout the logout state returns the in-session handler's result under "+alt.cond.String()+", which does not confine it to the latent state: a too-high message makes it the recovery state, the session is logged on again and application messages are transmitted after the Logout")
				}
			}
		}
	}
	if n == 0 {
		c.Violation("", "-", "no-logout-state-handlers", "the logout state has no state-returning handlers")
	}
}
