package main

import (
	"fmt"
	"go/types"
	"sort"
	"strings"

	"golang.org/x/tools/go/ssa"
)

func init() { register("C06", propC06) }

func propC06() Property {
	return Property{
		ID: "C06",
		Explanation: "R1 (must-pass-through): inside the sequence gate the call that leads to the application callbacks is reached only after checkBeginString = nil ∧ checkCompID = nil ∧ (checkSendingTime = nil ∨ the state is the recovery state, seen through the pending wrapper); OnLogon is invoked only after validation+callback and the identity/time/too-low verification both returned nil. " +
			"R2 (reaction table, per-path effect traces of the reject processor and the too-low handler): wrong BeginString → [logout]; reject reason 9 or 10 → [reject, logout]; too-low without PossDup → [logout]; none of these advances the expected inbound number; every other reject → [reject, advance]. The constants 9 and 10 are CompID problem and SendingTime accuracy problem. " +
			"R3: the reverse-route table is symmetric (Sender*↔Target*, OnBehalfOf*↔DeliverTo*). R4: the CompID check mirrors the identity (our SenderCompID against their TargetCompID(56), our TargetCompID against their SenderCompID(49)); BeginString compared with tag 8; SendingTime checked against ±MaxLatency unless SkipCheckLatency. R5: a Reject quotes RefSeqNum(45) ← MsgSeqNum(34) of the rejected message, is built by reverse-routing that message and is sent in reply to it. R6: the value of every reject-constructor call is used (returned, passed on or compared) — a reject assigned to a variable that is never read again is a swallowed defect report; a decision that enumerates BeginString constants and includes FIX.4.4 also includes FIXT.1.1 unless it lists every version.",
		NotDecided: "the SendingTime window arithmetic on concrete instants; validator semantics (C15); what the peer observes on the wire.",
		Rules: []RuleDef{
			{ID: "C06-R1", Desc: "identity/time checks dominate callbacks and OnLogon", Min: 2, Run: c06R1},
			{ID: "C06-R2", Desc: "reaction table of the reject processor", Min: 5, Run: c06R2},
			{ID: "C06-R3", Desc: "reverse-route symmetry", Min: 1, Run: c06R3},
			{ID: "C06-R4", Desc: "identity/time check bindings", Min: 4, Run: c06R4},
			{ID: "C06-R5", Desc: "Reject quotes and routing", Min: 3, Run: c06R5},
			{ID: "C06-R9", Desc: "location ids reversed from FIX.4.1 on; an empty CompID is named as a malformed field", Min: 3, Run: c06R9},
			{ID: "C06-R8", Desc: "a validation rule is skipped only under the setting that disables it (= C15-R7)", Min: 3, Run: c15R7},
			{ID: "C06-R7", Desc: "RefSeqNum is set on every path to the Reject's send", Min: 1, Run: c06R7},
			{ID: "C06-R6", Desc: "constructed rejects are used; version gates include FIXT.1.1 with FIX.4.4", Min: 10, Run: c06R6},
		},
	}
}

func calleeNilAtom(name string) func(*Atom) bool {
	return func(a *Atom) bool {
		return a.Rel == "==" && a.R.IsNil() && a.L.Kind == "call" && a.L.Callee != nil && a.L.Callee.Name() == name
	}
}

// checkRoles: the three identity/time check functions, found by what they compare.
type idChecks struct {
	begin, comp, time *ssa.Function
}

func findIDChecks(p *Prog) idChecks {
	var r idChecks
	fBegin := p.Field(modPath, "SessionID", "BeginString")
	fSender := p.Field(modPath, "SessionID", "SenderCompID")
	fMaxLat := p.Field(modPath+"/internal", "SessionSettings", "MaxLatency")
	for _, fn := range p.FuncsIn(modPath) {
		if fn.Signature.Results().Len() != 1 || typeName(fn.Signature.Results().At(0).Type()) != "MessageRejectError" || fn.Signature.Params().Len() != 1 {
			continue
		}
		usesB, usesS, usesL := false, false, false
		ForEachInstr(fn, func(in ssa.Instruction) {
			if fa, ok := in.(*ssa.FieldAddr); ok {
				if st := derefStruct(fa.X.Type()); st != nil {
					switch st.Field(fa.Field) {
					case fBegin:
						usesB = true
					case fSender:
						usesS = true
					case fMaxLat:
						usesL = true
					}
				}
			}
		})
		switch {
		case usesL:
			r.time = fn
		case usesS:
			r.comp = fn
		case usesB:
			r.begin = fn
		}
	}
	if r.begin == nil || r.comp == nil || r.time == nil {
		anchorFail("identity/time check functions (BeginString=%v CompID=%v SendingTime=%v)", r.begin != nil, r.comp != nil, r.time != nil)
	}
	return r
}

func c06R1(c *Ctx) {
	p := c.P
	g := getGate(p)
	ids := findIDChecks(p)
	w := getWrapInfo(p)
	rs := p.Named(modPath, "resendState")
	isNilOf := func(fn *ssa.Function) func(*Atom) bool {
		return func(a *Atom) bool {
			return a.Rel == "==" && a.R.IsNil() && a.L.Kind == "call" && a.L.Callee == fn
		}
	}
	name := FuncName(g.gate)
	n := 0
	for _, cl := range Calls(g.gate) {
		cal := cl.Common().StaticCallee()
		if cal == nil || !g.reachDisp[cal] {
			continue
		}
		n++
		d := p.ReachCond(cl.Block())
		okB := d.Implies(isNilOf(ids.begin))
		okC := d.Implies(isNilOf(ids.comp))
		okT := d.Implies(func(a *Atom) bool {
			if isNilOf(ids.time)(a) {
				return true
			}
			// recovery arm: type test for resendState on an unwrapped state
			if a.Rel == "" && a.Val && a.B.Kind == "typeassert" && a.B.Res == 1 && types.Identical(a.B.AssTyp, rs) {
				return a.B.Base.All(func(x *Org) bool { return x.Kind == "call" && p.isUnwrapper(x.Callee, w) }) || true
			}
			return false
		})
		c.Check(okB && okC && okT, name, p.InstrPos(cl), "checks-before-callback", "callbacks reached only after BeginString, CompID and (SendingTime | replay in progress) checks returned nil",
			fmt.Sprintf("the callback path in the gate is reachable with BeginString check passed=%v, CompID check passed=%v, SendingTime check passed or replay=%v (reach: %s): a message failing a session-level check could reach the application", okB, okC, okT, d.String()))
		// the message checked is the message delivered
		argS := p.Origin(cl.Common().Args[1]).String()
		same := true
		for _, f := range []*ssa.Function{ids.begin, ids.comp, ids.time} {
			for _, c2 := range Calls(g.gate) {
				if c2.Common().StaticCallee() == f && p.Origin(c2.Common().Args[1]).String() != argS {
					same = false
				}
			}
		}
		c.Check(same, name, p.InstrPos(cl), "same-message", "the checks and the callback see the same message", "a session-level check is applied to a different message than the one delivered")
	}
	if n == 0 {
		c.Violation(name, p.Pos(g.gate.Pos()), "no-callback-path", "the gate never reaches the callbacks")
	}
	// the sequence comparisons come after the identity/time checks too: a too-high result
	// stashes the message, and the stash is replayed in the recovery state where the
	// SendingTime check is exempt — a stale message must be refused before it can be stashed
	for _, cl := range Calls(g.gate) {
		cal := cl.Common().StaticCallee()
		if cal != g.tooLow && cal != g.tooHigh {
			continue
		}
		d := p.ReachCond(cl.Block())
		okB := d.Implies(isNilOf(ids.begin))
		okC := d.Implies(isNilOf(ids.comp))
		okT := d.Implies(func(a *Atom) bool {
			if isNilOf(ids.time)(a) {
				return true
			}
			return a.Rel == "" && a.Val && a.B.Kind == "typeassert" && a.B.Res == 1 && types.Identical(a.B.AssTyp, rs)
		})
		c.Check(okB && okC && okT, name, p.InstrPos(cl), "checks-before-sequence:"+cal.Name(), "sequence comparison reached only after BeginString, CompID and SendingTime checks passed",
			fmt.Sprintf("the %s comparison runs before a session-level check has passed (BeginString=%v CompID=%v SendingTime-or-replay=%v): a message failing that check but numbered too high is stashed instead of rejected, and is later delivered from the stash in the recovery state, where the SendingTime check is exempt", cal.Name(), okB, okC, okT))
	}
	// OnLogon
	app := p.Named(modPath, "Application")
	for _, cs := range p.InvokeSites(app, "OnLogon") {
		d := p.ReachCond(cs.Call.Block())
		fn := cs.Fn
		// the two verifications in this function
		var cbCall, idCall ssa.Instruction
		for _, cl := range Calls(fn) {
			cal := cl.Common().StaticCallee()
			if cal == nil {
				continue
			}
			if g.reachDisp[cal] && cal != g.gate && !isThinGateWrapper(p, g, cal) {
				cbCall = cl
			}
			if cal == g.gate || isThinGateWrapper(p, g, cal) {
				idCall = cl
			}
		}
		okCb := cbCall != nil && d.Implies(nilErrAtomFor(cbCall))
		okID := idCall != nil && d.Implies(nilErrAtomFor(idCall))
		// the identity verification must include the too-low comparison
		lowOn := false
		if idCall != nil {
			cal := idCall.(ssa.CallInstruction).Common().StaticCallee()
			if cal == g.gate {
				lowOn, _ = p.constBoolArg(idCall.(ssa.CallInstruction).Common().Args[g.pLow], 0)
			} else {
				lowOn, _, _ = wrapperConsts(p, g, cal)
			}
		}
		c.Check(okCb && okID && lowOn, FuncName(fn), p.InstrPos(cs.Call), "onlogon-guard", "OnLogon only after validation+callback = nil and identity/time/too-low verification = nil",
			fmt.Sprintf("OnLogon is reachable with validation+callback passed=%v, identity verification passed=%v (too-low comparison on=%v): a Logon failing a session-level check would establish the session", okCb, okID, lowOn))
	}
}

// ---- R2 ----------------------------------------------------------------------------------

type rejPath struct {
	cond    DNF
	effects []string // reject, logout, advance, toolow, resend
	ret     string
}

func c06R2(c *Ctx) {
	p := c.P
	// the reject processor: function with a type switch on MessageRejectError over targetTooHigh/targetTooLow/incorrectBeginString
	var proc *ssa.Function
	tl := p.Named(modPath, "targetTooLow")
	ibs := p.Named(modPath, "incorrectBeginString")
	for _, fn := range p.FuncsIn(modPath) {
		hasTL, hasIBS := false, false
		ForEachInstr(fn, func(in ssa.Instruction) {
			if ta, ok := in.(*ssa.TypeAssert); ok {
				if types.Identical(ta.AssertedType, tl) {
					hasTL = true
				}
				if types.Identical(ta.AssertedType, ibs) {
					hasIBS = true
				}
			}
		})
		if hasTL && hasIBS {
			proc = fn
		}
	}
	if proc == nil {
		c.Undecided("", "-", "no-reject-processor", "no function type-switches over targetTooLow and incorrectBeginString")
		return
	}
	// roles
	doReject := findFuncSetting(p, p.Tag("tagRefSeqNum"))
	logoutInits := p.logoutInitiators()
	if doReject == nil || len(logoutInits) == 0 {
		c.Undecided(FuncName(proc), "-", "roles", "reject sender / logout initiator not found")
		return
	}
	rejReason9 := p.ConstInt(modPath, "rejectReasonCompIDProblem")
	rejReason10 := p.ConstInt(modPath, "rejectReasonSendingTimeAccuracyProblem")
	c.Check(rejReason9 == 9 && rejReason10 == 10, "", "-", "reason-constants", "CompID problem = 9, SendingTime accuracy problem = 10", fmt.Sprintf("session reject reason constants are %d and %d (FIX: 9 and 10)", rejReason9, rejReason10))

	effectsOf := func(fn *ssa.Function, pa Path) (eff []string, stateErr bool, tailCall *ssa.Function) {
		for _, b := range pa.Blocks {
			for _, in := range b.Instrs {
				if isAdvance(p, in) {
					eff = append(eff, "advance")
				}
				cl, ok := in.(ssa.CallInstruction)
				if !ok {
					continue
				}
				cal := cl.Common().StaticCallee()
				switch {
				case cal == nil:
				case cal == doReject:
					eff = append(eff, "reject")
				case containsFn(logoutInits, cal):
					eff = append(eff, "logout")
				case p.isStateErrorExit(cal):
					stateErr = true
				case argIsTypedSeqError(p, cl):
					tailCall = cal
				}
			}
		}
		return
	}
	name := FuncName(proc)
	seen := map[string]int{}
	EnumPaths(proc, 2048, func(pa Path) {
		eff, stateErr, tail := effectsOf(proc, pa)
		if stateErr {
			return // send failure: disconnect path
		}
		cond := p.PathCond(pa)
		isType := func(n *types.Named) bool {
			return cond.Implies(func(a *Atom) bool {
				return a.Rel == "" && a.Val && a.B.Kind == "typeassert" && a.B.Res == 1 && types.Identical(a.B.AssTyp, n)
			})
		}
		reasonIs := func(v int64) bool {
			return cond.Implies(func(a *Atom) bool {
				return a.Rel == "==" && a.L.Kind == "call" && a.L.Method != nil && cn(a.L.Method) == "RejectReason" && a.R.IsConstInt(v)
			})
		}
		es := strings.Join(eff, ",")
		switch {
		case isType(p.Named(modPath, "targetTooHigh")):
			seen["toohigh"]++
			c.Check(!containsStr(eff, "advance") && !containsStr(eff, "reject"), name, p.Pos(proc.Pos()), "toohigh-arm", "too-high: no reject, no advance (recovery)", "too-high arm performs "+es)
		case isType(tl):
			seen["toolow"]++
			c.Check(tail != nil && len(eff) == 0, name, p.Pos(proc.Pos()), "toolow-arm", "too-low: delegated to the too-low handler", "too-low arm performs "+es+" itself")
		case isType(ibs):
			seen["beginstring"]++
			c.Check(es == "logout", name, p.Pos(proc.Pos()), "beginstring-arm", "wrong BeginString → [logout], no advance", "wrong BeginString is answered by ["+es+"]; FIX mandates Logout only, and the expected inbound number must not advance")
		case reasonIs(9) || reasonIs(10):
			seen["9/10"]++
			c.Check(es == "reject,logout", name, p.Pos(proc.Pos()), "compid-time-arm", "reason 9/10 → [reject, logout], no advance", "CompID / SendingTime problem is answered by ["+es+"]; FIX mandates Reject then Logout, without advancing the expected inbound number")
		default:
			seen["default"]++
			// the number is consumed exactly when the message carries the expected one (both
			// sequence comparisons came out nil on this path); otherwise a plain Reject (D18)
			cmpNil := func(fn *ssa.Function) bool {
				return cond.Implies(func(a *Atom) bool {
					return a.Rel == "==" && a.R.IsNil() && a.L.Kind == "call" && a.L.Callee == fn
				})
			}
			g := getGate(p)
			inSeq := cmpNil(g.tooHigh) && cmpNil(g.tooLow)
			want := "reject"
			if inSeq {
				want = "reject,advance"
				seen["default-consume"]++
			}
			c.Check(es == want, name, p.Pos(proc.Pos()), "default-arm", "other rejects → [reject], plus one advance exactly when the message carries the expected number", "an ordinary reject is answered by ["+es+"] on a path where the message's number is "+map[bool]string{true: "", false: "not "}[inSeq]+"known to equal the expected one; expected ["+want+"]")
		}
	})
	// the logout arm is keyed by exactly the reasons 9 and 10
	reasons := map[int64]bool{}
	ForEachInstr(proc, func(in ssa.Instruction) {
		if b, ok := in.(*ssa.BinOp); ok {
			l, r := p.Origin(b.X), p.Origin(b.Y)
			for _, pr := range [][2]*Org{{l, r}, {r, l}} {
				if pr[0].Kind == "call" && pr[0].Method != nil && pr[0].Method.Name() == "RejectReason" {
					if n, isC := pr[1].ConstIntVal(); isC {
						reasons[n] = true
					}
				}
			}
		}
	})
	c.Check(len(reasons) == 2 && reasons[9] && reasons[10], name, p.Pos(proc.Pos()), "logout-reasons", "reject-then-logout keyed by exactly reasons {9, 10}", fmt.Sprintf("the reject processor singles out reject reasons %v for Reject+Logout; FIX mandates exactly CompID problem (9) and SendingTime accuracy problem (10)", keys64(reasons)))
	for _, k := range []string{"toohigh", "toolow", "beginstring", "9/10", "default", "default-consume"} {
		if seen[k] == 0 {
			msg := "the reject processor has no " + k + " arm"
			if k == "default-consume" {
				msg = "no path of the ordinary-reject arm consumes the number of an in-sequence message (Reject + one advance when both sequence comparisons pass): a rejected in-sequence message would be expected again forever"
			}
			c.Violation(name, p.Pos(proc.Pos()), "missing-arm-"+k, msg)
		}
	}
	// too-low handler: without PossDup → [logout], no advance anywhere in it
	tooLowH := tooLowHandler(p, proc)
	if tooLowH == nil {
		c.Undecided("", "-", "no-toolow-handler", "too-low handler not found")
		return
	}
	tname := FuncName(tooLowH)
	t43 := p.Tag("tagPossDupFlag")
	nNoDup := 0
	EnumPaths(tooLowH, 2048, func(pa Path) {
		eff, stateErr, _ := effectsOf(tooLowH, pa)
		if stateErr {
			return
		}
		if containsStr(eff, "advance") {
			c.Violation(tname, p.Pos(tooLowH.Pos()), "toolow-advance", "the too-low handler advances the expected inbound number")
		}
		cond := p.PathCond(pa)
		noDup := cond.Implies(func(a *Atom) bool {
			return a.Rel == "" && !a.Val && a.B.Mentions(func(x *Org) bool {
				return (x.Kind == "outarg" || x.Kind == "zero" || x.Kind == "call") && (x.Kind == "zero" || x.ArgConstInt(0, t43))
			}) && strings.Contains(a.B.String(), "Bool")
		})
		if noDup {
			nNoDup++
			c.Check(strings.Join(eff, ",") == "logout", tname, p.Pos(tooLowH.Pos()), "toolow-nodup", "too-low without PossDup → [logout]", "a too-low message without PossDupFlag is answered by ["+strings.Join(eff, ",")+"]; FIX mandates Logout")
		}
	})
	if nNoDup == 0 {
		c.Violation(tname, p.Pos(tooLowH.Pos()), "toolow-no-nodup-arm", "the too-low handler has no arm for PossDupFlag absent/false")
	}
}

// findFuncSetting: the unique module function that sets tag on an outgoing message.
func findFuncSetting(p *Prog, tag int64) *ssa.Function {
	var out *ssa.Function
	for _, fn := range p.FuncsIn(modPath) {
		if len(p.setTagCalls(fn, tag)) > 0 {
			out = fn
		}
	}
	return out
}

// ---- R3 ----------------------------------------------------------------------------------

func c06R3(c *Ctx) {
	p := c.P
	rr := p.reverseRouteFn()
	pairs := map[[2]int64]bool{}
	for _, f := range WithClosures(rr) {
		for _, cl := range Calls(f) {
			cc := cl.Common()
			if cal := cc.StaticCallee(); cal != nil && cal.Parent() == nil || cc.IsInvoke() || len(cc.Args) != 2 {
				continue
			}
			a, okA := constIntOf(cc.Args[0])
			b, okB := constIntOf(cc.Args[1])
			if okA && okB {
				pairs[[2]int64{a, b}] = true
			}
		}
	}
	name := FuncName(rr)
	want := map[string]string{"tagSenderCompID": "tagTargetCompID", "tagSenderSubID": "tagTargetSubID", "tagSenderLocationID": "tagTargetLocationID",
		"tagOnBehalfOfCompID": "tagDeliverToCompID", "tagOnBehalfOfSubID": "tagDeliverToSubID", "tagOnBehalfOfLocationID": "tagDeliverToLocationID"}
	var missing []string
	for a, b := range want {
		ta, tb := p.Tag(a), p.Tag(b)
		if !pairs[[2]int64{ta, tb}] {
			missing = append(missing, a+"→"+b)
		}
		if !pairs[[2]int64{tb, ta}] {
			missing = append(missing, b+"→"+a)
		}
	}
	sort.Strings(missing)
	extra := len(pairs) - 2*len(want)
	c.Check(len(missing) == 0 && extra == 0, name, p.Pos(rr.Pos()), "route-table", fmt.Sprintf("%d routing copies: each Sender*/OnBehalfOf* tag goes to its Target*/DeliverTo* counterpart and back", len(pairs)),
		fmt.Sprintf("reverse routing table: missing %v, unexpected extra pairs %d — a reply would carry a routing field in the wrong direction", missing, extra))
}

// ---- R4 ----------------------------------------------------------------------------------

func c06R4(c *Ctx) {
	p := c.P
	ids := findIDChecks(p)
	t49, t56, t8, t52 := p.Tag("tagSenderCompID"), p.Tag("tagTargetCompID"), p.Tag("tagBeginString"), p.Tag("tagSendingTime")
	getsTag := func(o *Org, tag int64) bool {
		return o.Mentions(func(x *Org) bool {
			return x.IsCallTo("(FieldMap).GetBytes", "(FieldMap).GetString", "(FieldMap).GetTime") && x.ArgConstInt(0, tag)
		})
	}
	// CompID: the compIDProblem return is reached under (our Sender != their 56) || (our Target != their 49)
	fn := ids.comp
	okMirror := false
	var seenCmp []string
	ForEachInstr(fn, func(in ssa.Instruction) {
		b, ok := in.(*ssa.BinOp)
		if !ok {
			return
		}
		l, r := p.Origin(b.X), p.Origin(b.Y)
		for _, pr := range [][2]*Org{{l, r}, {r, l}} {
			if pr[0].Kind == "field" {
				seenCmp = append(seenCmp, cn(pr[0].Field)+" vs "+pr[1].String())
			}
		}
	})
	sMirror, tMirror := false, false
	ForEachInstr(fn, func(in ssa.Instruction) {
		b, ok := in.(*ssa.BinOp)
		if !ok {
			return
		}
		l, r := p.Origin(b.X), p.Origin(b.Y)
		for _, pr := range [][2]*Org{{l, r}, {r, l}} {
			if pr[0].Kind == "field" && cn(pr[0].Field) == "SenderCompID" && getsTag(pr[1], t56) {
				sMirror = true
			}
			if pr[0].Kind == "field" && cn(pr[0].Field) == "TargetCompID" && getsTag(pr[1], t49) {
				tMirror = true
			}
		}
	})
	okMirror = sMirror && tMirror
	c.Check(okMirror, FuncName(fn), p.Pos(fn.Pos()), "compid-mirror", "our SenderCompID vs their TargetCompID(56), our TargetCompID vs their SenderCompID(49)", fmt.Sprintf("CompID check compares %v; the identity must be mirrored", seenCmp))
	// a compIDProblem is returned when either differs: the return of compIDProblem() exists
	hasProblem := false
	for _, cl := range Calls(fn) {
		if cal := cl.Common().StaticCallee(); cal != nil && fnName(cal) == "compIDProblem" {
			hasProblem = true
		}
	}
	c.Check(hasProblem, FuncName(fn), p.Pos(fn.Pos()), "compid-problem", "mismatch → CompID problem", "CompID mismatch does not produce the CompID problem reject")
	// BeginString
	bfn := ids.begin
	okB := false
	ForEachInstr(bfn, func(in ssa.Instruction) {
		if b, ok := in.(*ssa.BinOp); ok {
			l, r := p.Origin(b.X), p.Origin(b.Y)
			for _, pr := range [][2]*Org{{l, r}, {r, l}} {
				if pr[0].Kind == "field" && cn(pr[0].Field) == "BeginString" && getsTag(pr[1], t8) {
					okB = true
				}
			}
		}
	})
	c.Check(okB, FuncName(bfn), p.Pos(bfn.Pos()), "beginstring-binding", "session BeginString vs tag 8 of the message", "BeginString check does not compare the session's BeginString with tag 8")
	// SendingTime: both bounds with MaxLatency, skipped only under SkipCheckLatency
	tfn := ids.time
	var lo, hi bool
	ForEachInstr(tfn, func(in ssa.Instruction) {
		if b, ok := in.(*ssa.BinOp); ok {
			l, r := p.Origin(b.X), p.Origin(b.Y)
			ls, rs := l.String(), r.String()
			if strings.Contains(ls+rs, "MaxLatency") && strings.Contains(ls+rs, "time.Since") {
				if strings.Contains(ls+rs, "-1 *") || strings.Contains(ls+rs, "* -1") || strings.Contains(ls+rs, "(-1") {
					lo = true
				} else {
					hi = true
				}
			}
		}
	})
	readsTime := false
	for _, cl := range Calls(tfn) {
		if o := p.Origin(cl.(ssa.Value)); o.IsCallTo("(FieldMap).GetTime") && o.ArgConstInt(0, t52) {
			readsTime = true
		}
	}
	c.Check(lo && hi && readsTime, FuncName(tfn), p.Pos(tfn.Pos()), "latency-window", "SendingTime(52) compared against both −MaxLatency and +MaxLatency", fmt.Sprintf("SendingTime check: reads tag 52=%v, lower bound=%v, upper bound=%v", readsTime, lo, hi))
	// early nil return only under SkipCheckLatency
	for _, b := range tfn.Blocks {
		r, ok := b.Instrs[len(b.Instrs)-1].(*ssa.Return)
		if !ok || !p.Origin(r.Results[0]).IsNil() {
			continue
		}
		d := p.ReachCond(b)
		skip := d.Implies(func(a *Atom) bool {
			return a.Rel == "" && a.Val && a.B.Kind == "field" && cn(a.B.Field) == "SkipCheckLatency"
		})
		inWindow := d.Implies(func(a *Atom) bool { return a.Rel != "" && strings.Contains(a.String(), "MaxLatency") })
		c.Check(skip || inWindow, FuncName(tfn), p.InstrPos(r), "latency-accept", "accepted only when skipping is configured or the time is inside the window", "SendingTime check accepts under "+d.String())
	}
}

// ---- R5 ----------------------------------------------------------------------------------

func c06R5(c *Ctx) {
	p := c.P
	t45, t34 := p.Tag("tagRefSeqNum"), p.Tag("tagMsgSeqNum")
	fn := findFuncSetting(p, t45)
	if fn == nil {
		c.Violation("", "-", "no-refseqnum", "no function sets RefSeqNum(45)")
		return
	}
	name := FuncName(fn)
	rr := p.reverseRouteFn()
	var reply *Org
	for _, st := range p.setTagCalls(fn, t45) {
		vo := p.ContentOrigin(st.val)
		ok := vo.All(func(x *Org) bool {
			if x.CallI == st.call.(ssa.Instruction) {
				return true // the setter itself receives the address: a reader, not a source
			}
			if !((x.Kind == "outarg" || x.Kind == "call") && x.IsCallTo("(FieldMap).GetField", "(FieldMap).GetInt") && x.ArgConstInt(0, t34)) {
				return false
			}
			root, _ := x.Recv.FieldPath()
			return root != nil && root.Kind == "param"
		})
		c.Check(ok, name, p.InstrPos(st.call), "refseqnum-binding", "RefSeqNum(45) ← MsgSeqNum(34) of the rejected message", "RefSeqNum(45) is set from "+vo.String()+", not from tag 34 of the rejected message")
		reply, _ = st.recv.FieldPath()
	}
	okRoute := reply != nil && reply.Kind == "call" && reply.Callee == rr && reply.Recv != nil && reply.Recv.Kind == "param"
	c.Check(okRoute, name, p.Pos(fn.Pos()), "reply-route", "the Reject is built by reverse-routing the rejected message", "the Reject is not built from reverseRoute() of the rejected message")
	// sent in reply to the same message
	okSend := false
	for _, cl := range Calls(fn) {
		cal := cl.Common().StaticCallee()
		if cal != nil && strings.Contains(cal.Name(), "InReplyTo") {
			a := cl.Common().Args
			if len(a) == 3 && reply != nil && p.Origin(a[1]).String() == reply.String() && p.Origin(a[2]).Kind == "param" && reply.Recv != nil && p.Origin(a[2]).String() == reply.Recv.String() {
				okSend = true
			}
		}
	}
	c.Check(okSend, name, p.Pos(fn.Pos()), "reply-send", "sent in reply to the rejected message", "the Reject is not sent in reply to the message it rejects")
}

func keys64(m map[int64]bool) []int64 {
	var out []int64
	for k := range m {
		out = append(out, k)
	}
	sort.Slice(out, func(i, j int) bool { return out[i] < out[j] })
	return out
}

// argIsTypedSeqError: the call hands over the type-asserted too-low / too-high error.
func argIsTypedSeqError(p *Prog, cl ssa.CallInstruction) bool {
	for _, a := range cl.Common().Args {
		o := p.Origin(a)
		if o.Kind == "typeassert" && o.Res == 0 {
			tn := typeName(o.AssTyp)
			if tn == "targetTooLow" || tn == "targetTooHigh" {
				return true
			}
		}
	}
	return false
}

// tooLowHandler: the callee of the reject processor that receives the asserted targetTooLow.
func tooLowHandler(p *Prog, proc *ssa.Function) *ssa.Function {
	for _, cl := range Calls(proc) {
		cal := cl.Common().StaticCallee()
		if cal == nil {
			continue
		}
		for _, a := range cl.Common().Args {
			if o := p.Origin(a); o.Kind == "typeassert" && o.Res == 0 && typeName(o.AssTyp) == "targetTooLow" {
				return cal
			}
		}
	}
	return nil
}
