package main

import (
	"fmt"
	"go/types"
	"sort"
	"strings"

	"golang.org/x/tools/go/ssa"
)

func init() { register("C07", propC07) }

func propC07() Property {
	return Property{
		ID: "C07",
		Explanation: "R1 (guarded reset): for every call of MessageStore.Reset on the session's store and every chain of static callers up to a root (depth <= 8), the guards along the chain contain a configured or negotiated reason: ResetOnLogon / ResetOnLogout / ResetOnDisconnect true, ResetSeqNumFlag(141)=Y on the message being sent or received, the store's creation time being outside the current session window, or the chain starts at the exported ResetSession. The same holds for SetNextSenderMsgSeqNum (operator API only). " +
			"R2 (forward-only SequenceReset, per-path traces): NewSeqNo > expected → set; NewSeqNo < expected → reject and no set; equal → nothing. R3 (no double reset): the reset for a received flag is guarded by sentReset = false; sentReset is set true only right after the reset performed for an outgoing Logon, and cleared on connect and after Logon handling. R4 (echo): the reply Logon's reset flag originates from the received ResetSeqNumFlag(141); the flag is only put on a Logon when the argument says so; shouldSendReset requires FIX.4.1+ and both counters at 1. R5 (shared with C11): every constant-tag access addresses the section the parser files the tag in (GapFillFlag read from the wrong section would turn every gap fill into a reset). R6 (no bypass): where a function resets under a ResetOn* option, the option test dominates every return that is not a delegation — no message-dependent early exit ends the exchange before the configured reset. R7: ResetSeqNumFlag(141) of an outgoing Logon is inspected after the application's ToAdmin callback (the application may set it there) and no callback follows the inspection. R8 (shared with C02): emptying the send queue and resetting the store are one critical section. R9 (shared with C16): Reset removes every file the file store opens. R10 (shared with C06): the store is reset for a Logon only after the Logon passed identity and application verification.",
		NotDecided: "counter values over sequences of events; that both sides end up at the same numbers.",
		Rules: []RuleDef{
			{ID: "C07-R1", Desc: "every store reset has a configured or negotiated reason on its caller chain", Min: 3, Run: c07R1},
			{ID: "C07-R2", Desc: "SequenceReset moves the expected number forward only", Min: 3, Run: c07R2},
			{ID: "C07-R3", Desc: "sentReset protocol (no double reset)", Min: 4, Run: c07R3},
			{ID: "C07-R4", Desc: "reset flag echo and emission", Min: 3, Run: c07R4},
			{ID: "C07-R5", Desc: "session handlers read each field from the section the parser files it in (= C11-R7)", Min: 20, Run: sectionAccessRule},
			{ID: "C07-R6", Desc: "a configured reset is not bypassed by an earlier exit", Min: 1, Run: c07R6},
			{ID: "C07-R7", Desc: "outgoing ResetSeqNumFlag inspected after the ToAdmin callback", Min: 1, Run: c07R7},
			{ID: "C07-R8", Desc: "a reset empties the queue and the store in one critical section (= C02-R7)", Min: 1, Run: c02R7},
			{ID: "C07-R9", Desc: "a reset removes every stored file of the old epoch (= C16-R13)", Min: 2, Run: c16R13},
			{ID: "C07-R15", Desc: "a reset persists the renewed creation time with the fresh counters (= C16-R4)", Min: 3, Run: c16R4},
			{ID: "C07-R14", Desc: "an outgoing reset Logon resets the store whether request or reply", Min: 1, Run: c07R14},
			{ID: "C07-R13", Desc: "database stores reset the cached counters only after the messages were deleted (= C16-R16)", Min: 2, Run: c16R16},
			{ID: "C07-R12", Desc: "NextExpectedMsgSeqNum(789) is evaluated only on a Logon without ResetSeqNumFlag", Min: 1, Run: c07R12},
			{ID: "C07-R11", Desc: "file counters are rewritten in place at fixed width (= C17-R3)", Min: 3, Run: c17R3},
			{ID: "C07-R10", Desc: "the store is reset for a Logon only after the Logon passed identity and application verification (= C06-R1)", Min: 4, Run: c06R1},
		},
	}
}

// resetReason: the atom gives a legitimate reason for resetting.
func resetReason(p *Prog, a *Atom) string {
	t141 := p.Tag("tagResetSeqNumFlag")
	if a.Rel == "" && a.Val && a.B != nil {
		if a.B.Kind == "field" {
			switch cn(a.B.Field) {
			case "ResetOnLogon", "ResetOnLogout", "ResetOnDisconnect":
				return cn(a.B.Field)
			}
		}
		// resetSeqNumFlag.Bool() / the FIXBoolean itself read from tag 141
		if a.B.Mentions(func(x *Org) bool {
			return (x.Kind == "outarg" || x.Kind == "call") && x.IsCallTo("(FieldMap).GetField", "(FieldMap).GetBool") && x.ArgConstInt(0, t141)
		}) {
			return "ResetSeqNumFlag(141)=Y"
		}
	}
	if a.Rel == "" && !a.Val && a.B != nil && a.B.Kind == "call" && strings.HasSuffix(a.B.CalleeName(), "IsInSameRange") {
		return "store created outside the current session window"
	}
	return ""
}

func chainReasons(p *Prog, site ssa.Instruction, depth int, seen map[*ssa.Function]bool) (ok bool, reasons []string, unguardedRoot string) {
	d := p.ReachCond(site.Block())
	if d.Implies(func(a *Atom) bool { return resetReason(p, a) != "" }) {
		var rs []string
		for _, a := range d.Atoms() {
			if r := resetReason(p, a); r != "" {
				rs = append(rs, r)
			}
		}
		sort.Strings(rs)
		return true, uniqStrings(rs), ""
	}
	fn := site.Parent()
	if fn.Parent() != nil {
		fn = TopFunc(fn)
	}
	if fn.Object() != nil && fn.Object().Exported() && fn.Signature.Recv() == nil && fnName(fn) == "ResetSession" {
		return true, []string{"explicit ResetSession API"}, ""
	}
	if depth >= 8 || seen[fn] {
		return false, nil, FuncName(fn)
	}
	seen[fn] = true
	defer delete(seen, fn)
	callers := p.StaticCallers(fn)
	if len(callers) == 0 {
		return false, nil, FuncName(fn)
	}
	all := true
	for _, cs := range callers {
		ok2, rs, root := chainReasons(p, cs, depth+1, seen)
		if !ok2 {
			all = false
			unguardedRoot = root + " ← " + FuncName(fn)
			break
		}
		reasons = append(reasons, rs...)
	}
	sort.Strings(reasons)
	return all, uniqStrings(reasons), unguardedRoot
}

func c07R1(c *Ctx) {
	p := c.P
	r := getRoles(p)
	for _, fn := range p.FuncsIn(modPath) {
		for _, cl := range r.storeCalls(fn, "Reset") {
			ok, reasons, root := chainReasons(p, cl, 0, map[*ssa.Function]bool{})
			c.Check(ok, FuncName(fn), p.InstrPos(cl), "reset-reason", "store reset reachable only for: "+strings.Join(reasons, " | "),
				"the message store is reset on a caller chain ("+root+") that carries no configured or negotiated reason (ResetOn*, ResetSeqNumFlag=Y, session window change, explicit API): sequence numbers and stored messages would be lost across an ordinary reconnect")
		}
		for _, cl := range r.storeCalls(fn, "SetNextSenderMsgSeqNum") {
			ok := fn.Object() != nil && fn.Object().Exported() && fn.Signature.Recv() == nil
			c.Check(ok, FuncName(fn), p.InstrPos(cl), "set-sender", "outbound counter set only by the operator API", "the outbound counter is set directly outside the operator API")
		}
	}
}

func c07R2(c *Ctx) {
	p := c.P
	r := getRoles(p)
	t36 := p.Tag("tagNewSeqNo")
	var handler *ssa.Function
	for _, fn := range p.FuncsIn(modPath) {
		if len(r.storeCalls(fn, "SetNextTargetMsgSeqNum")) > 0 && !(fn.Object() != nil && fn.Object().Exported() && fn.Signature.Recv() == nil) {
			handler = fn
		}
	}
	if handler == nil {
		c.Violation("", "-", "no-handler", "no SequenceReset handler")
		return
	}
	doReject := findFuncSetting(p, p.Tag("tagRefSeqNum"))
	name := FuncName(handler)
	isNew := func(o *Org) bool {
		return o.All(func(x *Org) bool {
			return (x.Kind == "outarg" || x.Kind == "call") && x.IsCallTo("(FieldMap).GetField", "(FieldMap).GetInt") && x.ArgConstInt(0, t36)
		})
	}
	isExp := func(o *Org) bool { return o.IsCallTo("(MessageStore).NextTargetMsgSeqNum") }
	seen := map[string]int{}
	EnumPaths(handler, 2048, func(pa Path) {
		sets, rejects := 0, 0
		stateErr := false
		for _, b := range pa.Blocks {
			for _, in := range b.Instrs {
				if _, ok := r.isStoreCall(in, "SetNextTargetMsgSeqNum"); ok {
					sets++
				}
				if cl, ok := in.(ssa.CallInstruction); ok {
					cal := cl.Common().StaticCallee()
					if cal == doReject && cal != nil {
						rejects++
					}
					if cal != nil && (p.isStateErrorExit(cal) || rejectProcessor(p) == cal) {
						stateErr = true
					}
				}
			}
		}
		if stateErr {
			return
		}
		cond := p.PathCond(pa)
		gt := cond.Implies(func(a *Atom) bool { return a.Rel == "<" && isExp(a.L) && isNew(a.R) })
		lt := cond.Implies(func(a *Atom) bool { return a.Rel == "<" && isNew(a.L) && isExp(a.R) })
		switch {
		case gt:
			seen["gt"]++
			c.Check(sets == 1 && rejects == 0, name, p.Pos(handler.Pos()), "newseqno-greater", "NewSeqNo > expected → set once", fmt.Sprintf("NewSeqNo > expected: %d set(s), %d reject(s)", sets, rejects))
		case lt:
			seen["lt"]++
			c.Check(sets == 0 && rejects == 1, name, p.Pos(handler.Pos()), "newseqno-lower", "NewSeqNo < expected → rejected, nothing changes", fmt.Sprintf("NewSeqNo < expected: %d set(s), %d reject(s); a lower NewSeqNo must be rejected and must not move the expected number", sets, rejects))
		default:
			seen["other"]++
			c.Check(sets == 0, name, p.Pos(handler.Pos()), "newseqno-other", "no NewSeqNo / equal → expected number untouched", fmt.Sprintf("a path without NewSeqNo > expected sets the expected inbound number (%d set(s))", sets))
		}
	})
	if seen["gt"] == 0 || seen["lt"] == 0 {
		c.Violation(name, p.Pos(handler.Pos()), "missing-arm", fmt.Sprintf("SequenceReset handler lacks the greater (%d) or the lower (%d) arm", seen["gt"], seen["lt"]))
	}
}

func c07R3(c *Ctx) {
	p := c.P
	r := getRoles(p)
	fSent := p.Field(modPath, "session", "sentReset")
	// stores
	nTrue, nFalse := 0, 0
	for _, st := range p.FieldStores(fSent) {
		bv, isB := p.Origin(st.Store.Val).ConstBoolVal()
		name := FuncName(st.Fn)
		if !isB {
			c.Violation(name, p.InstrPos(st.Store), "sentreset-nonconst", "sentReset assigned a computed value")
			continue
		}
		if bv {
			nTrue++
			// right after a store reset in the numbering (prep) role, under the outgoing 141 flag
			ok := containsFn(r.prep, st.Fn)
			resetBefore := false
			for _, cl := range r.storeCalls(st.Fn, "Reset") {
				if InstrDominates(cl, st.Store) && p.ReachCond(st.Store.Block()).Implies(nilErrAtomFor(cl.(ssa.Instruction))) {
					resetBefore = true
				}
			}
			c.Check(ok && resetBefore, name, p.InstrPos(st.Store), "sentreset-true", "sentReset = true only after the reset performed for an outgoing Logon succeeded", "sentReset is set true without a successful store reset for an outgoing Logon right before it")
		} else {
			nFalse++
			c.OK(name, p.InstrPos(st.Store), "sentReset cleared")
		}
	}
	if nTrue == 0 || nFalse < 2 {
		c.Violation("", "-", "sentreset-stores", fmt.Sprintf("sentReset is set true at %d site(s) and cleared at %d (expected: set when resetting for an outgoing Logon; cleared on connect and after Logon handling)", nTrue, nFalse))
	}
	// the received-flag reset is guarded by !sentReset
	t141 := p.Tag("tagResetSeqNumFlag")
	found := false
	for _, fn := range p.FuncsIn(modPath) {
		if containsFn(r.prep, fn) {
			continue
		}
		// a boolean store/phi edge "resetStore = true" under received 141: look for If on field sentReset
		ForEachInstr(fn, func(in ssa.Instruction) {
			ifi, ok := in.(*ssa.If)
			if !ok {
				return
			}
			d := p.CondAtoms(ifi.Cond, true)
			for _, a := range d.Atoms() {
				if a.Rel == "" && a.B.Kind == "field" && a.B.Field == fSent {
					// must be nested under the received flag
					rd := p.ReachCond(ifi.Block())
					if rd.Implies(func(b *Atom) bool {
						return b.Rel == "" && b.Val && b.B.Mentions(func(x *Org) bool { return (x.Kind == "outarg" || x.Kind == "call") && x.ArgConstInt(0, t141) })
					}) {
						found = true
					}
				}
			}
		})
		// and the reset in this function must be blocked when sentReset is true: the Reset call's reach
		for _, cl := range r.storeCalls(fn, "Reset") {
			d := p.ReachCond(cl.Block())
			usesFlag := false
			for _, a := range d.Atoms() {
				if a.B != nil && a.B.Mentions(func(x *Org) bool { return (x.Kind == "outarg" || x.Kind == "call") && x.ArgConstInt(0, t141) }) {
					usesFlag = true
				}
			}
			if !usesFlag {
				continue
			}
			// every conjunct that relies on the received flag also has !sentReset
			ok := true
			for _, cj := range d.Cs {
				hasFlag, hasNotSent := false, false
				for _, a := range cj {
					if a.Rel == "" && a.Val && a.B.Kind == "field" && strings.HasPrefix(cn(a.B.Field), "ResetOn") {
						hasNotSent = true // reset for a configured reason, independent of the flag
					}
					if a.B != nil && a.Val && a.B.Mentions(func(x *Org) bool { return (x.Kind == "outarg" || x.Kind == "call") && x.ArgConstInt(0, t141) }) {
						hasFlag = true
					}
					if a.Rel == "" && !a.Val && a.B.Kind == "field" && a.B.Field == fSent {
						hasNotSent = true
					}
				}
				if hasFlag && !hasNotSent {
					ok = false
				}
			}
			c.Check(ok, FuncName(fn), p.InstrPos(cl), "received-flag-guard", "reset for a received ResetSeqNumFlag only when we did not just reset ourselves (sentReset = false)", "the store is reset for a received ResetSeqNumFlag=Y even when this side has just reset for its own Logon (sentReset = true): the reply to our reset Logon would reset again and drop the Logon's own number")
		}
	}
	c.Check(found, "", "-", "sentreset-tested", "sentReset is tested under the received flag", "sentReset is never consulted when a Logon with ResetSeqNumFlag=Y is received")
}

func c07R4(c *Ctx) {
	p := c.P
	t141 := p.Tag("tagResetSeqNumFlag")
	fBegin := p.Field(modPath, "SessionID", "BeginString")
	// the Logon builder: sets tag 141 on a message of type "A"
	var builder *ssa.Function
	for _, fn := range p.FuncsIn(modPath) {
		for _, st := range p.setTagCalls(fn, t141) {
			root, _ := st.recv.FieldPath()
			if root != nil && root.IsCallTo("NewMessage") {
				if ts, ok := p.msgTypesOf(root.Val, 0); ok && len(ts) == 1 && ts[0] == "A" {
					builder = fn
					// only under the boolean parameter, value true
					d := p.ReachCond(st.call.Block())
					okG := d.Implies(func(a *Atom) bool { return a.Rel == "" && a.Val && a.B.Kind == "param" })
					bv, isB := p.Origin(st.val).ConstBoolVal()
					c.Check(okG && isB && bv, FuncName(fn), p.InstrPos(st.call), "flag-emission", "ResetSeqNumFlag(141)=Y put on a Logon only when the reset argument is true", "ResetSeqNumFlag is put on the Logon under "+d.String()+" with value "+p.Origin(st.val).String())
				}
			}
		}
	}
	if builder == nil {
		c.Violation("", "-", "no-logon-builder", "no function builds a Logon with ResetSeqNumFlag")
		return
	}
	// callers: reply to a received Logon passes the received flag
	for _, cs := range p.CallsTo(builder) {
		args := cs.Common().Args
		flag := p.Origin(args[1])
		reply := p.Origin(args[2])
		name := FuncName(cs.Fn)
		switch {
		case !reply.IsNil() && reply.Kind == "param":
			ok := flag.Mentions(func(x *Org) bool {
				return (x.Kind == "outarg" || x.Kind == "call") && x.IsCallTo("(FieldMap).GetField", "(FieldMap).GetBool") && x.ArgConstInt(0, t141)
			})
			c.Check(ok, name, p.InstrPos(cs.Call), "flag-echo", "reply Logon echoes the received ResetSeqNumFlag(141)", "the reply Logon's reset flag is "+flag.String()+", not the flag received in the peer's Logon")
		case flag.Kind == "param" || flag.IsCallTo("(*session).shouldSendReset"):
			c.OK(name, p.InstrPos(cs.Call), "initiating Logon: flag from shouldSendReset / caller")
		default:
			bv, isB := flag.ConstBoolVal()
			// the scheduled reset (ResetSeqTime) passes true
			d := p.ReachCond(cs.Call.Block())
			okT := isB && bv && strings.Contains(d.String(), "ResetSeqTime") || isB && bv && strings.Contains(FuncName(cs.Fn), "CheckResetTime")
			c.Check(okT, name, p.InstrPos(cs.Call), "flag-const", "constant reset only for the scheduled ResetSeqTime", "a Logon is sent with a constant reset flag "+flag.String()+" outside the scheduled reset")
		}
	}
	// shouldSendReset: false below FIX.4.1; requires a Reset* option and both counters == 1
	ssr := p.MethodOpt(modPath, "session", "shouldSendReset")
	if ssr == nil {
		c.Undecided("", "-", "shouldSendReset", "shouldSendReset not found")
		return
	}
	okVer, okCnt := false, 0
	ForEachInstr(ssr, func(in ssa.Instruction) {
		if b, ok := in.(*ssa.BinOp); ok {
			l, r := p.Origin(b.X), p.Origin(b.Y)
			if l.Kind == "field" && l.Field == fBegin && constStr(r) == "FIX.4.1" && b.Op.String() == "<" {
				okVer = true
			}
			if (l.IsCallTo("(MessageStore).NextTargetMsgSeqNum") || l.IsCallTo("(MessageStore).NextSenderMsgSeqNum")) && r.IsConstInt(1) && b.Op.String() == "==" {
				okCnt++
			}
		}
	})
	c.Check(okVer && okCnt == 2, FuncName(ssr), p.Pos(ssr.Pos()), "should-send-reset", "initiator offers a reset only from FIX.4.1 on and only when both counters are 1", fmt.Sprintf("shouldSendReset: version test below FIX.4.1=%v, counters compared with 1: %d of 2", okVer, okCnt))
	_ = types.Universe
}

// rejectProcessor: the function type-switching over targetTooLow and incorrectBeginString.
func rejectProcessor(p *Prog) *ssa.Function {
	fs := p.roleFns("reject-processor", "processReject", func(fn *ssa.Function) bool {
		tl, ibs := false, false
		ForEachInstr(fn, func(in ssa.Instruction) {
			if ta, ok := in.(*ssa.TypeAssert); ok {
				switch typeName(ta.AssertedType) {
				case "targetTooLow":
					tl = true
				case "incorrectBeginString":
					ibs = true
				}
			}
		})
		return tl && ibs
	})
	if len(fs) == 1 {
		return fs[0]
	}
	return nil
}

// C07-R6: a configured reset is not skipped. Where a function resets the store under a boolean
// reset option (ResetOnLogout, ResetOnDisconnect, …), the test of that option dominates every
// return of the function that is not a delegation (a return of another function's verdict,
// e.g. the reject processor or the send-failure exit): no message-dependent early exit may end
// the function before the option was consulted.
func c07R6(c *Ctx) {
	p := c.P
	r := getRoles(p)
	resetters := map[*ssa.Function]bool{}
	for _, fn := range p.FuncsIn(modPath) {
		if len(r.storeCalls(fn, "Reset")) > 0 {
			resetters[fn] = true
		}
	}
	n := 0
	for _, fn := range p.FuncsIn(modPath) {
		for _, cl := range Calls(fn) {
			isReset := false
			if _, ok := r.isStoreCall(cl.(ssa.Instruction), "Reset"); ok {
				isReset = true
			}
			if cal := cl.Common().StaticCallee(); cal != nil && resetters[cal] {
				isReset = true
			}
			if !isReset {
				continue
			}
			// decision block: nearest dominating If whose condition is a boolean option field
			var dec *ssa.BasicBlock
			var optName string
			for b := cl.Block(); b != nil; b = b.Idom() {
				if iff, ok := b.Instrs[len(b.Instrs)-1].(*ssa.If); ok && b != cl.Block() || ok && false {
					o := p.Origin(iff.Cond)
					if o.Kind == "field" && strings.HasPrefix(cn(o.Field), "Reset") {
						if bt, isB := o.Field.Type().Underlying().(*types.Basic); isB && bt.Kind() == types.Bool && b.Succs[0].Dominates(cl.Block()) {
							dec, optName = b, cn(o.Field)
							break
						}
					}
				}
			}
			if dec == nil {
				continue
			}
			n++
			for _, b := range fn.Blocks {
				ret, ok := b.Instrs[len(b.Instrs)-1].(*ssa.Return)
				if !ok || dec.Dominates(b) {
					continue
				}
				delegated := true
				for _, res := range ret.Results {
					o := p.Origin(res)
					if !(o.Kind == "call" || o.Kind == "phi" && o.All(func(x *Org) bool { return x.Kind == "call" })) {
						delegated = false
					}
				}
				c.Check(delegated, FuncName(fn), p.InstrPos(ret), "reset-option-bypassed:"+optName, "returns before the "+optName+" test only delegate to another handler",
					"the function returns under "+p.ReachCond(b).String()+" before "+optName+" is consulted: with the option set, this exit ends the exchange without the configured reset, and both counters and the stored messages survive a logout/disconnect that was configured to clear them")
			}
		}
	}
	if n == 0 {
		c.Violation("", "-", "no-option-guarded-reset", "no reset guarded by a ResetOn* option in a state-returning function")
	}
}

// C07-R7: the outgoing Logon's ResetSeqNumFlag is inspected after the application had its say.
// The application may set 141=Y in ToAdmin; the send path decides from the message as it will go
// out whether to reset and renumber, so every read of tag 141 of the outgoing message in a
// function that also invokes ToAdmin comes after that callback, and no callback follows it.
func c07R7(c *Ctx) {
	p := c.P
	t141 := p.Tag("tagResetSeqNumFlag")
	n := 0
	for _, fn := range p.FuncsIn(modPath) {
		var cbs []ssa.CallInstruction
		for _, cl := range Calls(fn) {
			if cl.Common().IsInvoke() && (cn(cl.Common().Method) == "ToAdmin" || cn(cl.Common().Method) == "ToApp") {
				cbs = append(cbs, cl)
			}
		}
		if len(cbs) == 0 {
			continue
		}
		for _, cl := range Calls(fn) {
			cal := cl.Common().StaticCallee()
			if cal == nil || cal.Signature.Recv() == nil || typeName(cal.Signature.Recv().Type()) != "FieldMap" || len(cl.Common().Args) < 2 {
				continue
			}
			if !strings.HasPrefix(fnName(cal), "Get") && fnName(cal) != "Has" {
				continue
			}
			if tag, ok := constIntOf(cl.Common().Args[1]); !ok || tag != t141 {
				continue
			}
			// the message read is the one handed to the callback
			n++
			after := false
			for _, cb := range cbs {
				if _, isDefer := cb.(*ssa.Defer); isDefer {
					continue
				}
				if cn(cb.Common().Method) == "ToAdmin" && InstrDominates(cb.(ssa.Instruction), cl.(ssa.Instruction)) {
					after = true
				}
			}
			later := false
			for _, cb := range cbs {
				if _, isDefer := cb.(*ssa.Defer); isDefer && cn(cb.Common().Method) == "ToAdmin" {
					later = true // a deferred callback runs after everything else in the function
					continue
				}
				if cn(cb.Common().Method) == "ToAdmin" && !InstrDominates(cb.(ssa.Instruction), cl.(ssa.Instruction)) && (reaches(cl.Block(), cb.Block()) && cb.Block() != cl.Block() || cb.Block() == cl.Block() && instrIndex(cb.(ssa.Instruction)) > instrIndex(cl.(ssa.Instruction))) {
					later = true
				}
			}
			c.Check(after && !later, FuncName(fn), p.InstrPos(cl.(ssa.Instruction)), "reset-flag-read-after-toadmin", "ResetSeqNumFlag(141) of the outgoing message is read after ToAdmin",
				"ResetSeqNumFlag(141) of the outgoing message is inspected before the application's ToAdmin callback has run (or the callback runs again afterwards): a flag the application sets there goes out on the wire without the store reset and the renumbering to 1 that must accompany it")
		}
	}
	if n == 0 {
		c.Violation("", "-", "no-outgoing-reset-flag-read", "no function that invokes ToAdmin inspects ResetSeqNumFlag(141) of the outgoing message")
	}
}
