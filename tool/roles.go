package main

// Role-based discovery of the repository functions the rules talk about, so that renaming a
// function does not disturb a rule. Each finder identifies the function by what it does;
// if exactly one candidate exists it is used, otherwise the historical name is the tie
// breaker; if neither works the anchor fails (UNDECIDED), never a silent pass.

import (
	"go/token"
	"go/types"
	"sort"
	"strings"

	"golang.org/x/tools/go/ssa"
)

var roleMemo = map[string][]*ssa.Function{}

func (p *Prog) roleFns(role string, name string, pred func(*ssa.Function) bool) []*ssa.Function {
	if fs, ok := roleMemo[role]; ok {
		return fs
	}
	var cands []*ssa.Function
	for _, fn := range p.FuncsIn(modPath) {
		if fn.Parent() == nil && pred(fn) {
			cands = append(cands, fn)
		}
	}
	if len(cands) > 1 && name != "" {
		var named []*ssa.Function
		for _, f := range cands {
			if f.Name() == name {
				named = append(named, f)
			}
		}
		if len(named) == 1 {
			cands = named
		}
	}
	if len(cands) == 0 && name != "" {
		for _, fn := range p.FuncsIn(modPath) {
			if fn.Parent() == nil && fn.Name() == name {
				cands = append(cands, fn)
			}
		}
	}
	sort.Slice(cands, func(i, j int) bool { return cands[i].Pos() < cands[j].Pos() })
	roleMemo[role] = cands
	return cands
}

func (p *Prog) roleFn(role, name string, pred func(*ssa.Function) bool) *ssa.Function {
	fs := p.roleFns(role, name, pred)
	if len(fs) != 1 {
		anchorFail("role %q: %d candidate functions (historical name %s)", role, len(fs), name)
	}
	return fs[0]
}

// stateErrorFns: func(*session, error) sessionState returning only the latent state.
func (p *Prog) stateErrorFns() []*ssa.Function {
	return p.roleFns("state-error-exit", "handleStateError", func(fn *ssa.Function) bool {
		sig := fn.Signature
		if sig.Recv() != nil || sig.Params().Len() != 2 || sig.Results().Len() != 1 {
			return false
		}
		if typeName(sig.Params().At(0).Type()) != "session" || !isErrorType(sig.Params().At(1).Type()) || typeName(sig.Results().At(0).Type()) != "sessionState" {
			return false
		}
		for _, b := range fn.Blocks {
			if r, ok := b.Instrs[len(b.Instrs)-1].(*ssa.Return); ok {
				mi, ok := r.Results[0].(*ssa.MakeInterface)
				if !ok || typeName(mi.X.Type()) != "latentState" {
					return false
				}
			}
		}
		return true
	})
}

func (p *Prog) isStateErrorExit(fn *ssa.Function) bool {
	return fn != nil && containsFn(p.stateErrorFns(), fn)
}

// cookFn: sets BodyLength(9) and CheckSum(10).
func (p *Prog) cookFn() *ssa.Function {
	t9, t10 := p.Tag("tagBodyLength"), p.Tag("tagCheckSum")
	return p.roleFn("cook", "cook", func(fn *ssa.Function) bool {
		return len(p.setTagCalls(fn, t9)) > 0 && len(p.setTagCalls(fn, t10)) > 0
	})
}

// parseFn: the routine extracting the three leading fields with constants 8, 9, 35, and the
// expected-field extractor it calls for them.
func (p *Prog) parseFn() (*ssa.Function, *ssa.Function) {
	want := map[int64]bool{p.Tag("tagBeginString"): true, p.Tag("tagBodyLength"): true, p.Tag("tagMsgType"): true}
	extractorOf := func(fn *ssa.Function) *ssa.Function {
		byCallee := map[*ssa.Function]map[int64]bool{}
		for _, cl := range Calls(fn) {
			cal := cl.Common().StaticCallee()
			if cal == nil || !p.InModule(cal) {
				continue
			}
			for _, a := range cl.Common().Args {
				if n, ok := constIntOf(a); ok && want[n] && typeName(a.Type()) == "Tag" {
					if byCallee[cal] == nil {
						byCallee[cal] = map[int64]bool{}
					}
					byCallee[cal][n] = true
				}
			}
		}
		for cal, m := range byCallee {
			if len(m) == 3 && cal.Signature.Results().Len() == 2 {
				return cal
			}
		}
		return nil
	}
	fn := p.roleFn("message-parse", "doParsing", func(fn *ssa.Function) bool { return extractorOf(fn) != nil })
	specific := extractorOf(fn)
	if specific == nil {
		anchorFail("role \"expected-field extractor\"")
	}
	return fn, specific
}

// fieldTypeSwitchFn: the function switching on the dictionary's field type (>= 20 string cases on a .Type field).
func (p *Prog) fieldTypeSwitchFn() *ssa.Function {
	return p.roleFn("field-type-switch", "validateField", func(fn *ssa.Function) bool {
		n := 0
		ForEachInstr(fn, func(in ssa.Instruction) {
			if b, ok := in.(*ssa.BinOp); ok && b.Op == token.EQL {
				l, r := p.Origin(b.X), p.Origin(b.Y)
				if _, isS := r.ConstStringVal(); isS && l.Kind == "field" && cn(l.Field) == "Type" {
					n++
				}
			}
		})
		return n >= 20
	})
}

// adminTypeFn: func([]byte) bool comparing its argument with >= 5 message-type globals.
func (p *Prog) adminTypeFn() *ssa.Function {
	return p.roleFn("admin-type-test", "isAdminMessageType", func(fn *ssa.Function) bool {
		sig := fn.Signature
		if sig.Recv() != nil || sig.Params().Len() != 1 || sig.Results().Len() != 1 {
			return false
		}
		n := 0
		for _, cl := range Calls(fn) {
			if callName(cl.Common()) == "bytes.Equal" {
				for _, a := range cl.Common().Args {
					if p.Origin(a).Kind == "global" {
						n++
					}
				}
			}
		}
		return n >= 5
	})
}

// reverseRouteFn: Message method with a closure called with two constant tags >= 6 times.
func (p *Prog) reverseRouteFn() *ssa.Function {
	return p.roleFn("reverse-route", "reverseRoute", func(fn *ssa.Function) bool {
		if fn.Signature.Recv() == nil || typeName(fn.Signature.Recv().Type()) != "Message" {
			return false
		}
		n := 0
		for _, cl := range Calls(fn) {
			cc := cl.Common()
			if cal := cc.StaticCallee(); cal != nil && cal.Parent() == fn && len(cc.Args) >= 2 {
				_, a := constIntOf(cc.Args[len(cc.Args)-2])
				_, b := constIntOf(cc.Args[len(cc.Args)-1])
				if a && b {
					n++
				}
			}
		}
		return n >= 6
	})
}

// sendingTimeFn: sets SendingTime(52) from time.Now.
func (p *Prog) sendingTimeFn() *ssa.Function {
	t52 := p.Tag("tagSendingTime")
	return p.roleFn("stamp-sending-time", "insertSendingTime", func(fn *ssa.Function) bool {
		if len(p.setTagCalls(fn, t52)) == 0 {
			return false
		}
		for _, cl := range Calls(fn) {
			if callName(cl.Common()) == "time.Now" {
				return true
			}
		}
		return false
	})
}

// logoutInitiators: functions that send a Logout and arm the logout timeout, plus thin wrappers.
func (p *Prog) logoutInitiators() []*ssa.Function {
	core := p.roleFns("initiate-logout", "initiateLogoutInReplyTo", func(fn *ssa.Function) bool {
		for _, cl := range Calls(fn) {
			if callName(cl.Common()) == "time.AfterFunc" {
				if o := p.Origin(cl.Common().Args[0]); o.Kind == "field" && cn(o.Field) == "LogoutTimeout" {
					return true
				}
			}
		}
		return false
	})
	out := append([]*ssa.Function{}, core...)
	for _, fn := range p.FuncsIn(modPath) {
		if fn.Parent() != nil || len(fn.Blocks) != 1 {
			continue
		}
		for _, cl := range Calls(fn) {
			if cal := cl.Common().StaticCallee(); cal != nil && containsFn(core, cal) {
				out = appendFn(out, fn)
			}
		}
	}
	return out
}

// rawBodyBuilder / fieldMapBuilder: the two callers of cook.
func (p *Prog) builders() (fromFields, fromBytes *ssa.Function) {
	cook := p.cookFn()
	for _, cs := range p.CallsTo(cook) {
		a1 := p.Origin(cs.Common().Args[1])
		if a1.IsCallTo("len") {
			fromBytes = cs.Fn
		} else {
			fromFields = cs.Fn
		}
	}
	if fromFields == nil || fromBytes == nil {
		anchorFail("message builders (callers of the BodyLength/CheckSum setter)")
	}
	return
}

// incomingFn: the stateMachine method that parses inbound bytes.
func (p *Prog) incomingFn() *ssa.Function {
	return p.roleFn("incoming", "Incoming", func(fn *ssa.Function) bool {
		if fn.Signature.Recv() == nil || typeName(fn.Signature.Recv().Type()) != "stateMachine" {
			return false
		}
		for _, cl := range Calls(fn) {
			if cal := cl.Common().StaticCallee(); cal != nil && strings.HasPrefix(fnName(cal), "ParseMessage") {
				return true
			}
		}
		return false
	})
}

var _ = types.Universe
