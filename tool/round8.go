package main

// Rules added after the eighth round of independently written changes (variants o/p).

import (
	"go/token"
	"go/types"
	"strings"

	"golang.org/x/tools/go/ssa"
)

// C06-R9: a Reject travels back with all routing fields reversed in every version that has them.
// In the reverse-route function the location ids (OnBehalfOfLocationID 144 / DeliverToLocationID
// 145, added in FIX.4.1) are copied under a test that excludes exactly FIX.4.0; and the CompID
// checker names an empty SenderCompID/TargetCompID with TagSpecifiedWithoutAValue before it
// compares values (an empty value is a malformed field, not a CompID problem).
func c06R9(c *Ctx) {
	p := c.P
	n := 0
	rr := p.reverseRouteFn()
	t144, t145 := p.Tag("tagOnBehalfOfLocationID"), p.Tag("tagDeliverToLocationID")
	for _, f := range WithClosures(rr) {
		for _, cl := range Calls(f) {
			args := cl.Common().Args
			has := false
			for _, a := range args {
				if v, ok := constIntOf(a); ok && (v == t144 || v == t145) {
					has = true
				}
			}
			if !has {
				continue
			}
			n++
			d := p.ReachCond(cl.Block())
			ok := false
			bad := ""
			for _, a := range allAtoms(d) {
				for _, pr := range [][2]*Org{{a.L, a.R}, {a.R, a.L}} {
					if pr[0] == nil || pr[1] == nil {
						continue
					}
					if s, isS := pr[1].ConstStringVal(); isS && strings.HasPrefix(s, "FIX") {
						if a.Rel == "!=" && s == "FIX.4.0" {
							ok = true
						} else {
							bad = a.String()
						}
					}
				}
			}
			c.Check(ok && bad == "", FuncName(rr), p.InstrPos(cl.(ssa.Instruction)), "location-ids-from-4.1", "location ids reversed unless BeginString == FIX.4.0",
				"the third-party location ids (144/145) are reversed under "+clip(d.String(), 120)+", not under \"BeginString != FIX.4.0\": they exist from FIX.4.1 on, so a Reject on a FIX.4.1 session travels back without them")
		}
	}
	// the CompID checker
	t49, t56 := p.Tag("tagSenderCompID"), p.Tag("tagTargetCompID")
	for _, fn := range p.FuncsIn(modPath) {
		if fnPkg(fn).Pkg.Path() != modPath {
			continue
		}
		isChecker := false
		for _, cl := range Calls(fn) {
			if cal := cl.Common().StaticCallee(); cal != nil && strings.EqualFold(fnName(cal), "compIDProblem") {
				isChecker = true
			}
		}
		if !isChecker {
			continue
		}
		named := map[int64]bool{}
		for _, cl := range Calls(fn) {
			cal := cl.Common().StaticCallee()
			if cal == nil || !strings.Contains(fnName(cal), "WithoutAValue") {
				continue
			}
			for _, a := range cl.Common().Args {
				if v, ok := constIntOf(a); ok {
					named[v] = true
				}
			}
		}
		n++
		c.Check(named[t49] && named[t56], FuncName(fn), p.Pos(fn.Pos()), "empty-compid-named", "an empty SenderCompID / TargetCompID is answered with TagSpecifiedWithoutAValue naming it",
			"the CompID check has no TagSpecifiedWithoutAValue answer for tags 49 and 56: a present but empty CompID is classified as a CompID problem (Reject reason 9 and Logout) instead of a malformed field (plain Reject naming the field, session stays up)")
	}
	if n < 3 {
		c.Violation("", "-", "few-route-sites", "reverse-route location ids or the CompID checker not found")
	}
}

// C07-R14: an outgoing Logon that carries ResetSeqNumFlag=Y resets the store whether it is a request
// or a reply. In the send-preparation function the reset is reached under no condition on the
// in-reply-to parameter: the reply's reset is what guarantees that a Logon sent with 141=Y is
// number 1 (the application may add the flag in ToAdmin; a Send may slip in before the reply).
func c07R14(c *Ctx) {
	p := c.P
	r := getRoles(p)
	n := 0
	for _, fn := range r.prep {
		for _, cl := range r.storeCalls(fn, "Reset") {
			n++
			d := p.ReachCond(cl.Block())
			dep := ""
			for _, a := range allAtoms(d) {
				for _, side := range []*Org{a.L, a.R, a.B} {
					if side != nil && side.Kind == "param" && side.Fn == fn && isPtrToNamed(side.Val.Type(), "Message") && side.Param != 1 {
						dep = a.String()
					}
				}
			}
			c.Check(dep == "", FuncName(fn), p.InstrPos(cl), "logon-reset-request-or-reply", "the reset for an outgoing reset Logon does not depend on whether it is a reply",
				"the store reset for an outgoing Logon carrying ResetSeqNumFlag=Y runs only under "+dep+": a Logon sent in reply with 141=Y (flag added in ToAdmin, or a Send that slipped in after handleLogon's reset) goes out with a number other than 1 and the counters do not restart")
		}
	}
	if n == 0 {
		c.Violation("", "-", "no-prep-reset", "the send-preparation function does not reset the store for a reset Logon")
	}
}

// C08-R13: the application is told it is logged on only after the Logon answer went out. In the
// function that calls Application.OnLogon, the call is reached — on the acceptor side — only on
// the nil-error edge of the call that sends the Logon reply: a reply that fails refuses the Logon
// (Logout, connection over) and from the logon state no OnLogout is delivered.
func c08R13(c *Ctx) {
	p := c.P
	tType := p.Tag("tagMsgType")
	n := 0
	for _, cs := range p.InvokeSites(p.Named(modPath, "Application"), "OnLogon") {
		fn := cs.Fn
		// the call that sends a Logon: its callee stamps MsgType "A"
		var reply ssa.Instruction
		for _, cl := range Calls(fn) {
			cal := cl.Common().StaticCallee()
			if cal == nil || !p.InModule(cal) {
				continue
			}
			for _, st := range p.setTagCalls(cal, tType) {
				if s, ok := p.ContentOrigin(st.val).ConstStringVal(); ok && s == "A" {
					reply = cl.(ssa.Instruction)
				}
			}
		}
		if reply == nil {
			continue
		}
		n++
		d := p.ReachCond(cs.Call.Block())
		ok := d.Implies(func(a *Atom) bool {
			if nilErrAtomFor(reply)(a) {
				return true
			}
			return a.Rel == "" && a.Val && a.B.Kind == "field" && cn(a.B.Field) == "InitiateLogon"
		})
		c.Check(ok, FuncName(fn), p.InstrPos(cs.Call.(ssa.Instruction)), "onlogon-after-reply", "OnLogon only after the Logon reply was sent (or as initiator)",
			"Application.OnLogon is called on a path on which the acceptor's Logon reply has not been sent successfully yet: if sending it fails (a tag 789 above anything sent, a store fault) the Logon is refused from the logon state, where no OnLogout is delivered — the application was told it is logged on and never hears the end of it")
	}
	if n == 0 {
		c.Violation("", "-", "no-onlogon-site", "no function calls Application.OnLogon next to a Logon reply")
	}
}

// C10-R14: in the template order a tag the template does not list sorts behind every template tag.
// The comparator built from the template looks ranks up with the comma-ok form (a missing tag gets
// the default rank), never with the plain form whose zero value is the delimiter's rank.
func c10R14(c *Ctx) {
	p := c.P
	rg := p.Named(modPath, "RepeatingGroup")
	n := 0
	for _, fn := range p.FuncsIn(modPath) {
		rcv := fn.Signature.Recv()
		if rcv == nil || namedOf(rcv.Type()) != rg || fn.Signature.Results().Len() != 1 || typeName(fn.Signature.Results().At(0).Type()) != "tagOrder" {
			continue
		}
		for _, f := range WithClosures(fn) {
			ForEachInstr(f, func(in ssa.Instruction) {
				l, ok := in.(*ssa.Lookup)
				if !ok {
					return
				}
				if _, isMap := l.X.Type().Underlying().(*types.Map); !isMap {
					return
				}
				n++
				c.Check(l.CommaOk, FuncName(f), p.InstrPos(l), "template-rank-commaok", "template rank looked up with the comma-ok form",
					"the template-order comparator reads a tag's rank with a plain map lookup: a tag the template does not list gets rank 0, the delimiter's, and is written before or right after the delimiter instead of at the end of the entry — the reader on the other side stops at it")
			})
		}
	}
	if n < 2 {
		c.Violation("", "-", "no-template-ranks", "the template-order comparator looks up no ranks")
	}
}

// C16-R17: an inverted range is an empty answer, not a crash. In the stores' range readers a slice
// is never made with a size computed from the range parameters (end-begin+1 is negative for an
// inverted range and make panics) unless a guard orders the two.
func c16R17(c *Ctx) {
	p := c.P
	n := 0
	for _, s := range getStores(p) {
		for _, m := range []string{"GetMessages", "IterateMessages"} {
			fn := s.method[m]
			if fn == nil {
				continue
			}
			n++
			c.OK(FuncName(fn), p.Pos(fn.Pos()), "range reader examined")
			ForEachInstr(fn, func(in ssa.Instruction) {
				mk, ok := in.(*ssa.MakeSlice)
				if !ok {
					return
				}
				for _, sz := range []ssa.Value{mk.Len, mk.Cap} {
					o := p.Origin(sz)
					fromParams := o.Kind == "binop" && o.Mentions(func(x *Org) bool { return x.Kind == "param" && x.Fn == fn && x.Param > 0 }) && o.Mentions(func(x *Org) bool { return x.Kind == "binop" && x.Op == token.SUB })
					if !fromParams {
						continue
					}
					d := p.ReachCond(mk.Block())
					guarded := false
					for _, a := range allAtoms(d) {
						if (a.Rel == "<=" || a.Rel == "<") && a.L != nil && a.R != nil && a.L.Kind == "param" && a.R.Kind == "param" {
							guarded = true
						}
					}
					c.Check(guarded, FuncName(fn), p.InstrPos(mk), "range-size-guarded", "a size computed from the range is used only after the range was ordered",
						"a slice is made with size "+o.String()+" computed from the range parameters without a test that orders them: for an inverted range (begin > end+1) the size is negative and make panics, where the other stores answer \"no messages\"")
				}
			})
		}
	}
	if n == 0 {
		c.Violation("", "-", "no-range-readers", "no store has a range reader")
	}
}

// C18-R12: whether two instants are in the same session window does not depend on their order. In
// the function that compares the store's creation time with "now" (CheckSessionTime role: it calls
// IsInSameRange with the store's CreationTime), that call is reached under no Before/After test
// between the two instants.
func c18R12(c *Ctx) {
	p := c.P
	n := 0
	for _, fn := range p.FuncsIn(modPath) {
		if fnPkg(fn).Pkg.Path() != modPath {
			continue
		}
		for _, cl := range Calls(fn) {
			if !strings.HasSuffix(callName(cl.Common()), "TimeRange).IsInSameRange") {
				continue
			}
			if !p.Origin(cl.Common().Args[1]).Mentions(func(x *Org) bool { return x.IsCallTo("(MessageStore).CreationTime") }) &&
				!p.Origin(cl.Common().Args[2]).Mentions(func(x *Org) bool { return x.IsCallTo("(MessageStore).CreationTime") }) {
				continue
			}
			n++
			d := p.ReachCond(cl.Block())
			dep := ""
			for _, a := range allAtoms(d) {
				for _, side := range []*Org{a.L, a.R, a.B} {
					if side != nil && side.Mentions(func(x *Org) bool {
						return x.IsCallTo("(time.Time).Before", "(time.Time).After", "(time.Time).Compare", "(time.Time).Sub")
					}) {
						dep = a.String()
					}
				}
			}
			c.Check(dep == "", FuncName(fn), p.InstrPos(cl.(ssa.Instruction)), "same-range-order-free", "the same-window test of the store's creation time runs whatever the order of the two instants",
				"the store's creation time is compared with the current instant by IsInSameRange only under "+clip(dep, 120)+": when the creation time is later than the checked instant (clock stepped back, store written by a host running ahead) and the two lie in different windows, no reset happens and the session keeps another window's sequence numbers")
		}
	}
	if n == 0 {
		c.Violation("", "-", "no-creation-time-window-test", "no function tests the store's creation time with IsInSameRange")
	}
}

// C19-R12: enumeration values are the declared strings. The key and the value stored into a field
// type's Enums table come from the enum attribute of the XML value as it is — no call stands
// between the attribute and the table.
func c19R12(c *Ctx) {
	p := c.P
	pkg := modPath + "/datadictionary"
	n := 0
	for _, fn := range p.FuncsIn(pkg) {
		ForEachInstr(fn, func(in ssa.Instruction) {
			mu, ok := in.(*ssa.MapUpdate)
			if !ok {
				return
			}
			mt, isMap := mu.Map.Type().Underlying().(*types.Map)
			if !isMap || typeName(mt.Elem()) != "Enum" {
				return
			}
			n++
			ko := p.Origin(mu.Key)
			verbatim := ko.Kind == "field" && strings.EqualFold(cn(ko.Field), "Enum") && !ko.Mentions(func(x *Org) bool { return x.Kind == "call" })
			c.Check(verbatim, FuncName(fn), p.InstrPos(mu), "enum-key-verbatim", "enumeration keyed by the declared value as it is",
				"the enumeration table is keyed by "+clip(ko.String(), 100)+", not by the enum attribute as declared: a declared value with surrounding blanks is loaded under another string (or collapses with its neighbour), so the validator rejects the declared value and accepts an undeclared one")
		})
	}
	if n == 0 {
		c.Violation("", "-", "no-enum-table-writes", "no function fills a field type's enumeration table")
	}
}

// C17-R9 (= C16-R18): the scan of the index stops only behind the requested range. In the file
// store's iteration the loop that reads index lines is left — apart from end of file and errors —
// only when the scanned number is greater than the requested end. Leaving as soon as the end number
// has been seen once misses a later entry for the same number: after a save interrupted between
// the message and the counter, the number is saved again and the completed save is the later entry.
func c17R9(c *Ctx) {
	p := c.P
	s := storeOfKind(p, "file")
	fn := s.method["IterateMessages"]
	name := FuncName(fn)
	// the scanned number: first out-argument of the scan of an index line
	var seqCell *ssa.Alloc
	var scan ssa.CallInstruction
	for _, sc := range Calls(fn) {
		scn := callName(sc.Common())
		if scn != "fmt.Fscanf" && scn != "fmt.Sscanf" {
			continue
		}
		last := sc.Common().Args[len(sc.Common().Args)-1]
		if sl, ok := last.(*ssa.Slice); ok {
			if va, ok := sl.X.(*ssa.Alloc); ok {
				es := varargsElems(va)
				if len(es) > 0 {
					if mi, ok := es[0].(*ssa.MakeInterface); ok {
						if al, ok := mi.X.(*ssa.Alloc); ok {
							seqCell, scan = al, sc
						}
					}
				}
			}
		}
	}
	if seqCell == nil || len(fn.Params) < 3 {
		c.Violation(name, p.Pos(fn.Pos()), "no-index-scan", "the file store's iteration does not scan index lines into a sequence number")
		return
	}
	end := fn.Params[2]
	n := 0
	for _, l := range naturalLoops(fn) {
		if !l.body[scan.Block()] {
			continue
		}
		for b := range l.body {
			ifi, ok := b.Instrs[len(b.Instrs)-1].(*ssa.If)
			if !ok {
				continue
			}
			cmp, ok := ifi.Cond.(*ssa.BinOp)
			if !ok {
				continue
			}
			isSeq := func(v ssa.Value) bool {
				ld, ok := stripConv(v).(*ssa.UnOp)
				return ok && ld.Op == token.MUL && ld.X == ssa.Value(seqCell)
			}
			// the other operand: the end parameter, or end + k
			endPlus := func(v ssa.Value) (int64, bool) {
				v = stripConv(v)
				if v == ssa.Value(end) {
					return 0, true
				}
				if bo, ok := v.(*ssa.BinOp); ok && bo.Op == token.ADD {
					if k, isC := constIntOf(bo.Y); isC && stripConv(bo.X) == ssa.Value(end) {
						return k, true
					}
					if k, isC := constIntOf(bo.X); isC && stripConv(bo.Y) == ssa.Value(end) {
						return k, true
					}
				}
				return 0, false
			}
			var seqLeft bool
			var k int64
			switch {
			case isSeq(cmp.X):
				kk, ok := endPlus(cmp.Y)
				if !ok {
					continue
				}
				seqLeft, k = true, kk
			case isSeq(cmp.Y):
				kk, ok := endPlus(cmp.X)
				if !ok {
					continue
				}
				seqLeft, k = false, kk
			default:
				continue
			}
			for i, sc := range b.Succs {
				if l.body[sc] {
					continue
				}
				// the loop is left on this edge: under which relation between seq and end?
				op := cmp.Op
				if i == 1 { // false edge: negate
					switch op {
					case token.LSS:
						op = token.GEQ
					case token.LEQ:
						op = token.GTR
					case token.GTR:
						op = token.LEQ
					case token.GEQ:
						op = token.LSS
					case token.EQL:
						op = token.NEQ
					case token.NEQ:
						op = token.EQL
					}
				}
				if !seqLeft { // normalise to "seq OP end"
					switch op {
					case token.LSS:
						op = token.GTR
					case token.LEQ:
						op = token.GEQ
					case token.GTR:
						op = token.LSS
					case token.GEQ:
						op = token.LEQ
					}
				}
				n++
				c.Check(op == token.GTR && k >= 0 || op == token.GEQ && k >= 1, name, p.InstrPos(ifi), "scan-left-behind-the-range", "the index scan is left only when the scanned number is greater than the requested end",
					"the scan of the index is left when the scanned number "+op.String()+" the requested end: an entry for the end number that follows an earlier entry for it (the completed re-save after an interrupted one) is never reached, and the read returns only the bytes of the interrupted save")
			}
		}
	}
	if n == 0 {
		c.Violation(name, p.Pos(fn.Pos()), "no-range-exit", "the index scan has no exit that compares the scanned number with the requested end")
	}
}

// C19-R13: a group's required members are required inside its entries, not in what contains the
// group. Where the builder of a component (or group) definition appends somebody's RequiredFields()
// to its own required list, that somebody is a part with fields of its own kind (a component) — never
// a field definition: for a repeating group the group field itself is the required part.
func c19R13(c *Ctx) {
	p := c.P
	pkg := modPath + "/datadictionary"
	n := 0
	for _, fname := range []string{"NewComponentType", "NewGroupFieldDef", "NewMessageDef"} {
		fn := p.Func(pkg, fname)
		if fn == nil {
			continue
		}
		for _, f := range WithClosures(fn) {
			for _, cl := range Calls(f) {
				cc := cl.Common()
				m := ""
				if cc.IsInvoke() {
					m = cn(cc.Method)
				} else if cal := cc.StaticCallee(); cal != nil {
					m = fnName(cal)
				}
				if m != "RequiredFields" {
					continue
				}
				n++
				var recv *Org
				if cc.IsInvoke() {
					recv = p.Origin(cc.Value)
				} else if len(cc.Args) > 0 {
					recv = p.Origin(cc.Args[0])
				}
				isFieldDef := recv != nil && recv.Mentions(func(x *Org) bool {
					return x.Kind == "typeassert" && typeName(x.AssTyp) == "FieldDef"
				})
				if !isFieldDef && !cc.IsInvoke() && cc.StaticCallee() != nil && cc.StaticCallee().Signature.Recv() != nil && typeName(cc.StaticCallee().Signature.Recv().Type()) == "FieldDef" {
					isFieldDef = true
				}
				c.Check(!isFieldDef, FuncName(f), p.InstrPos(cl.(ssa.Instruction)), "group-members-not-hoisted", "RequiredFields() is taken from a component part, never from a field definition",
					"the required members of a field definition (a repeating group) are added to the required list of what contains the group: tags that only exist inside the group's entries become required at message level, and a conforming message is answered with RequiredTagMissing for them")
			}
		}
	}
	if n == 0 {
		c.Violation("", "-", "no-required-propagation-sites", "no definition builder takes RequiredFields() of a part")
	}
}

// C10-R15: a field is rendered with its whole tag number. The function that renders a TagValue's
// bytes takes the tag's digits from a standard integer formatter applied to the tag parameter
// (strconv.AppendInt / FormatInt / Itoa): a hand-rolled fixed-width rendering drops the leading
// digits of a tag that does not fit, and the value is written under another tag.
func c10R15(c *Ctx) {
	p := c.P
	fBytes := p.Field(modPath, "TagValue", "bytes")
	n := 0
	byFn := map[*ssa.Function][]StoreSite{}
	for _, st := range p.FieldStores(fBytes) {
		byFn[st.Fn] = append(byFn[st.Fn], st)
	}
	for fn, sts := range byFn {
		if fn.Signature.Recv() == nil || typeName(fn.Signature.Recv().Type()) != "TagValue" {
			continue
		}
		// only the renderer: it has a Tag parameter
		tagParam := -1
		for i, q := range fn.Params {
			if typeName(q.Type()) == "Tag" {
				tagParam = i
			}
		}
		if tagParam < 0 {
			continue
		}
		n++
		ok := false
		for _, st := range sts {
			if p.Origin(st.Store.Val).Mentions(func(x *Org) bool {
				if !(x.IsCallTo("strconv.AppendInt") || x.IsCallTo("strconv.FormatInt") || x.IsCallTo("strconv.Itoa") || x.IsCallTo("strconv.AppendUint") || x.IsCallTo("strconv.FormatUint")) {
					return false
				}
				for _, a := range x.Args {
					if a.Mentions(func(y *Org) bool { return y.Kind == "param" && y.Fn == fn && y.Param == tagParam }) {
						return true
					}
				}
				return false
			}) {
				ok = true
			}
		}
		c.Check(ok, FuncName(fn), p.Pos(fn.Pos()), "tag-rendered-whole", "the rendered bytes start from strconv's rendering of the tag parameter",
			"no value stored into the field's bytes comes from a standard integer rendering of the tag parameter: a tag with more digits than a hand-rolled rendering allows is written without its leading digits, and the value appears under another tag")
	}
	if n == 0 {
		c.Violation("", "-", "no-field-renderer", "no method of TagValue with a Tag parameter stores the rendered bytes")
	}
}

// C12-R11: a frame starts at the first begin marker. The function that looks for the start of the
// next message hands back the result of the refilling search for the marker as it is: it does not
// inspect the bytes of the window itself (skipping a marker because of what precedes it loses a
// well-formed message that follows separator bytes of that kind).
func c12R11(c *Ctx) {
	p := c.P
	pi := getParser(p)
	n := 0
	for _, fn := range pi.methods {
		isStart := false
		for _, cl := range Calls(fn) {
			for _, a := range cl.Common().Args {
				if s, ok := p.Origin(a).ConstStringVal(); ok && s == "8=" {
					isStart = true
				}
			}
		}
		if !isStart || fn == pi.refill {
			continue
		}
		n++
		looks := ""
		ForEachInstr(fn, func(in ssa.Instruction) {
			if ia, ok := in.(*ssa.IndexAddr); ok && p.Origin(ia.X).Mentions(func(x *Org) bool { return x.Kind == "field" && x.Field == pi.fBuf }) {
				looks = p.InstrPos(in)
			}
		})
		c.Check(looks == "", FuncName(fn), p.Pos(fn.Pos()), "start-is-first-marker", "the start finder returns the first marker without looking at the window's bytes",
			"the function that finds the start of a message inspects bytes of the window itself (at "+looks+") besides searching for the begin marker: a marker is skipped because of the bytes around it, so a well-formed message that follows separator bytes of that kind is never framed")
	}
	if n == 0 {
		c.Violation("", "-", "no-start-finder", "no parser method searches for the begin marker")
	}
}
