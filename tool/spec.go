package main

// The checker's own reader of spec/*.xml (static data of the repository). The repo's
// datadictionary package is never executed.

import (
	"encoding/xml"
	"fmt"
	"os"
	"path/filepath"
	"sort"
)

type specMember struct {
	XMLName  xml.Name
	Name     string        `xml:"name,attr"`
	Required string        `xml:"required,attr"`
	Members  []*specMember `xml:",any"`
	Attrs    []xml.Attr    `xml:",any,attr"`
}

type specComponent struct {
	Name    string        `xml:"name,attr"`
	MsgType string        `xml:"msgtype,attr"`
	MsgCat  string        `xml:"msgcat,attr"`
	Members []*specMember `xml:",any"`
	Attrs   []xml.Attr    `xml:",any,attr"`
}

type specValue struct {
	Enum        string     `xml:"enum,attr"`
	Description string     `xml:"description,attr"`
	Attrs       []xml.Attr `xml:",any,attr"`
}

type specField struct {
	Number int          `xml:"number,attr"`
	Name   string       `xml:"name,attr"`
	Type   string       `xml:"type,attr"`
	Values []*specValue `xml:"value"`
	Attrs  []xml.Attr   `xml:",any,attr"`
}

type specDoc struct {
	File       string
	Type       string           `xml:"type,attr"`
	Major      string           `xml:"major,attr"`
	Minor      string           `xml:"minor,attr"`
	Header     *specComponent   `xml:"header"`
	Trailer    *specComponent   `xml:"trailer"`
	Messages   []*specComponent `xml:"messages>message"`
	Components []*specComponent `xml:"components>component"`
	Fields     []*specField     `xml:"fields>field"`

	byName map[string]*specField
	comp   map[string]*specComponent
}

var specMemo []*specDoc

func loadSpecs(repo string) ([]*specDoc, error) {
	if specMemo != nil {
		return specMemo, nil
	}
	files, _ := filepath.Glob(filepath.Join(repo, "spec", "*.xml"))
	sort.Strings(files)
	if len(files) == 0 {
		return nil, fmt.Errorf("no spec/*.xml files under %s", repo)
	}
	for _, f := range files {
		b, err := os.ReadFile(f)
		if err != nil {
			return nil, err
		}
		d := &specDoc{File: filepath.Base(f)}
		if err := xml.Unmarshal(b, d); err != nil {
			return nil, fmt.Errorf("%s: %v", f, err)
		}
		d.byName = map[string]*specField{}
		for _, fl := range d.Fields {
			d.byName[fl.Name] = fl
		}
		d.comp = map[string]*specComponent{}
		for _, c := range d.Components {
			d.comp[c.Name] = c
		}
		specMemo = append(specMemo, d)
	}
	return specMemo, nil
}

// flatten: all field numbers reachable through fields, groups and components of members.
func (d *specDoc) flatten(ms []*specMember, out map[int]string, seen map[string]bool) {
	for _, m := range ms {
		switch m.XMLName.Local {
		case "field", "group":
			if f := d.byName[m.Name]; f != nil {
				out[f.Number] = f.Name
			}
			if m.XMLName.Local == "group" {
				d.flatten(m.Members, out, seen)
			}
		case "component":
			if seen[m.Name] {
				continue
			}
			seen[m.Name] = true
			if c := d.comp[m.Name]; c != nil {
				d.flatten(c.Members, out, seen)
			}
			delete(seen, m.Name)
		}
	}
}

func (d *specDoc) headerTags() map[int]string {
	out := map[int]string{}
	if d.Header != nil {
		d.flatten(d.Header.Members, out, map[string]bool{})
	}
	return out
}

func (d *specDoc) trailerTags() map[int]string {
	out := map[int]string{}
	if d.Trailer != nil {
		d.flatten(d.Trailer.Members, out, map[string]bool{})
	}
	return out
}

func (d *specDoc) bodyTags() map[int]string {
	out := map[int]string{}
	for _, m := range d.Messages {
		d.flatten(m.Members, out, map[string]bool{})
	}
	return out
}
