package main

// C15-R5 / R6: no success exit bypasses a check; duplicate bookkeeping covers every iterated field.

import (
	"go/types"
	"strings"

	"golang.org/x/tools/go/ssa"
)

func (p *Prog) isRejectCtor(fn *ssa.Function) bool {
	if fn == nil || !p.InModule(fn) {
		return false
	}
	res := fn.Signature.Results()
	if res.Len() != 1 || typeName(res.At(0).Type()) != "MessageRejectError" {
		return false
	}
	for _, cl := range Calls(fn) {
		if cal := cl.Common().StaticCallee(); cal != nil && (strings.HasPrefix(fnName(cal), "NewMessageRejectError") || strings.HasPrefix(fnName(cal), "NewBusinessMessageRejectError")) {
			return true
		}
	}
	return false
}

// decisionOf: the block whose branch leads (possibly through empty blocks) to b.
func decisionOf(b *ssa.BasicBlock) *ssa.BasicBlock {
	for len(b.Preds) == 1 {
		pr := b.Preds[0]
		if _, ok := pr.Instrs[len(pr.Instrs)-1].(*ssa.If); ok {
			return pr
		}
		b = pr
	}
	return nil
}

func mentionsRelaxation(d DNF) bool {
	for _, a := range d.Atoms() {
		for _, o := range []*Org{a.L, a.R, a.B} {
			if o == nil {
				continue
			}
			if o.Mentions(func(x *Org) bool {
				if x.Kind == "param" && x.Val != nil {
					if b, ok := x.Val.Type().Underlying().(*types.Basic); ok && b.Kind() == types.Bool {
						return true
					}
				}
				if x.Kind == "field" && x.Field != nil {
					if b, ok := x.Field.Type().Underlying().(*types.Basic); ok && b.Kind() == types.Bool {
						return true
					}
				}
				return false
			}) {
				return true
			}
		}
	}
	return false
}

func c15R5(c *Ctx) {
	p := c.P
	n := 0
	for _, fn := range p.FuncsIn(modPath) {
		if fn.Pkg == nil || fn.Pkg.Pkg.Path() != modPath || fn.Parent() != nil {
			continue
		}
		res := fn.Signature.Results()
		if res.Len() == 0 || typeName(res.At(res.Len()-1).Type()) != "MessageRejectError" || p.isRejectCtor(fn) {
			continue
		}
		// reject sites whose decision comes after a loop over the fields (post-loop checks) or at the top level
		var succ []*ssa.Return
		for _, b := range fn.Blocks {
			if r, ok := b.Instrs[len(b.Instrs)-1].(*ssa.Return); ok && p.Origin(r.Results[len(r.Results)-1]).IsNil() {
				succ = append(succ, r)
			}
		}
		for _, cl := range Calls(fn) {
			cal := cl.Common().StaticCallee()
			if !p.isRejectCtor(cal) {
				continue
			}
			dec := decisionOf(cl.Block())
			if dec == nil {
				continue
			}
			// only checks that are not themselves inside a loop: a check inside a loop guards one element, not the exit
			if inAnyLoop(fn, dec) {
				continue
			}
			afterLoop := false
			for _, l := range naturalLoops(fn) {
				if l.header.Dominates(dec) && !l.body[dec] {
					afterLoop = true
				}
			}
			if !afterLoop {
				continue
			}
			n++
			for _, r := range succ {
				if dec.Dominates(r.Block()) {
					c.OK(FuncName(fn), p.InstrPos(r), "check "+cal.Name()+" precedes this success return")
					continue
				}
				// a success return that comes before the check: allowed only as a relaxation (a boolean setting)
				d := p.ReachCond(r.Block())
				if InstrDominates(r.Block().Instrs[0], dec.Instrs[0]) || r.Block().Dominates(dec) {
					continue
				}
				if reaches(r.Block(), dec) {
					continue
				}
				c.Check(mentionsRelaxation(d), FuncName(fn), p.InstrPos(r), "bypass:"+cal.Name(), "early success exit is a configured relaxation",
					"success is returned under "+d.String()+" without reaching the decision at "+p.InstrPos(dec.Instrs[len(dec.Instrs)-1])+" that can reject with "+cal.Name()+": a message with that defect is accepted or blamed on something else")
			}
		}
	}
	if n == 0 {
		c.Violation("", "-", "no-exit-checks", "no validation function has a check placed after its field loop")
	}
}

type natLoop struct {
	header  *ssa.BasicBlock
	latches []*ssa.BasicBlock
	body    map[*ssa.BasicBlock]bool
}

func naturalLoops(fn *ssa.Function) []*natLoop {
	byHeader := map[*ssa.BasicBlock]*natLoop{}
	var out []*natLoop
	for _, b := range fn.Blocks {
		for _, s := range b.Succs {
			if s.Dominates(b) {
				l := byHeader[s]
				if l == nil {
					l = &natLoop{header: s, body: map[*ssa.BasicBlock]bool{s: true}}
					byHeader[s] = l
					out = append(out, l)
				}
				l.latches = append(l.latches, b)
				var stack []*ssa.BasicBlock
				if !l.body[b] {
					l.body[b] = true
					stack = append(stack, b)
				}
				for len(stack) > 0 {
					x := stack[len(stack)-1]
					stack = stack[:len(stack)-1]
					for _, pr := range x.Preds {
						if !l.body[pr] {
							l.body[pr] = true
							stack = append(stack, pr)
						}
					}
				}
			}
		}
	}
	return out
}

func inAnyLoop(fn *ssa.Function, b *ssa.BasicBlock) bool {
	for _, l := range naturalLoops(fn) {
		if l.body[b] {
			return true
		}
	}
	return false
}

// C15-R6: the set consulted by the duplicate check records every field the walk iterates.
func c15R6(c *Ctx) {
	p := c.P
	n := 0
	for _, fn := range p.FuncsIn(modPath) {
		if fn.Pkg == nil || fn.Pkg.Pkg.Path() != modPath {
			continue
		}
		for _, b := range fn.Blocks {
			for _, in := range b.Instrs {
				lk, ok := in.(*ssa.Lookup)
				if !ok || !lk.CommaOk {
					continue
				}
				if _, isMap := lk.X.Type().Underlying().(*types.Map); !isMap {
					continue
				}
				// the lookup's ok-result guards a reject
				guardsReject := false
				var rej ssa.CallInstruction
				for _, cl := range Calls(fn) {
					if !p.isRejectCtor(cl.Common().StaticCallee()) {
						continue
					}
					dec := decisionOf(cl.Block())
					if dec == nil {
						continue
					}
					if ex, ok := dec.Instrs[len(dec.Instrs)-1].(*ssa.If).Cond.(*ssa.Extract); ok && ex.Tuple == ssa.Value(lk) && dec.Succs[0] == cl.Block() {
						guardsReject = true
						rej = cl
					}
				}
				if !guardsReject {
					continue
				}
				// the loop that iterates
				var loop *natLoop
				for _, l := range naturalLoops(fn) {
					if l.body[b] && (loop == nil || len(l.body) < len(loop.body)) {
						loop = l
					}
				}
				if loop == nil {
					continue
				}
				n++
				// record sites: map updates or method calls on the same set with the same key
				var recs []ssa.Instruction
				keyO := p.Origin(lk.Index).String()
				ForEachInstr(fn, func(x ssa.Instruction) {
					switch v := x.(type) {
					case *ssa.MapUpdate:
						if v.Map == lk.X && p.Origin(v.Key).String() == keyO {
							recs = append(recs, x)
						}
					case ssa.CallInstruction:
						cc := v.Common()
						if len(cc.Args) >= 2 && cc.Args[0] == lk.X && p.Origin(cc.Args[1]).String() == keyO {
							recs = append(recs, x)
						}
					}
				})
				name := FuncName(fn)
				if len(recs) == 0 {
					c.Violation(name, p.InstrPos(lk), "duplicate-set-never-filled", "the set consulted by the duplicate-tag check ("+rej.Common().StaticCallee().Name()+") is never filled with the examined key")
					continue
				}
				for _, la := range loop.latches {
					ok := false
					for _, r := range recs {
						if r.Block().Dominates(la) {
							ok = true
						}
					}
					c.Check(ok, name, p.InstrPos(la.Instrs[len(la.Instrs)-1]), "recorded-before-next-field", "every iterated field is recorded before the walk moves on",
						"the walk can move on to the next field (loop back edge here) without having recorded the current tag in the set the duplicate check consults: a second occurrence of such a tag is not noticed (tag appears more than once would not be reported)")
				}
				// and the check precedes the record
				for _, r := range recs {
					c.Check(InstrDominates(lk, r), name, p.InstrPos(r), "check-before-record", "the set is consulted before the tag is recorded", "the tag is recorded before the duplicate check consults the set: every field would look like a duplicate or the check is bypassed")
				}
			}
		}
	}
	if n == 0 {
		c.Violation("", "-", "no-duplicate-check", "no field walk consults a set of seen tags before rejecting (the duplicate-tag check was not found)")
	}
}

// C15-R7: a relaxation switches off only its own check. In a validation function whose rejects
// are enabled by boolean settings (parameters), an early success exit must imply, for every
// reject site of the function, that one of the settings enabling that site is off — leaving
// early under "A is off OR B is off" would silently disable B's check whenever A is relaxed.
func c15R7(c *Ctx) {
	p := c.P
	n := 0
	isBoolParam := func(o *Org) bool {
		if o == nil || o.Kind != "param" || o.Val == nil {
			return false
		}
		b, ok := o.Val.Type().Underlying().(*types.Basic)
		return ok && b.Kind() == types.Bool
	}
	for _, fn := range p.FuncsIn(modPath) {
		if fn.Pkg == nil || fn.Pkg.Pkg.Path() != modPath || fn.Parent() != nil {
			continue
		}
		res := fn.Signature.Results()
		if res.Len() == 0 || typeName(res.At(res.Len()-1).Type()) != "MessageRejectError" || p.isRejectCtor(fn) {
			continue
		}
		// reject sites with their enabling settings
		type site struct {
			cl   ssa.CallInstruction
			sets []*Atom
		}
		var sites []site
		for _, cl := range Calls(fn) {
			if !p.isRejectCtor(cl.Common().StaticCallee()) {
				continue
			}
			// the site's own enabling setting: the innermost boolean-parameter test on its dominator chain
			var sets []*Atom
			for b := cl.Block(); b != nil && len(sets) == 0; b = b.Idom() {
				id := b.Idom()
				if id == nil {
					break
				}
				iff, ok := id.Instrs[len(id.Instrs)-1].(*ssa.If)
				if !ok {
					continue
				}
				o := p.Origin(iff.Cond)
				if isBoolParam(o) && id.Succs[0] == b {
					sets = append(sets, &Atom{B: o, Val: true, Cond: iff.Cond, Want: true})
				}
			}
			if len(sets) > 0 {
				sites = append(sites, site{cl, sets})
			}
		}
		if len(sites) == 0 {
			continue
		}
		for _, b := range fn.Blocks {
			r, ok := b.Instrs[len(b.Instrs)-1].(*ssa.Return)
			if !ok || !p.Origin(r.Results[len(r.Results)-1]).IsNil() || inAnyLoop(fn, b) {
				continue
			}
			d := p.ReachCond(b)
			// early exit: mentions settings negatively and precedes the sites
			early := false
			for _, a := range d.Atoms() {
				if a.Rel == "" && !a.Val && isBoolParam(a.B) {
					early = true
				}
			}
			for _, l := range naturalLoops(fn) {
				if l.header.Dominates(b) {
					early = false // after a loop: the walk has run, this is the ordinary success exit
				}
			}
			if !early {
				continue
			}
			for _, s := range sites {
				if s.cl.Block().Dominates(b) || reaches(s.cl.Block(), b) && !reaches(b, s.cl.Block()) {
					continue
				}
				n++
				ok := d.Implies(func(a *Atom) bool {
					if a.Rel != "" || a.Val || !isBoolParam(a.B) {
						return false
					}
					for _, en := range s.sets {
						if en.B.Param == a.B.Param {
							return true
						}
					}
					return false
				})
				c.Check(ok, FuncName(fn), p.InstrPos(r), "relaxation-covers:"+fnName(s.cl.Common().StaticCallee()), "the early exit implies that the setting enabling this reject is off",
					"validation leaves early under "+d.String()+", which does not imply that the setting enabling the reject "+fnName(s.cl.Common().StaticCallee())+" (at "+p.InstrPos(s.cl.(ssa.Instruction))+") is off: relaxing one check silently switches off another")
			}
		}
	}
	if n == 0 {
		c.Violation("", "-", "no-relaxation-exit", "no validation function has an early exit under relaxed settings")
	}
}
