package main

import (
	"fmt"
	"go/token"
	"go/types"
	"sort"
	"strings"

	"golang.org/x/tools/go/ssa"
)

func init() { register("C02", propC02) }

func propC02() Property {
	return Property{
		ID: "C02",
		Explanation: "Lockset and shape rules over every function of the module. R1: reading the next outbound number that is stamped into tag 34, persisting/incrementing it, every store to the send queue and every send on the connection channel execute with session.sendMutex held (entry requirements propagated to all callers, roots must satisfy them), and numbering→enqueue happens in ONE critical section. " +
			"R2: the stamped number is the number read (re-read after a store reset), the persisted number/bytes are the stamped number and the built bytes, the persist error is returned, persist does exactly one of save+incr / incr. R3: bytes are enqueued iff numbering+persist succeeded. R4: the queue is only appended to, truncated to empty, or cut at the index whose send failed; what is sent is the queue's own element in iteration order. " +
			"R5: first-time numbering holds resendMutex(R) (or is the Logon/Logout drop-and-send confined to the session goroutine), the replay loop holds resendMutex(W) across IterateMessages and across whatever the replay function sends after it (the closing gap fill), resendMutex is never taken while sendMutex is held and never re-taken inside the W region. R6: the application-side send API only queues: it reaches no channel send and does not read the session state. R7: where a function both empties the send queue and resets the store, the two happen under one acquisition of sendMutex with no release in between. R8 (shared with C16): in every store, save-and-increment saves first and increments only on the nil-error edge, or is one transaction — so the bytes are retrievable under n before n counts as used. R9 (shared with C17): the file store appends at the end of the body file and indexes that offset, so the bytes stored under earlier numbers stay retrievable after a reopen. R10 (shared with C17): the SQL store updates its cached outbound counter only after Commit returned nil.",
		NotDecided: "atomicity of the store implementation itself (C16/C17), fairness (that every number is eventually transmitted), data races on other fields. Observations (not verdicts): store.Reset in the Logon path runs without sendMutex; exported ResetSession touches state from a foreign goroutine.",
		Rules: []RuleDef{
			{ID: "C02-R1", Desc: "number→stamp→persist→enqueue→send under sendMutex, one section", Min: 8, Run: c02R1},
			{ID: "C02-R2", Desc: "stamp = read = persisted; persist error returned", Min: 5, Run: c02R2},
			{ID: "C02-R3", Desc: "enqueue iff numbering and persist succeeded", Min: 3, Run: c02R3},
			{ID: "C02-R4", Desc: "FIFO queue shape", Min: 5, Run: c02R4},
			{ID: "C02-R5", Desc: "resend lock protocol and lock order", Min: 5, Run: c02R5},
			{ID: "C02-R6", Desc: "application send API is queue-only", Min: 2, Run: c02R6},
			{ID: "C02-R7", Desc: "queue drop and store reset are one critical section", Min: 1, Run: c02R7},
			{ID: "C02-R8", Desc: "every store: save-and-increment = save (nil) then increment, or one transaction (= C16-R6)", Min: 4, Run: c16R6},
			{ID: "C02-R9", Desc: "file store: the bytes under n stay retrievable — appended at the end, indexed where written (= C17-R2)", Min: 3, Run: c17R2},
			{ID: "C02-R12", Desc: "the reset-sent flag is set only by a reset Logon going out and consulted before a second reset (= C07-R3)", Min: 4, Run: c07R3},
			{ID: "C02-R14", Desc: "a reset removes every stored file of the old epoch (= C16-R13)", Min: 2, Run: c16R13},
			{ID: "C02-R13", Desc: "file counters are rewritten in place at fixed width (= C17-R3)", Min: 3, Run: c17R3},
			{ID: "C02-R11", Desc: "every store reset runs inside the send critical section", Min: 2, Run: c02R11},
			{ID: "C02-R10", Desc: "sql: cached counter updated only after Commit returned nil (= C17-R4)", Min: 4, Run: c17R4},
		},
	}
}

// ---- roles ---------------------------------------------------------------------------

type sessRoles struct {
	p                                *Prog
	fStore, fToSend, fMsgOut, fState *types.Var
	tagSeq                           int64
	prep                             []*ssa.Function // read next sender + stamp 34
	persist                          []*ssa.Function // call SaveAndIncr / IncrNextSender on session.store
	senders                          []*ssa.Function // contain a send on messageOut
	flushers                         []*ssa.Function // range over toSend calling a sender
}

// storeCall: call instr invoking MessageStore method `name` on session.store.
func (r *sessRoles) isStoreCall(in ssa.Instruction, names ...string) (string, bool) {
	ci, ok := in.(ssa.CallInstruction)
	if !ok {
		return "", false
	}
	cc := ci.Common()
	if !cc.IsInvoke() {
		return "", false
	}
	if !isFieldOrg(r.p.Origin(cc.Value), r.fStore) {
		return "", false
	}
	for _, n := range names {
		if cn(cc.Method) == n {
			return n, true
		}
	}
	return "", false
}

func (r *sessRoles) storeCalls(fn *ssa.Function, names ...string) []ssa.CallInstruction {
	var out []ssa.CallInstruction
	ForEachInstr(fn, func(in ssa.Instruction) {
		if _, ok := r.isStoreCall(in, names...); ok {
			out = append(out, in.(ssa.CallInstruction))
		}
	})
	return out
}

// setTagCalls: calls of FieldMap setters (SetField/SetInt/SetString/SetBytes/SetBool) with constant tag.
type setTag struct {
	call ssa.CallInstruction
	recv *Org
	val  ssa.Value
}

func (p *Prog) setTagCalls(fn *ssa.Function, tag int64) []setTag {
	var out []setTag
	for _, cl := range Calls(fn) {
		cc := cl.Common()
		n := callName(cc)
		switch n {
		case "(*FieldMap).SetField", "(*FieldMap).SetInt", "(*FieldMap).SetString", "(*FieldMap).SetBytes", "(*FieldMap).SetBool":
			if v, ok := constIntOf(cc.Args[1]); ok && v == tag {
				out = append(out, setTag{cl, p.Origin(cc.Args[0]), cc.Args[2]})
			}
		}
	}
	return out
}

// sendsOn: Send instructions / select-send states on a channel loaded from field f.
func (p *Prog) sendsOn(fn *ssa.Function, f *types.Var) []ssa.Instruction {
	var out []ssa.Instruction
	ForEachInstr(fn, func(in ssa.Instruction) {
		switch x := in.(type) {
		case *ssa.Send:
			if isFieldOrg(p.Origin(x.Chan), f) {
				out = append(out, in)
			}
		case *ssa.Select:
			for _, st := range x.States {
				if st.Dir == types.SendOnly && isFieldOrg(p.Origin(st.Chan), f) {
					out = append(out, in)
				}
			}
		}
	})
	return out
}

// sentValues returns the values sent by a send instruction on field f.
func (p *Prog) sentValues(in ssa.Instruction, f *types.Var) []ssa.Value {
	switch x := in.(type) {
	case *ssa.Send:
		return []ssa.Value{x.X}
	case *ssa.Select:
		var out []ssa.Value
		for _, st := range x.States {
			if st.Dir == types.SendOnly && isFieldOrg(p.Origin(st.Chan), f) {
				out = append(out, st.Send)
			}
		}
		return out
	}
	return nil
}

var rolesMemo *sessRoles

func getRoles(p *Prog) *sessRoles {
	if rolesMemo != nil && rolesMemo.p == p {
		return rolesMemo
	}
	r := &sessRoles{p: p}
	r.fStore = p.Field(modPath, "session", "store")
	r.fToSend = p.Field(modPath, "session", "toSend")
	r.fMsgOut = p.Field(modPath, "session", "messageOut")
	r.fState = p.Field(modPath, "stateMachine", "State")
	r.tagSeq = p.Tag("tagMsgSeqNum")
	for _, fn := range p.FuncsIn(modPath) {
		reads := r.storeCalls(fn, "NextSenderMsgSeqNum")
		if len(reads) > 0 {
			for _, st := range p.setTagCalls(fn, r.tagSeq) {
				if p.Origin(st.val).Any(func(o *Org) bool { return o.IsCallTo("(MessageStore).NextSenderMsgSeqNum") }) {
					r.prep = appendFn(r.prep, fn)
				}
			}
		}
		if len(r.storeCalls(fn, "SaveMessageAndIncrNextSenderMsgSeqNum", "IncrNextSenderMsgSeqNum")) > 0 {
			r.persist = appendFn(r.persist, fn)
		}
		if len(p.sendsOn(fn, r.fMsgOut)) > 0 {
			r.senders = appendFn(r.senders, fn)
		}
	}
	for _, fn := range p.FuncsIn(modPath) {
		for _, cl := range Calls(fn) {
			if cal := cl.Common().StaticCallee(); cal != nil && containsFn(r.senders, cal) {
				r.flushers = appendFn(r.flushers, fn)
			}
		}
	}
	rolesMemo = r
	return r
}

func appendFn(fs []*ssa.Function, f *ssa.Function) []*ssa.Function {
	if containsFn(fs, f) {
		return fs
	}
	return append(fs, f)
}

func containsFn(fs []*ssa.Function, f *ssa.Function) bool {
	for _, x := range fs {
		if x == f {
			return true
		}
	}
	return false
}

func fnNames(fs []*ssa.Function) string {
	var ns []string
	for _, f := range fs {
		ns = append(ns, FuncName(f))
	}
	sort.Strings(ns)
	return strings.Join(ns, ", ")
}

// ---- R1 -----------------------------------------------------------------------------------

const sendMu = "session.sendMutex"

func c02GuardedOps(p *Prog) map[*ssa.Function][]GuardedOp {
	r := getRoles(p)
	ops := map[*ssa.Function][]GuardedOp{}
	for _, fn := range p.FuncsIn(modPath) {
		// stamping reads
		for _, st := range p.setTagCalls(fn, r.tagSeq) {
			for _, o := range flattenAlts(p.Origin(st.val)) {
				if o.IsCallTo("(MessageStore).NextSenderMsgSeqNum") && o.CallI != nil && o.CallI.Parent() == fn {
					ops[fn] = append(ops[fn], GuardedOp{o.CallI, sendMu, "read of the next outbound number that is stamped into MsgSeqNum(34)"})
				}
			}
		}
		for _, cl := range r.storeCalls(fn, "SaveMessageAndIncrNextSenderMsgSeqNum", "IncrNextSenderMsgSeqNum") {
			ops[fn] = append(ops[fn], GuardedOp{cl, sendMu, "store." + cn(cl.Common().Method)})
		}
		ForEachInstr(fn, func(in ssa.Instruction) {
			if st, ok := in.(*ssa.Store); ok && fieldAddrOf(st.Addr, r.fToSend) != nil {
				ops[fn] = append(ops[fn], GuardedOp{in, sendMu, "store to session.toSend"})
			}
		})
		for _, s := range p.sendsOn(fn, r.fMsgOut) {
			ops[fn] = append(ops[fn], GuardedOp{s, sendMu, "send on session.messageOut"})
		}
	}
	return ops
}

func c02R1(c *Ctx) {
	p := c.P
	r := getRoles(p)
	ops := c02GuardedOps(p)
	lr := p.ComputeLockReqs(ops)
	// every guarded op: report held/required
	var fns []*ssa.Function
	for fn := range ops {
		fns = append(fns, fn)
	}
	sort.Slice(fns, func(i, j int) bool { return fns[i].Pos() < fns[j].Pos() })
	for _, fn := range fns {
		for _, op := range ops[fn] {
			held := p.Locks(fn).HeldAt(op.In)
			if lockSatisfied(held, op.Lock) {
				c.OK(FuncName(fn), p.InstrPos(op.In), op.What+" under "+sendMu+" (acquired in this function)")
			} else {
				c.OK(FuncName(fn), p.InstrPos(op.In), op.What+": entry requirement "+sendMu+" (checked at callers)")
			}
		}
	}
	// roots with unmet requirements
	var need []*ssa.Function
	for fn, m := range lr.Needs {
		if _, ok := m[sendMu]; ok {
			need = append(need, fn)
		}
	}
	sort.Slice(need, func(i, j int) bool { return need[i].Pos() < need[j].Pos() })
	for _, fn := range need {
		kinds := p.entryKinds(fn)
		if len(kinds) == 0 {
			continue // all entries are in-module sync callers, which were checked (and propagated)
		}
		why := lr.Needs[fn][sendMu][0]
		c.Violation(FuncName(fn), p.Pos(fn.Pos()), "needs:"+sendMu, fmt.Sprintf("%s can be entered without %s held (%s) but requires it: %s. Two senders outside one critical section can read the same outbound number or reorder the queue.", FuncName(fn), sendMu, strings.Join(kinds, "; "), why))
	}
	// one critical section: in each function that calls the prep role and enqueues, same acquire site, no unlock between
	for _, fn := range p.FuncsIn(modPath) {
		var prepCalls []ssa.CallInstruction
		for _, cl := range Calls(fn) {
			if cal := cl.Common().StaticCallee(); cal != nil && containsFn(r.prep, cal) {
				prepCalls = append(prepCalls, cl)
			}
		}
		if len(prepCalls) == 0 {
			continue
		}
		lf := p.Locks(fn)
		ForEachInstr(fn, func(in ssa.Instruction) {
			st, ok := in.(*ssa.Store)
			if !ok || fieldAddrOf(st.Addr, r.fToSend) == nil || asAppend(st.Val) == nil {
				return
			}
			for _, pc := range prepCalls {
				if !InstrDominates(pc, in) {
					continue
				}
				a := sitesOf(lf.HeldSitesAt(pc), sendMu)
				b := sitesOf(lf.HeldSitesAt(in), sendMu)
				same := len(a) > 0 && fmt.Sprint(a) == fmt.Sprint(b) && !unlockBetween(p, pc, in, sendMu)
				c.Check(same, FuncName(fn), p.InstrPos(in), "one-section", "numbering and enqueue in one sendMutex section (acquired at "+strings.Join(a, ",")+")",
					fmt.Sprintf("the outbound number is assigned under sendMutex acquired at %v but the bytes are enqueued under %v: the section is split, another sender can interleave between numbering and queueing", a, b))
			}
		})
	}
	c.Note("roles: prep=%s persist=%s senders=%s flushers=%s", fnNames(r.prep), fnNames(r.persist), fnNames(r.senders), fnNames(r.flushers))
}

func sitesOf(s Set, lock string) []string {
	var out []string
	for k := range s {
		if lockBase(k) == lock {
			out = append(out, k[strings.IndexByte(k, '@')+1:])
		}
	}
	sort.Strings(out)
	return out
}

// unlockBetween: an explicit (non-deferred) release of lock on some path from a to b.
func unlockBetween(p *Prog, a, b ssa.Instruction, lock string) bool {
	fn := a.Parent()
	found := false
	ForEachInstr(fn, func(in ssa.Instruction) {
		cl, ok := in.(*ssa.Call)
		if !ok {
			return
		}
		if id, acq, ok := p.lockOf(&cl.Call); ok && !acq && id == lock {
			if InstrDominates(a, in) && (InstrDominates(in, b) || reaches(in.Block(), b.Block())) && !InstrDominates(b, in) {
				found = true
			}
		}
	})
	return found
}

func reaches(from, to *ssa.BasicBlock) bool {
	seen := map[*ssa.BasicBlock]bool{}
	var w func(b *ssa.BasicBlock) bool
	w = func(b *ssa.BasicBlock) bool {
		if b == to {
			return true
		}
		if seen[b] {
			return false
		}
		seen[b] = true
		for _, s := range b.Succs {
			if w(s) {
				return true
			}
		}
		return false
	}
	return w(from)
}

// ---- R2 -----------------------------------------------------------------------------------

func c02R2(c *Ctx) {
	p := c.P
	r := getRoles(p)
	if len(r.prep) == 0 {
		c.Undecided("", "-", "no-prep-role", "no function reads the next outbound number and stamps it into tag 34")
		return
	}
	build := p.Method(modPath, "Message", "build")
	for _, fn := range r.prep {
		name := FuncName(fn)
		// (a) every stamp of tag 34 takes a NextSender read
		for _, st := range p.setTagCalls(fn, r.tagSeq) {
			o := p.Origin(st.val)
			ok := o.All(func(x *Org) bool {
				return x.IsCallTo("(MessageStore).NextSenderMsgSeqNum") && isFieldOrg(x.Recv, r.fStore)
			})
			_, path := st.recv.FieldPath()
			c.Check(ok && contains(path, "Header"), name, p.InstrPos(st.call), "stamp-origin", "MsgSeqNum(34) in Header ← store.NextSenderMsgSeqNum()",
				"MsgSeqNum(34) is stamped from "+o.String()+", not from the store's next outbound number")
		}
		// (b) stamp is fresh at build(): after any store mutator the number is re-read and re-stamped
		mf := &MustFlow{Fn: fn, Transfer: func(in ssa.Instruction, s Set) {
			if n, ok := r.isStoreCall(in, "Reset", "Refresh", "SetNextSenderMsgSeqNum", "IncrNextSenderMsgSeqNum", "SaveMessageAndIncrNextSenderMsgSeqNum", "NextSenderMsgSeqNum"); ok {
				if n == "NextSenderMsgSeqNum" {
					s["read"] = true
					delete(s, "stamped")
				} else {
					delete(s, "read")
					delete(s, "stamped")
				}
				return
			}
			if cl, ok := in.(ssa.CallInstruction); ok {
				for _, st := range p.setTagCalls(fn, r.tagSeq) {
					if st.call == cl && s["read"] {
						s["stamped"] = true
					}
				}
			}
		}}
		var builds []ssa.CallInstruction
		for _, cl := range Calls(fn) {
			if cl.Common().StaticCallee() == build {
				builds = append(builds, cl)
			}
		}
		if len(builds) == 0 {
			c.Undecided(name, p.Pos(fn.Pos()), "no-build", "numbering function does not call Message.build")
		}
		for _, b := range builds {
			c.Check(mf.Before(b)["stamped"], name, p.InstrPos(b), "stamp-fresh", "at build(): number read and stamped after the last store mutation on every path",
				"on some path the message is built with a MsgSeqNum that was read before a store mutation (Reset/Refresh/Set) and not re-read and re-stamped afterwards")
		}
		// (c) persist receives the same number and the built bytes; error returned
		found := false
		for _, cl := range Calls(fn) {
			cal := cl.Common().StaticCallee()
			if cal == nil || !containsFn(r.persist, cal) {
				continue
			}
			found = true
			args := cl.Common().Args
			if cal.Signature.Recv() != nil {
				args = args[1:]
			}
			ok := len(args) == 2 &&
				p.Origin(args[0]).All(func(x *Org) bool { return x.IsCallTo("(MessageStore).NextSenderMsgSeqNum") }) &&
				p.Origin(args[1]).All(func(x *Org) bool { ff, _ := p.builders(); return x.Kind == "call" && x.Callee == ff })
			// every read that can reach persist is also one that was stamped
			stamped := map[ssa.Instruction]bool{}
			for _, st := range p.setTagCalls(fn, r.tagSeq) {
				for _, o := range flattenAlts(p.Origin(st.val)) {
					if o.CallI != nil {
						stamped[o.CallI] = true
					}
				}
			}
			sameVal := len(args) > 0
			if len(args) > 0 {
				for _, o := range flattenAlts(p.Origin(args[0])) {
					if o.CallI == nil || !stamped[o.CallI] {
						sameVal = false
					}
				}
			}
			c.Check(ok && sameVal, name, p.InstrPos(cl), "persist-args", "persist(seqNum stamped, bytes built)",
				"persist is called with ("+argStr(p, args)+"): the persisted number/bytes are not the stamped number and the bytes built from the stamped message")
			// error propagated: the call value flows to the function's error result
			v, _ := cl.(ssa.Value)
			ret := false
			if v != nil {
				ForEachInstr(fn, func(in ssa.Instruction) {
					if rt, ok := in.(*ssa.Return); ok {
						for _, res := range rt.Results {
							if p.Origin(res).Any(func(x *Org) bool { return x.Kind == "call" && x.CallI == cl.(ssa.Instruction) }) {
								ret = true
							}
						}
					}
				})
			}
			c.Check(ret, name, p.InstrPos(cl), "persist-err", "persist error is the returned error", "the error of persist is not returned: a failed save would still be enqueued and sent")
		}
		if !found && containsFn(r.persist, fn) {
			// the persist step is written out inside the numbering function itself
			for _, cl := range r.storeCalls(fn, "SaveMessageAndIncrNextSenderMsgSeqNum") {
				found = true
				args := cl.Common().Args
				ok := len(args) == 2 &&
					p.Origin(args[0]).All(func(x *Org) bool { return x.IsCallTo("(MessageStore).NextSenderMsgSeqNum") }) &&
					p.Origin(args[1]).All(func(x *Org) bool { ff, _ := p.builders(); return x.Kind == "call" && x.Callee == ff })
				stamped := map[ssa.Instruction]bool{}
				for _, st := range p.setTagCalls(fn, r.tagSeq) {
					for _, o := range flattenAlts(p.Origin(st.val)) {
						if o.CallI != nil {
							stamped[o.CallI] = true
						}
					}
				}
				sameVal := len(args) > 0
				if len(args) > 0 {
					for _, o := range flattenAlts(p.Origin(args[0])) {
						if o.CallI == nil || !stamped[o.CallI] {
							sameVal = false
						}
					}
				}
				c.Check(ok && sameVal, name, p.InstrPos(cl), "persist-args", "store.SaveMessageAndIncr(seqNum stamped, bytes built)",
					"the store is given ("+argStr(p, args)+"): the persisted number/bytes are not the stamped number and the bytes built from the stamped message")
				ret := false
				ForEachInstr(fn, func(in ssa.Instruction) {
					if rt, ok := in.(*ssa.Return); ok {
						for _, res := range rt.Results {
							if p.Origin(res).Any(func(x *Org) bool { return x.Kind == "call" && x.CallI == cl.(ssa.Instruction) }) {
								ret = true
							}
						}
					}
				})
				c.Check(ret, name, p.InstrPos(cl), "persist-err", "the store's error is the returned error", "the error of the save is not returned: a failed save would still be enqueued and sent")
			}
			for _, cl := range r.storeCalls(fn, "IncrNextSenderMsgSeqNum") {
				found = true
				c.OK(name, p.InstrPos(cl), "increment without persistence (persistence disabled)")
			}
		}
		if !found {
			c.Violation(name, p.Pos(fn.Pos()), "no-persist", "numbering function does not call the persist role")
		}
	}
	// (d) persist role: exactly one of SaveAndIncr / Incr per path, parameters passed through
	for _, fn := range r.persist {
		name := FuncName(fn)
		if containsFn(r.prep, fn) {
			// written out inside the numbering function: every success return has advanced the number
			mf := &MustFlow{Fn: fn, Transfer: func(in ssa.Instruction, st Set) {
				if _, ok := r.isStoreCall(in, "SaveMessageAndIncrNextSenderMsgSeqNum", "IncrNextSenderMsgSeqNum"); ok {
					st["advanced"] = true
				}
			}}
			okAdv := true
			for rt, st := range mf.AtReturns() {
				if p.Origin(rt.Results[len(rt.Results)-1]).IsNil() && !st["advanced"] {
					okAdv = false
				}
			}
			c.Check(okAdv, name, p.Pos(fn.Pos()), "persist-once", "every success return has advanced the outbound number", "a path returns success without having advanced the outbound number")
			continue
		}
		okPaths := true
		n := 0
		full := EnumPaths(fn, 256, func(pa Path) {
			cnt := 0
			for _, b := range pa.Blocks {
				for _, in := range b.Instrs {
					if _, ok := r.isStoreCall(in, "SaveMessageAndIncrNextSenderMsgSeqNum", "IncrNextSenderMsgSeqNum", "SaveMessage"); ok {
						cnt++
					}
				}
			}
			n++
			if cnt != 1 {
				okPaths = false
			}
		})
		c.Check(full && okPaths && n > 0, name, p.Pos(fn.Pos()), "persist-once", fmt.Sprintf("%d path(s), each with exactly one store advance", n), "some path through persist advances the outbound number zero or several times")
		for _, cl := range r.storeCalls(fn, "SaveMessageAndIncrNextSenderMsgSeqNum") {
			a := cl.Common().Args
			ok := len(a) == 2 && p.Origin(a[0]).Kind == "param" && p.Origin(a[1]).Kind == "param" && p.Origin(a[0]).Param < p.Origin(a[1]).Param
			c.Check(ok, name, p.InstrPos(cl), "persist-passthrough", "SaveMessageAndIncr(seqNum, bytes) passes its parameters through", "persist does not pass its (seqNum, bytes) parameters to the store unchanged: "+argStr(p, a))
		}
	}
}

func argStr(p *Prog, args []ssa.Value) string {
	var ss []string
	for _, a := range args {
		ss = append(ss, p.Origin(a).String())
	}
	return strings.Join(ss, ", ")
}

// ---- R3 -----------------------------------------------------------------------------------

func c02R3(c *Ctx) {
	p := c.P
	r := getRoles(p)
	for _, fn := range p.FuncsIn(modPath) {
		var pcs []ssa.CallInstruction
		for _, cl := range Calls(fn) {
			if cal := cl.Common().StaticCallee(); cal != nil && containsFn(r.prep, cal) {
				pcs = append(pcs, cl)
			}
		}
		for _, pc := range pcs {
			name := FuncName(fn)
			okAll := true
			nOK, nErr := 0, 0
			full := EnumPaths(fn, 1024, func(pa Path) {
				after := false
				appends := 0
				good := 0
				for _, b := range pa.Blocks {
					for _, in := range b.Instrs {
						if in == pc.(ssa.Instruction) {
							after = true
							continue
						}
						if !after {
							continue
						}
						if st, ok := in.(*ssa.Store); ok && fieldAddrOf(st.Addr, r.fToSend) != nil {
							if ai := asAppend(st.Val); ai != nil {
								appends++
								if len(ai.Elems) == 1 {
									eo := p.Origin(ai.Elems[0])
									if eo.Kind == "call" && eo.CallI == pc.(ssa.Instruction) && eo.Res == 0 {
										good++
									}
								}
							}
						}
					}
				}
				if !after {
					return
				}
				cond := p.PathCond(pa)
				isErr := cond.Implies(func(a *Atom) bool {
					return a.Rel == "!=" && a.R.IsNil() && a.L.Kind == "call" && a.L.CallI == pc.(ssa.Instruction)
				})
				if isErr {
					nErr++
					if appends != 0 {
						okAll = false
						c.Violation(name, p.InstrPos(pc), "enqueue-on-error", "on the path where numbering/persisting fails, bytes are still appended to the send queue")
					}
				} else {
					nOK++
					if appends != 1 || good != 1 {
						okAll = false
						c.Violation(name, p.InstrPos(pc), "enqueue-on-success", fmt.Sprintf("on a success path the bytes returned by the numbering step are appended %d time(s) (%d of them the returned bytes): an assigned number would never be transmitted, or twice", appends, good))
					}
				}
			})
			if !full {
				c.Undecided(name, p.InstrPos(pc), "paths", "too many paths")
				continue
			}
			if okAll {
				c.OK(name, p.InstrPos(pc), fmt.Sprintf("%d success path(s) enqueue exactly the returned bytes once; %d error path(s) enqueue nothing", nOK, nErr))
			}
			if nErr == 0 {
				c.Violation(name, p.InstrPos(pc), "error-unchecked", "the error of the numbering/persist step is not tested before enqueueing")
			}
		}
	}
}

// ---- R4 -----------------------------------------------------------------------------------

func c02R4(c *Ctx) {
	p := c.P
	r := getRoles(p)
	for _, st := range p.FieldStores(r.fToSend) {
		fn := st.Fn
		name := FuncName(fn)
		pos := p.InstrPos(st.Store)
		if ai := asAppend(st.Store.Val); ai != nil {
			ok := len(ai.Elems) == 1 && isFieldOrg(p.Origin(ai.Base), r.fToSend)
			c.Check(ok, name, pos, "queue-append", "toSend = append(toSend, one message)", "send queue is rebuilt by an append that is not `append(toSend, msg)`")
			continue
		}
		vo := p.Origin(st.Store.Val)
		if vo.Kind == "slice" && isFieldOrg(vo.Base, r.fToSend) {
			if (vo.X == nil || vo.X.IsConstInt(0)) && vo.Y != nil && vo.Y.IsConstInt(0) {
				c.OK(name, pos, "toSend = toSend[:0]")
				continue
			}
			if vo.X != nil && vo.Y == nil {
				// cut at i: i must be the range index of the loop over toSend, on the edge where the send failed
				sl := stripConv(st.Store.Val).(*ssa.Slice)
				d := p.ReachCond(st.Store.Block())
				idxOK := false
				var failedIdx *Org
				for _, a := range d.Atoms() {
					if a.Rel == "" && !a.Val && a.B.Kind == "call" && a.B.Callee != nil && containsFn(r.senders, a.B.Callee) {
						// !sendBytes(toSend[i], …)
						if len(a.B.Args) > 0 && a.B.Args[0].Kind == "index" && isFieldOrg(a.B.Args[0].Base, r.fToSend) {
							failedIdx = a.B.Args[0].Y
						}
					}
				}
				if failedIdx != nil && p.Origin(sl.Low).String() == failedIdx.String() {
					idxOK = true
				}
				c.Check(idxOK, name, pos, "queue-cut", "toSend = toSend[i:] at the index whose send failed",
					"the queue is cut at "+p.Origin(sl.Low).String()+", which is not the index of the element whose send just failed: unsent messages are dropped or a sent one is kept")
				continue
			}
		}
		c.Violation(name, pos, "queue-store:"+vo.String(), "store to the send queue of an unrecognised shape ("+vo.String()+"): FIFO order is not evident")
	}
	// what is sent: the sender's parameter; every caller passes toSend[i] of an ascending loop
	for _, fn := range r.senders {
		for _, s := range p.sendsOn(fn, r.fMsgOut) {
			for _, v := range p.sentValues(s, r.fMsgOut) {
				o := p.Origin(v)
				c.Check(o.Kind == "param", FuncName(fn), p.InstrPos(s), "sent-value", "channel send of the function's message parameter", "the value sent on the connection channel is "+o.String()+", not the caller-supplied queue element")
			}
		}
		for _, cs := range p.CallsTo(fn) {
			args := cs.Common().Args
			ok := false
			var desc string
			for _, a := range args[1:] {
				o := p.Origin(a)
				desc = o.String()
				if o.Kind == "index" && isFieldOrg(o.Base, r.fToSend) && p.nonNegative(o.Y, 0) && isAscendingIndex(o.Y) {
					ok = true
				}
				break
			}
			c.Check(ok, FuncName(cs.Fn), p.InstrPos(cs.Call), "send-arg", "sends toSend[i] for ascending i", "sender is called with "+desc+", not with the queue element of an ascending loop over toSend")
		}
	}
}

// ---- R5 -----------------------------------------------------------------------------------

func c02R5(c *Ctx) {
	p := c.P
	r := getRoles(p)
	const resendMu = "session.resendMutex"
	runFn := p.Method(modPath, "session", "run")
	// (a) prep callers
	for _, pf := range r.prep {
		for _, cs := range p.CallsTo(pf) {
			held := p.Locks(cs.Fn).HeldAt(cs.Call)
			name := FuncName(cs.Fn)
			if lockSatisfied(held, resendMu) {
				c.OK(name, p.InstrPos(cs.Call), "first-time numbering under resendMutex")
				continue
			}
			// drop-and-send role: confined to the session goroutine
			roots := p.rootsReaching(cs.Fn, runFn)
			var bad []string
			for _, rt := range roots {
				if rt != runFn {
					bad = append(bad, FuncName(rt))
				}
			}
			c.Check(len(bad) == 0 && len(roots) > 0, name, p.InstrPos(cs.Call), "prep-no-resend-lock",
				"numbering without resendMutex only on the session goroutine (every root reaching it is session.run), where the replay loop also runs",
				"first-time numbering without resendMutex in a function reachable from "+strings.Join(bad, ", ")+": a live message can be numbered and queued between replayed ones")
		}
	}
	// (b) IterateMessages under W
	nIter := 0
	for _, fn := range p.FuncsIn(modPath) {
		for _, cl := range r.storeCalls(fn, "IterateMessages", "GetMessages") {
			nIter++
			held := p.Locks(fn).HeldAt(cl)
			c.Check(held[resendMu+":W"], FuncName(fn), p.InstrPos(cl), "iterate-under-W", "replay loop holds resendMutex(W) across IterateMessages",
				"stored messages are replayed without holding resendMutex for writing: first-time messages can be transmitted between replayed ones")
		}
	}
	if nIter == 0 {
		c.Undecided("", "-", "no-replay", "no function iterates stored messages of session.store")
	}
	// (b') everything the replay function itself sends after the iteration (the tail gap fill) is
	// still inside the W region: the reply to a ResendRequest is one contiguous run
	for _, fn := range p.FuncsIn(modPath) {
		iters := r.storeCalls(fn, "IterateMessages", "GetMessages")
		if len(iters) == 0 {
			continue
		}
		for _, cl := range Calls(fn) {
			cal := cl.Common().StaticCallee()
			if cal == nil || !p.InModule(cal) || !InstrDominates(iters[0].(ssa.Instruction), cl.(ssa.Instruction)) {
				continue
			}
			sends := p.reachesAny(cal, func(f *ssa.Function) bool { return containsFn(r.prep, f) || len(p.sendsOn(f, r.fMsgOut)) > 0 }) || containsFn(r.prep, cal)
			if !sends {
				continue
			}
			held := p.Locks(fn).HeldAt(cl.(ssa.Instruction))
			c.Check(held[resendMu+":W"], FuncName(fn), p.InstrPos(cl.(ssa.Instruction)), "tail-send-under-W", "what the replay sends after the iteration is still under resendMutex(W)",
				"the replay function sends ("+FuncName(cal)+") after the iteration without holding resendMutex for writing: a first-time message from another goroutine can be numbered and transmitted between the last replayed message and the closing gap fill, whose NewSeqNo then points at a number already used")
		}
	}
	// (c) lock order, (d) no re-acquisition inside W
	for _, fn := range p.FuncsIn(modPath) {
		lf := p.Locks(fn)
		for _, e := range p.SyncCallees(fn) {
			held := lf.HeldAt(e.site)
			acq := p.MayAcquire(e.callee)
			if id, isAcq, ok := p.lockOf(e.site.(ssa.CallInstruction).Common()); ok && isAcq {
				acq = Set{id: true}
			}
			if held[sendMu] {
				for k := range acq {
					if strings.HasPrefix(k, resendMu) {
						c.Violation(FuncName(fn), p.InstrPos(e.site), "order:"+FuncName(e.callee), "resendMutex is acquired (via "+FuncName(e.callee)+") while sendMutex is held: the documented order is resendMutex before sendMutex; with the replay loop holding resendMutex(W) and waiting for sendMutex this deadlocks")
					}
				}
			}
			if held[resendMu+":W"] {
				for k := range acq {
					if strings.HasPrefix(k, resendMu) {
						c.Violation(FuncName(fn), p.InstrPos(e.site), "reacquire:"+FuncName(e.callee), "resendMutex is acquired again (via "+FuncName(e.callee)+") inside the region that holds it for writing: self-deadlock while answering a ResendRequest")
					}
				}
			}
			if held[sendMu] || held[resendMu+":W"] {
				c.rule.Instances++
				c.rule.Discharged++
			}
		}
	}
}

// rootsReaching: entry functions (no in-module sync caller, or dynamic/exported entries) from which fn is reachable
// through sync call edges and VTA edges.
func (p *Prog) rootsReaching(fn *ssa.Function, barrier *ssa.Function) []*ssa.Function {
	g := p.VTA()
	seen := map[*ssa.Function]bool{}
	var roots []*ssa.Function
	var walk func(f *ssa.Function)
	walk = func(f *ssa.Function) {
		if seen[f] {
			return
		}
		seen[f] = true
		if f == barrier {
			roots = append(roots, f)
			return
		}
		n := g.Nodes[f]
		callers := 0
		isGoRoot := false
		if n != nil {
			for _, e := range n.In {
				if e.Caller.Func != nil && p.InModule(e.Caller.Func) {
					if _, isGo := e.Site.(*ssa.Go); isGo {
						isGoRoot = true
						continue
					}
					callers++
					walk(e.Caller.Func)
				}
			}
		}
		if isGoRoot {
			roots = append(roots, f)
			return
		}
		if f.Parent() != nil {
			callers++
			walk(f.Parent())
		}
		if callers == 0 && f.Object() != nil && !f.Object().Exported() {
			return // unexported and never called: dead code, not an entry
		}
		isExported := f.Object() != nil && f.Object().Exported() && f.Parent() == nil && (f.Signature.Recv() == nil || namedOf(f.Signature.Recv().Type()) != nil && namedOf(f.Signature.Recv().Type()).Obj().Exported())
		if callers == 0 || isExported {
			roots = append(roots, f)
		}
	}
	walk(fn)
	sort.Slice(roots, func(i, j int) bool { return roots[i].Pos() < roots[j].Pos() })
	return roots
}

// ---- R6 -----------------------------------------------------------------------------------

func c02R6(c *Ctx) {
	p := c.P
	r := getRoles(p)
	for _, name := range []string{"Send", "SendToTarget"} {
		root := p.Func(modPath, name)
		reach := p.Reachable([]*ssa.Function{root}, false)
		var bad []string
		for f := range reach {
			if !p.InModule(f) {
				continue
			}
			if len(p.sendsOn(f, r.fMsgOut)) > 0 {
				bad = append(bad, FuncName(f)+" sends on messageOut")
			}
			ForEachInstr(f, func(in ssa.Instruction) {
				if u, ok := in.(*ssa.UnOp); ok && u.Op == token.MUL && fieldAddrOf(u.X, r.fState) != nil {
					bad = append(bad, FuncName(f)+" reads stateMachine.State at "+p.InstrPos(in))
				}
			})
		}
		sort.Strings(bad)
		c.Check(len(bad) == 0, FuncName(root), p.Pos(root.Pos()), "queue-only", fmt.Sprintf("%d functions statically reachable: none sends on the connection channel or reads the session state", len(reach)),
			"the application-side send API reaches: "+strings.Join(bad, "; ")+" — first-time transmission must happen only where the queue is flushed on the session goroutine")
	}
}

// isAscendingIndex: the index of an ascending loop from 0 — the rotated range form (φ{-1|…}+1)
// or the classic i := 0; …; i++ form φ{0 | (…+1)}.
func isAscendingIndex(o *Org) bool {
	if o == nil {
		return false
	}
	if o.Kind == "binop" && o.Op == token.ADD && o.Y.IsConstInt(1) {
		return true
	}
	if o.Kind == "phi" && len(o.Alts) == 2 {
		zero, inc := false, false
		for _, a := range o.Alts {
			if a.IsConstInt(0) {
				zero = true
			}
			if a.Kind == "binop" && a.Op == token.ADD && a.Y.IsConstInt(1) {
				inc = true
			}
		}
		return zero && inc
	}
	return false
}

// C02-R7: emptying the send queue and resetting the store are one critical section. A sender
// admitted between the two is numbered in the old epoch, its bytes are wiped by the reset, and
// it is transmitted in the new epoch under a number the store does not hold.
func c02R7(c *Ctx) {
	p := c.P
	r := getRoles(p)
	// queue droppers: functions that store toSend[:0] (or nil) into the queue
	dropper := map[*ssa.Function]bool{}
	for _, st := range p.FieldStores(r.fToSend) {
		vo := p.Origin(st.Store.Val)
		if vo.IsNil() || vo.Kind == "slice" && vo.Y != nil && vo.Y.IsConstInt(0) {
			dropper[st.Fn] = true
		}
	}
	n := 0
	for _, fn := range p.FuncsIn(modPath) {
		var drops []ssa.Instruction
		ForEachInstr(fn, func(in ssa.Instruction) {
			if cl, ok := in.(ssa.CallInstruction); ok {
				if cal := cl.Common().StaticCallee(); cal != nil && dropper[cal] {
					drops = append(drops, in)
				}
			}
			if st, ok := in.(*ssa.Store); ok && dropper[fn] && fieldAddrOf(st.Addr, r.fToSend) != nil {
				vo := p.Origin(st.Val)
				if vo.IsNil() || vo.Kind == "slice" && vo.Y != nil && vo.Y.IsConstInt(0) {
					drops = append(drops, in)
				}
			}
		})
		resets := r.storeCalls(fn, "Reset")
		if len(drops) == 0 || len(resets) == 0 {
			continue
		}
		lf := p.Locks(fn)
		for _, d := range drops {
			for _, rs := range resets {
				n++
				a := sitesOf(lf.HeldSitesAt(d), sendMu)
				b := sitesOf(lf.HeldSitesAt(rs), sendMu)
				first, second := d, ssa.Instruction(rs)
				if InstrDominates(second, first) {
					first, second = second, first
				}
				same := len(a) > 0 && fmt.Sprint(a) == fmt.Sprint(b) && !unlockBetween(p, first, second, sendMu)
				c.Check(same, FuncName(fn), p.InstrPos(rs), "drop-and-reset-one-section", "queue drop and store reset under one acquisition of "+sendMu,
					fmt.Sprintf("the send queue is emptied with %s held at %v but the store is reset with it held at %v (or released in between): a sender admitted between the two is numbered in the old epoch, its stored bytes are wiped by the reset, and it reaches the wire in the new epoch under a number the store does not hold", sendMu, a, b))
			}
		}
	}
	if n == 0 {
		c.Violation("", "-", "no-drop-and-reset", "no function both empties the send queue and resets the store (the drop-and-reset role was not found)")
	}
}
