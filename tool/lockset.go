package main

// Lockset: must-held locks per program point, entry requirements propagated to callers.

import (
	"fmt"
	"go/types"
	"sort"
	"strings"

	"golang.org/x/tools/go/ssa"
)

// lockOf decodes a sync (RW)Mutex call: returns lock id ("session.sendMutex", "session.resendMutex:R"),
// and whether it acquires (true) or releases (false).
func (p *Prog) lockOf(cc *ssa.CallCommon) (id string, acquire bool, ok bool) {
	cal := cc.StaticCallee()
	if cal == nil || cal.Pkg == nil || cal.Pkg.Pkg.Path() != "sync" || len(cc.Args) == 0 {
		return
	}
	recv := cal.Signature.Recv()
	if recv == nil {
		return
	}
	tn := typeName(recv.Type())
	if tn != "Mutex" && tn != "RWMutex" {
		return
	}
	mode := ""
	switch cal.Name() {
	case "Lock":
		acquire = true
		if tn == "RWMutex" {
			mode = ":W"
		}
	case "Unlock":
		if tn == "RWMutex" {
			mode = ":W"
		}
	case "RLock":
		acquire = true
		mode = ":R"
	case "RUnlock":
		mode = ":R"
	default:
		return
	}
	// the mutex object: field address (value field) or load of a pointer field
	v := cc.Args[0]
	var fa *ssa.FieldAddr
	switch x := v.(type) {
	case *ssa.FieldAddr:
		fa = x
	case *ssa.UnOp:
		fa, _ = x.X.(*ssa.FieldAddr)
	}
	if fa == nil {
		return
	}
	st := derefStruct(fa.X.Type())
	if st == nil {
		return
	}
	owner := typeName(fa.X.Type())
	return owner + "." + st.Field(fa.Field).Name() + mode, acquire, true
}

type LockFlow struct {
	p  *Prog
	fn *ssa.Function
	mf *MustFlow
}

// lockBase strips the @site suffix.
func lockBase(f string) string {
	if i := strings.IndexByte(f, '@'); i >= 0 {
		return f[:i]
	}
	return f
}

var lockFlowMemo = map[*ssa.Function]*LockFlow{}

// Locks returns the must-lockset analysis of fn. Facts are "id@site".
func (p *Prog) Locks(fn *ssa.Function) *LockFlow {
	if lf, ok := lockFlowMemo[fn]; ok {
		return lf
	}
	// deferred unlocks run at RunDefers
	deferred := map[string]bool{}
	ForEachInstr(fn, func(in ssa.Instruction) {
		if d, ok := in.(*ssa.Defer); ok {
			if id, acq, ok := p.lockOf(&d.Call); ok && !acq {
				deferred[id] = true
			}
		}
	})
	lf := &LockFlow{p: p, fn: fn}
	lf.mf = &MustFlow{Fn: fn, Transfer: func(in ssa.Instruction, s Set) {
		switch x := in.(type) {
		case *ssa.Call:
			if id, acq, ok := p.lockOf(&x.Call); ok {
				if acq {
					s[id+"@"+p.InstrPos(in)] = true
				} else {
					for k := range s {
						if lockBase(k) == id {
							delete(s, k)
						}
					}
				}
			}
		case *ssa.RunDefers:
			for k := range s {
				if deferred[lockBase(k)] {
					delete(s, k)
				}
			}
		}
	}}
	lockFlowMemo[fn] = lf
	return lf
}

// HeldAt: lock ids (without site) held just before in.
func (lf *LockFlow) HeldAt(in ssa.Instruction) Set {
	out := Set{}
	for k := range lf.mf.Before(in) {
		out[lockBase(k)] = true
	}
	return out
}

// HeldSitesAt: facts with acquire sites.
func (lf *LockFlow) HeldSitesAt(in ssa.Instruction) Set { return lf.mf.Before(in) }

// ---- synchronous closure edges ------------------------------------------------------

// asyncCallee: functions whose function-typed arguments run later / on another goroutine.
func asyncCallee(cc *ssa.CallCommon) bool {
	n := callName(cc)
	return n == "time.AfterFunc" || strings.HasSuffix(n, "NewEventTimer") || n == "(*sync.Once).Do" && false
}

type callEdge struct {
	site   ssa.Instruction
	callee *ssa.Function
}

// SyncCallees: static callees of fn plus closures passed as arguments to a (non-async) call
// or invoked directly; the closure is treated as running at that call.
func (p *Prog) SyncCallees(fn *ssa.Function) []callEdge {
	var out []callEdge
	ForEachInstr(fn, func(in ssa.Instruction) {
		ci, ok := in.(ssa.CallInstruction)
		if !ok {
			return
		}
		if _, isGo := in.(*ssa.Go); isGo {
			return
		}
		cc := ci.Common()
		if cal := cc.StaticCallee(); cal != nil {
			out = append(out, callEdge{in, cal})
		}
		if asyncCallee(cc) {
			return
		}
		for _, a := range cc.Args {
			if mc, ok := a.(*ssa.MakeClosure); ok {
				out = append(out, callEdge{in, mc.Fn.(*ssa.Function)})
			}
		}
	})
	return out
}

// ---- entry requirements --------------------------------------------------------------

type GuardedOp struct {
	In   ssa.Instruction
	Lock string // required lock id (no mode suffix means any mode of that lock)
	What string
}

type LockReq struct {
	Needs map[*ssa.Function]map[string][]string // fn -> lock -> reasons (op descriptions / callee chain)
}

func lockSatisfied(held Set, need string) bool {
	if held[need] {
		return true
	}
	if !strings.Contains(need, ":") {
		// any mode
		for k := range held {
			if strings.HasPrefix(k, need+":") || k == need {
				return true
			}
		}
	}
	return false
}

// ComputeLockReqs: which locks each function requires to be held at entry so that every
// guarded op (directly or through sync callees) executes under its lock.
func (p *Prog) ComputeLockReqs(ops map[*ssa.Function][]GuardedOp) *LockReq {
	lr := &LockReq{Needs: map[*ssa.Function]map[string][]string{}}
	add := func(fn *ssa.Function, lock, why string) bool {
		if lr.Needs[fn] == nil {
			lr.Needs[fn] = map[string][]string{}
		}
		if _, ok := lr.Needs[fn][lock]; ok {
			return false
		}
		lr.Needs[fn][lock] = []string{why}
		return true
	}
	for fn, os := range ops {
		lf := p.Locks(fn)
		for _, op := range os {
			if !lockSatisfied(lf.HeldAt(op.In), op.Lock) {
				add(fn, op.Lock, fmt.Sprintf("%s at %s", op.What, p.InstrPos(op.In)))
			}
		}
	}
	changed := true
	for changed {
		changed = false
		for _, fn := range p.Funcs {
			for _, e := range p.SyncCallees(fn) {
				need := lr.Needs[e.callee]
				if len(need) == 0 {
					continue
				}
				held := p.Locks(fn).HeldAt(e.site)
				for lock := range need {
					if !lockSatisfied(held, lock) {
						if add(fn, lock, fmt.Sprintf("calls %s at %s, which needs it (%s)", FuncName(e.callee), p.InstrPos(e.site), need[lock][0])) {
							changed = true
						}
					}
				}
			}
		}
	}
	return lr
}

// isRoot: fn can be entered from outside the analysed call edges: exported, no in-module
// sync caller, used as a value (go statement, stored, passed to an async API), or an
// interface method implementation invoked dynamically.
func (p *Prog) entryKinds(fn *ssa.Function) []string {
	var kinds []string
	if fn.Object() != nil && fn.Object().Exported() && fn.Parent() == nil {
		recvExported := true
		if r := fn.Signature.Recv(); r != nil {
			if n := namedOf(r.Type()); n != nil && !n.Obj().Exported() {
				recvExported = false
			}
		}
		if recvExported {
			kinds = append(kinds, "exported API")
		}
	}
	// dynamic callers per VTA (interface dispatch / function values)
	if n := p.VTA().Nodes[fn]; n != nil {
		for _, e := range n.In {
			if e.Site == nil {
				continue
			}
			if _, isGo := e.Site.(*ssa.Go); isGo {
				kinds = append(kinds, "go statement at "+p.InstrPos(e.Site))
				continue
			}
			if e.Site.Common().StaticCallee() == nil {
				// dynamic
				if p.InModule(e.Caller.Func) {
					// closure passed synchronously is modelled by SyncCallees; other dynamic calls are entries
					isSyncClosure := false
					if fn.Parent() != nil {
						for _, se := range p.SyncCallees(fn.Parent()) {
							if se.callee == fn {
								isSyncClosure = true
							}
						}
					}
					if !isSyncClosure {
						kinds = append(kinds, "dynamic call from "+FuncName(e.Caller.Func)+" at "+p.InstrPos(e.Site))
					}
				}
			}
		}
	}
	hasCaller := false
	for _, f := range p.Funcs {
		for _, e := range p.SyncCallees(f) {
			if e.callee == fn {
				hasCaller = true
			}
		}
	}
	if !hasCaller && len(kinds) == 0 {
		kinds = append(kinds, "no in-module caller")
	}
	sort.Strings(kinds)
	return kinds
}

// MayAcquire: locks a function may acquire, transitively through sync callees.
var mayAcqMemo map[*ssa.Function]Set

func (p *Prog) MayAcquire(fn *ssa.Function) Set {
	if mayAcqMemo == nil {
		mayAcqMemo = map[*ssa.Function]Set{}
		for _, f := range p.Funcs {
			s := Set{}
			ForEachInstr(f, func(in ssa.Instruction) {
				if c, ok := in.(ssa.CallInstruction); ok {
					if id, acq, ok := p.lockOf(c.Common()); ok && acq {
						s[id] = true
					}
				}
			})
			mayAcqMemo[f] = s
		}
		changed := true
		for changed {
			changed = false
			for _, f := range p.Funcs {
				for _, e := range p.SyncCallees(f) {
					for k := range mayAcqMemo[e.callee] {
						if !mayAcqMemo[f][k] {
							mayAcqMemo[f][k] = true
							changed = true
						}
					}
				}
			}
		}
	}
	return mayAcqMemo[fn]
}

var _ = types.Universe
