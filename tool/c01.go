package main

import (
	"fmt"
	"go/types"
	"sort"
	"strings"

	"golang.org/x/tools/go/ssa"
)

func init() { register("C01", propC01) }

func propC01() Property {
	return Property{
		ID: "C01",
		Explanation: "R1 (who-may-deliver): the application callbacks are invoked from one dispatcher; FromApp only under isAdminMessageType(MsgType of that message)=false; every call path into the dispatcher either passes the sequence gate with both the too-low and the too-high comparison switched on, or is confined (by dominating bytes.Equal guards on MsgType, followed up the static callers) to administrative message types. Together: FromApp ⇒ MsgSeqNum = next expected at the call. " +
			"R2: after a fully gated verification succeeds, every non-failing path to return advances the expected inbound number exactly once and none advances before it; no function advances twice on one path; the wrapper states advance only through the in-session handler. " +
			"R3: the too-low/too-high errors are produced exactly under seq < expected / seq > expected, with seq = MsgSeqNum(34) of the message and expected = the store's next inbound number. R4: the expected number is set (not incremented) only forward, to NewSeqNo(36), under NewSeqNo > expected — or by the explicit operator API. R5: stash drain at the expected number (shared with C04-R5). R2(d) since D18 has no exception for the reject processor: a rejected message consumes the expected number only on a path where both sequence comparisons came out nil for it. R6 (shared with C11): the handlers read each field from the section the parser files it in. R7/R8 (shared with C07): the store is reset only for a configured or negotiated reason, and a received ResetSeqNumFlag resets only when it is Y and no reset was sent — otherwise the expected number would go back to 1 without an explicit reset and delivered messages would be delivered again. R9: the too-high comparison that licenses an advance was made after the last reset/refresh of the store on that path; every call of the reject processor returns its result (a handler never carries on after handing the message to it).",
		NotDecided: "the arithmetic of histories (that replays interleaved with live traffic leave no hole); a caller-plus-callee double advance across functions (the Logon error arms are only distinguishable by the dynamic type of an error); behaviour when the application returns errors.",
		Rules: []RuleDef{
			{ID: "C01-R1", Desc: "callback gate: who may reach FromApp/FromAdmin", Min: 6, Run: c01R1},
			{ID: "C01-R2", Desc: "advance exactly once after a gated acceptance, never twice", Min: 4, Run: c01R2},
			{ID: "C01-R3", Desc: "sequence comparison polarity and operands", Min: 2, Run: c01R3},
			{ID: "C01-R4", Desc: "forward-only set of the expected number", Min: 1, Run: c01R4},
			{ID: "C01-R11", Desc: "every inbound message is parsed into a message of its own (= C04-R12)", Min: 2, Run: c04R12},
			{ID: "C01-R10", Desc: "stashed messages are not carried into a new epoch (= C04-R11)", Min: 3, Run: c04R11},
			{ID: "C01-R5", Desc: "stash drained at the expected number", Min: 3, Run: c04R5},
			{ID: "C01-R6", Desc: "session handlers read each field from the section the parser files it in (= C11-R7)", Min: 20, Run: sectionAccessRule},
			{ID: "C01-R7", Desc: "the expected number goes back to 1 only through a configured or negotiated reset (= C07-R1)", Min: 3, Run: c07R1},
			{ID: "C01-R8", Desc: "a received reset flag resets only when it is Y and no reset was sent (= C07-R3)", Min: 2, Run: c07R3},
			{ID: "C01-R9", Desc: "the comparison licensing an advance is fresh; one advance per message counting callees", Min: 2, Run: c01R9},
		},
	}
}

type gateInfo struct {
	dispatcher        *ssa.Function // invokes FromApp/FromAdmin
	tooLow            *ssa.Function // constructs targetTooLow
	tooHigh           *ssa.Function // constructs targetTooHigh
	gate              *ssa.Function // calls both comparisons under bool parameters
	pLow, pHigh, pApp int           // parameter indices of the gate
	reachDisp         map[*ssa.Function]bool
	adminGlobals      map[string]bool
}

var gateMemo *gateInfo

func litConstructors(p *Prog, tn string) []*ssa.Function {
	n := p.Named(modPath, tn)
	var out []*ssa.Function
	for _, fn := range p.FuncsIn(modPath) {
		found := false
		ForEachInstr(fn, func(in ssa.Instruction) {
			if al, ok := in.(*ssa.Alloc); ok && al.Comment == "complit" {
				if types.Identical(al.Type().Underlying().(*types.Pointer).Elem(), n) {
					found = true
				}
			}
		})
		if found {
			out = append(out, fn)
		}
	}
	return out
}

func getGate(p *Prog) *gateInfo {
	if gateMemo != nil {
		return gateMemo
	}
	g := &gateInfo{adminGlobals: map[string]bool{}}
	app := p.Named(modPath, "Application")
	fa := p.InvokeSites(app, "FromApp")
	if len(fa) != 1 {
		anchorFail("exactly one FromApp invoke site (found %d)", len(fa))
	}
	g.dispatcher = fa[0].Fn
	for _, cs := range p.InvokeSites(app, "FromAdmin") {
		if cs.Fn != g.dispatcher {
			anchorFail("FromAdmin invoked outside the dispatcher (%s)", FuncName(cs.Fn))
		}
	}
	// comparisons: functions that build the error AND read the store's next expected number
	pick := func(tn string) *ssa.Function {
		var cands []*ssa.Function
		for _, fn := range litConstructors(p, tn) {
			r := getRoles(p)
			if len(r.storeCalls(fn, "NextTargetMsgSeqNum")) > 0 {
				cands = append(cands, fn)
			}
		}
		if len(cands) != 1 {
			anchorFail("exactly one function comparing MsgSeqNum and constructing %s (found %d)", tn, len(cands))
		}
		return cands[0]
	}
	g.tooLow, g.tooHigh = pick("targetTooLow"), pick("targetTooHigh")
	// gate: calls both under bool parameters
	for _, fn := range p.FuncsIn(modPath) {
		pl, ph := -1, -1
		for _, cl := range Calls(fn) {
			cal := cl.Common().StaticCallee()
			if cal != g.tooLow && cal != g.tooHigh {
				continue
			}
			d := p.ReachCond(cl.Block())
			for _, a := range d.Atoms() {
				if a.Rel == "" && a.Val && a.B.Kind == "param" && d.Implies(func(b *Atom) bool { return b.String() == a.String() }) {
					if cal == g.tooLow {
						pl = a.B.Param
					} else {
						ph = a.B.Param
					}
				}
			}
		}
		if pl >= 0 && ph >= 0 {
			if g.gate != nil {
				anchorFail("more than one sequence gate")
			}
			g.gate, g.pLow, g.pHigh = fn, pl, ph
		}
	}
	if g.gate == nil {
		anchorFail("sequence gate (function calling both comparisons under boolean parameters)")
	}
	// functions reaching the dispatcher
	g.reachDisp = map[*ssa.Function]bool{g.dispatcher: true}
	changed := true
	for changed {
		changed = false
		for _, fn := range p.FuncsIn(modPath) {
			if g.reachDisp[fn] {
				continue
			}
			for _, cl := range Calls(fn) {
				if cal := cl.Common().StaticCallee(); cal != nil && g.reachDisp[cal] {
					g.reachDisp[fn] = true
					changed = true
				}
			}
		}
	}
	// app-impl parameter of the gate: guards the call that reaches the dispatcher
	g.pApp = -1
	for _, cl := range Calls(g.gate) {
		if cal := cl.Common().StaticCallee(); cal != nil && g.reachDisp[cal] {
			d := p.ReachCond(cl.Block())
			for _, a := range d.Atoms() {
				if a.Rel == "" && a.Val && a.B.Kind == "param" && d.Implies(func(b *Atom) bool { return b.String() == a.String() }) {
					g.pApp = a.B.Param
				}
			}
		}
	}
	// admin type globals
	adm := p.adminTypeFn()
	for _, cl := range Calls(adm) {
		if callName(cl.Common()) == "bytes.Equal" {
			for _, a := range cl.Common().Args {
				if o := p.Origin(a); o.Kind == "global" {
					g.adminGlobals[o.Global.Name()] = true
				}
			}
		}
	}
	if len(g.adminGlobals) < 7 {
		anchorFail("isAdminMessageType lists %d message types (7 administrative types expected)", len(g.adminGlobals))
	}
	gateMemo = g
	return g
}

// constBoolArg: the constant boolean an argument evaluates to, following thin wrappers' params.
func (p *Prog) constBoolArg(v ssa.Value, depth int) (val bool, isConst bool) {
	o := p.Origin(v)
	if b, ok := o.ConstBoolVal(); ok {
		return b, true
	}
	return false, false
}

// adminOnly: the call site executes only for administrative message types: a dominating
// bytes.Equal(<admin type global>, MsgType) guard here or at every static caller (depth <= 3).
func (p *Prog) adminOnly(g *gateInfo, site ssa.Instruction, depth int) (bool, string) {
	d := p.ReachCond(site.Block())
	var which string
	if d.Implies(func(a *Atom) bool {
		if a.Rel != "" || !a.Val || !a.B.IsCallTo("bytes.Equal") || len(a.B.Args) != 2 {
			return false
		}
		for i := 0; i < 2; i++ {
			gl, m := a.B.Args[i], a.B.Args[1-i]
			if gl.Kind == "global" && g.adminGlobals[gl.Global.Name()] && m.IsCallTo("(FieldMap).GetBytes") && m.ArgConstInt(0, p.Tag("tagMsgType")) {
				which = gl.Global.Name()
				return true
			}
		}
		return false
	}) {
		return true, which
	}
	if depth >= 3 {
		return false, ""
	}
	fn := site.Parent()
	callers := p.StaticCallers(fn)
	if len(callers) == 0 {
		return false, ""
	}
	var ws []string
	for _, cs := range callers {
		if cs.Parent() == g.gate {
			ws = append(ws, "(via the gate)")
			continue // the gate-internal site is checked on its own
		}
		ok, w := p.adminOnly(g, cs, depth+1)
		if !ok {
			return false, ""
		}
		ws = append(ws, w)
	}
	sort.Strings(ws)
	return true, strings.Join(uniqStrings(ws), "/")
}

func c01R1(c *Ctx) {
	p := c.P
	g := getGate(p)
	c.Note("dispatcher=%s gate=%s (tooLow param #%d, tooHigh #%d, appImpl #%d) comparisons=%s,%s", FuncName(g.dispatcher), FuncName(g.gate), g.pLow, g.pHigh, g.pApp, FuncName(g.tooLow), FuncName(g.tooHigh))
	// R1b: inside the dispatcher
	app := p.Named(modPath, "Application")
	for _, m := range []string{"FromApp", "FromAdmin"} {
		for _, cs := range p.InvokeSites(app, m) {
			d := p.ReachCond(cs.Call.Block())
			wantAdmin := m == "FromAdmin"
			msgArg := p.Origin(cs.Common().Args[0]).String()
			ok := d.Implies(func(a *Atom) bool {
				if a.Rel != "" || a.Val != wantAdmin || !(a.B.Kind == "call" && a.B.Callee == p.adminTypeFn()) || len(a.B.Args) != 1 {
					return false
				}
				t := a.B.Args[0]
				if !(t.IsCallTo("(FieldMap).GetBytes") && t.ArgConstInt(0, p.Tag("tagMsgType"))) {
					return false
				}
				root, _ := t.Recv.FieldPath()
				return root != nil && root.String() == msgArg
			})
			c.Check(ok, FuncName(cs.Fn), p.InstrPos(cs.Call), "dispatch-"+m, fmt.Sprintf("%s only when isAdminMessageType(MsgType of the same message) = %v", m, wantAdmin),
				fmt.Sprintf("%s is invoked under %s, not under isAdminMessageType(MsgType(35) of the delivered message) = %v", m, d.String(), wantAdmin))
		}
	}
	// every call site into the dispatcher cone
	for _, fn := range p.FuncsIn(modPath) {
		for _, cl := range Calls(fn) {
			cal := cl.Common().StaticCallee()
			if cal == nil || !g.reachDisp[cal] {
				continue
			}
			name := FuncName(fn)
			pos := p.InstrPos(cl)
			if isStateHandler(p, cal) {
				continue // delegation to another state's handler: that handler is analysed itself
			}
			if fn == g.gate {
				// internal: the app-impl call must be under the app-impl parameter and after both comparisons' switches
				d := p.ReachCond(cl.Block())
				ok := g.pApp >= 0 && d.Implies(func(a *Atom) bool { return a.Rel == "" && a.Val && a.B.Kind == "param" && a.B.Param == g.pApp })
				// comparisons precede
				pre := true
				for _, c2 := range Calls(fn) {
					if c3 := c2.Common().StaticCallee(); (c3 == g.tooLow || c3 == g.tooHigh) && (reaches(cl.Block(), c2.Block()) && cl.Block() != c2.Block() || cl.Block() == c2.Block() && comesBefore(cl, c2)) {
						pre = false
					}
				}
				c.Check(ok && pre, name, pos, "gate-internal", "inside the gate: callbacks only under the app-impl switch, after both comparisons", "inside the sequence gate the callback path is not guarded by its switch parameter or precedes a sequence comparison")
				continue
			}
			if cal == g.gate {
				args := cl.Common().Args
				lo, loC := p.constBoolArg(args[g.pLow], 0)
				hi, hiC := p.constBoolArg(args[g.pHigh], 0)
				ap, apC := true, false
				if g.pApp >= 0 {
					ap, apC = p.constBoolArg(args[g.pApp], 0)
				}
				if apC && !ap {
					c.OK(name, pos, "gate call without callbacks")
					continue
				}
				if loC && hiC && lo && hi {
					c.OK(name, pos, "fully gated: too-low and too-high comparisons on")
					continue
				}
				ok, w := p.adminOnly(g, cl, 0)
				c.Check(ok, name, pos, "partial-gate", fmt.Sprintf("partially gated (tooLow=%v/%v tooHigh=%v/%v) but confined to administrative type %s", lo, loC, hi, hiC, w),
					fmt.Sprintf("the sequence gate is entered with the comparisons not both constantly on (tooLow=%v const=%v, tooHigh=%v const=%v) with callbacks enabled, and the site is not confined to administrative message types: an application message could be delivered with a MsgSeqNum other than the expected one", lo, loC, hi, hiC))
				continue
			}
			// thin wrappers of the gate are analysed at their own call to the gate; calls to them inherit
			if isThinGateWrapper(p, g, cal) {
				lo, hi, ap := wrapperConsts(p, g, cal)
				if !ap {
					c.OK(name, pos, "gate wrapper without callbacks")
					continue
				}
				if lo && hi {
					c.OK(name, pos, "fully gated through "+FuncName(cal))
					continue
				}
				ok, w := p.adminOnly(g, cl, 0)
				c.Check(ok, name, pos, "partial-gate-wrapper", "partially gated through "+FuncName(cal)+" but confined to administrative type "+w,
					"partially gated call through "+FuncName(cal)+" that is not confined to administrative message types")
				continue
			}
			if isThinGateWrapper(p, g, fn) {
				continue
			}
			// ungated entry into the dispatcher cone
			ok, w := p.adminOnly(g, cl, 0)
			c.Check(ok, name, pos, "ungated:"+FuncName(cal), "ungated call of "+FuncName(cal)+" confined to administrative type "+w,
				"call of "+FuncName(cal)+" reaches the application callbacks without passing the sequence gate and is not confined to administrative message types")
		}
	}
}

// comesBefore: a precedes b on every path (a dominates b).
func comesBefore(a, b ssa.Instruction) bool { return InstrDominates(a, b) }

// isThinGateWrapper: a function whose only call into the dispatcher cone is one call of the gate with constant switches.
func isThinGateWrapper(p *Prog, g *gateInfo, fn *ssa.Function) bool {
	if fn == nil || fn == g.gate {
		return false
	}
	n := 0
	for _, cl := range Calls(fn) {
		cal := cl.Common().StaticCallee()
		if cal == nil || !g.reachDisp[cal] {
			continue
		}
		if cal != g.gate {
			return false
		}
		n++
		args := cl.Common().Args
		for _, i := range []int{g.pLow, g.pHigh, g.pApp} {
			if i >= 0 {
				if _, isC := p.constBoolArg(args[i], 0); !isC {
					return false
				}
			}
		}
	}
	return n == 1 && len(fn.Blocks) == 1
}

func wrapperConsts(p *Prog, g *gateInfo, fn *ssa.Function) (lo, hi, ap bool) {
	for _, cl := range Calls(fn) {
		if cl.Common().StaticCallee() == g.gate {
			args := cl.Common().Args
			lo, _ = p.constBoolArg(args[g.pLow], 0)
			hi, _ = p.constBoolArg(args[g.pHigh], 0)
			ap = true
			if g.pApp >= 0 {
				ap, _ = p.constBoolArg(args[g.pApp], 0)
			}
		}
	}
	return
}

// isAdvance: IncrNextTargetMsgSeqNum / SetNextTargetMsgSeqNum on session.store.
func isAdvance(p *Prog, in ssa.Instruction) bool {
	r := getRoles(p)
	_, ok := r.isStoreCall(in, "IncrNextTargetMsgSeqNum", "SetNextTargetMsgSeqNum")
	return ok
}

func c01R2(c *Ctx) {
	p := c.P
	g := getGate(p)
	// (a) fully gated sites
	nSites := 0
	for _, fn := range p.FuncsIn(modPath) {
		for _, cl := range Calls(fn) {
			cal := cl.Common().StaticCallee()
			full := false
			if cal == g.gate {
				args := cl.Common().Args
				lo, loC := p.constBoolArg(args[g.pLow], 0)
				hi, hiC := p.constBoolArg(args[g.pHigh], 0)
				full = loC && hiC && lo && hi
			} else if isThinGateWrapper(p, g, cal) {
				lo, hi, ap := wrapperConsts(p, g, cal)
				full = lo && hi && ap
			}
			if !full || isThinGateWrapper(p, g, fn) {
				continue
			}
			nSites++
			name := FuncName(fn)
			okAll := true
			nOK := 0
			complete := EnumPaths(fn, 2048, func(pa Path) {
				seen, before, after := false, 0, 0
				stateErr := false
				for _, b := range pa.Blocks {
					for _, in := range b.Instrs {
						if in == cl.(ssa.Instruction) {
							seen = true
							continue
						}
						if isAdvance(p, in) {
							if seen {
								after++
							} else {
								before++
							}
						}
						if c2, ok := in.(ssa.CallInstruction); ok && seen {
							if cal2 := c2.Common().StaticCallee(); p.isStateErrorExit(cal2) {
								stateErr = true
							}
						}
					}
				}
				if !seen {
					return
				}
				cond := p.PathCond(pa)
				accepted := cond.Implies(nilErrAtomFor(cl.(ssa.Instruction)))
				if before > 0 {
					okAll = false
					c.Violation(name, p.InstrPos(cl), "advance-before-verify", "the expected inbound number is advanced before the message has been verified")
				}
				if accepted && !stateErr {
					nOK++
					if after != 1 {
						okAll = false
						c.Violation(name, p.InstrPos(cl), fmt.Sprintf("advance-count-%d", after), fmt.Sprintf("after a successful fully gated verification a path to return advances the expected inbound number %d times (must be exactly once): the same number would be accepted again, or a number skipped", after))
					}
				}
				if !accepted && after > 0 {
					// the reject path advances inside the reject processor, not here
					okAll = false
					c.Violation(name, p.InstrPos(cl), "advance-on-reject-path", "the expected inbound number is advanced directly on the path where verification failed")
				}
			})
			if !complete {
				c.Undecided(name, p.InstrPos(cl), "paths", "too many paths")
			} else if okAll {
				c.OK(name, p.InstrPos(cl), fmt.Sprintf("%d accepting path(s), each advancing exactly once after the verification", nOK))
			}
		}
	}
	if nSites == 0 {
		c.Violation("", "-", "no-fully-gated-site", "no call site verifies a message with both sequence comparisons on")
	}
	// (b) no function advances twice on a path
	for _, fn := range p.FuncsIn(modPath) {
		has := false
		ForEachInstr(fn, func(in ssa.Instruction) {
			if isAdvance(p, in) {
				has = true
			}
		})
		if !has {
			continue
		}
		max := 0
		EnumPaths(fn, 4096, func(pa Path) {
			n := 0
			for _, b := range pa.Blocks {
				for _, in := range b.Instrs {
					if isAdvance(p, in) {
						n++
					}
				}
			}
			if n > max {
				max = n
			}
		})
		c.Check(max <= 1, FuncName(fn), p.Pos(fn.Pos()), "double-advance", "at most one advance on any path", fmt.Sprintf("a path through %s advances the expected inbound number %d times", FuncName(fn), max))
	}
	// (d) every increment is dominated by evidence that the message's number equals the
	// expected one: a fully gated verification, or both comparisons, returned nil. Tabulated
	// exception: the Logon-refusal shutdown (flag-controlled). The reject processor's
	// reject-and-consume arm was an exception until D18 showed that it is reached with numbers
	// that were never compared.
	r := getRoles(p)
	for _, fn := range p.FuncsIn(modPath) {
		for _, cl := range r.storeCalls(fn, "IncrNextTargetMsgSeqNum") {
			name := FuncName(fn)
			hasAssert := false
			ForEachInstr(fn, func(in ssa.Instruction) {
				if ta, ok := in.(*ssa.TypeAssert); ok && typeName(ta.AssertedType) == "targetTooLow" {
					hasAssert = true
				}
			})
			d := p.ReachCond(cl.Block())
			_ = hasAssert // the reject processor's reject-and-consume arm is no exception: rejects can be decided before, or without, the sequence comparison (D18)
			if d.Implies(func(a *Atom) bool { return a.Rel == "" && a.Val && a.B.Kind == "param" }) {
				c.OK(name, p.InstrPos(cl), "flag-controlled consume after a refused Logon (tabulated)")
				continue
			}
			gatedNil := func(low, high bool) func(*Atom) bool {
				return func(a *Atom) bool {
					if a.Rel != "==" || !a.R.IsNil() || a.L.Kind != "call" || a.L.Callee == nil {
						return false
					}
					cal := a.L.Callee
					if low && cal == g.tooLow || high && cal == g.tooHigh {
						return true
					}
					if cal == g.gate && a.L.Call != nil {
						lo, loC := p.constBoolArg(a.L.Call.Args[g.pLow], 0)
						hi, hiC := p.constBoolArg(a.L.Call.Args[g.pHigh], 0)
						return (!low || loC && lo) && (!high || hiC && hi)
					}
					if isThinGateWrapper(p, g, cal) {
						lo, hi, _ := wrapperConsts(p, g, cal)
						return (!low || lo) && (!high || hi)
					}
					return false
				}
			}
			okLow := d.Implies(gatedNil(true, false))
			okHigh := d.Implies(gatedNil(false, true))
			c.Check(okLow && okHigh, name, p.InstrPos(cl), "advance-needs-both-comparisons", "increment only after both sequence comparisons passed on this message",
				fmt.Sprintf("the expected inbound number is incremented although the message's MsgSeqNum is not known to equal it (too-low comparison passed: %v, too-high comparison passed: %v): a message numbered above the expected one would consume a number that never arrived, so the session's own later ResendRequest starts too late and a message is silently lost", okLow, okHigh))
		}
	}
	// (c) wrapper states advance only through the in-session handler
	for _, tn := range []string{"resendState", "logoutState", "pendingTimeout"} {
		n := p.Named(modPath, tn)
		for _, fn := range p.FuncsIn(modPath) {
			if r := fn.Signature.Recv(); r == nil || !types.Identical(r.Type(), n) {
				continue
			}
			bad := false
			ForEachInstr(fn, func(in ssa.Instruction) {
				if isAdvance(p, in) {
					bad = true
				}
			})
			if bad {
				c.Violation(FuncName(fn), p.Pos(fn.Pos()), "wrapper-advance", "a wrapper state advances the expected inbound number itself; it must do so only by delegating to the in-session handler (otherwise a message is counted twice)")
			}
		}
	}
}

func c01R3(c *Ctx) {
	p := c.P
	g := getGate(p)
	t34 := p.Tag("tagMsgSeqNum")
	isSeq := func(o *Org) bool { return o.IsCallTo("(FieldMap).GetInt") && o.ArgConstInt(0, t34) && o.Res == 0 }
	isExp := func(o *Org) bool { return o.IsCallTo("(MessageStore).NextTargetMsgSeqNum") }
	check := func(fn *ssa.Function, tn string, low bool) {
		name := FuncName(fn)
		n := p.Named(modPath, tn)
		ForEachInstr(fn, func(in ssa.Instruction) {
			al, ok := in.(*ssa.Alloc)
			if !ok || al.Comment != "complit" || !types.Identical(al.Type().Underlying().(*types.Pointer).Elem(), n) {
				return
			}
			d := p.ReachCond(al.Block())
			ok2 := d.Implies(func(a *Atom) bool {
				if a.Rel != "<" {
					return false
				}
				if low {
					return isSeq(a.L) && isExp(a.R)
				}
				return isExp(a.L) && isSeq(a.R)
			})
			want := "MsgSeqNum(34) < expected"
			if !low {
				want = "MsgSeqNum(34) > expected"
			}
			c.Check(ok2, name, p.InstrPos(al), tn+"-polarity", tn+" produced exactly under "+want, tn+" is produced under "+d.String()+"; required: "+want+" with expected = store.NextTargetMsgSeqNum() and the number read from tag 34 of the message")
			// field binding
			st := n.Underlying().(*types.Struct)
			for i := 0; i < st.NumFields(); i++ {
				f := st.Field(i)
				if cn(f) != "ReceivedTarget" && cn(f) != "ExpectedTarget" {
					continue
				}
				for _, s := range p.FieldStores(f) {
					if s.Fn != fn {
						continue
					}
					vo := p.Origin(s.Store.Val)
					okF := cn(f) == "ReceivedTarget" && isSeq(vo) || cn(f) == "ExpectedTarget" && isExp(vo)
					c.Check(okF, name, p.InstrPos(s.Store), tn+"-"+f.Name(), f.Name()+" bound to the right operand", tn+"."+f.Name()+" is set from "+vo.String())
				}
			}
		})
	}
	check(g.tooLow, "targetTooLow", true)
	check(g.tooHigh, "targetTooHigh", false)
}

func c01R4(c *Ctx) {
	p := c.P
	r := getRoles(p)
	t36 := p.Tag("tagNewSeqNo")
	n := 0
	for _, fn := range p.FuncsIn(modPath) {
		for _, cl := range r.storeCalls(fn, "SetNextTargetMsgSeqNum") {
			n++
			name := FuncName(fn)
			if fn.Object() != nil && fn.Object().Exported() && fn.Signature.Recv() == nil {
				c.OK(name, p.InstrPos(cl), "explicit operator API")
				continue
			}
			ao := p.Origin(cl.Common().Args[0])
			isNew := func(o *Org) bool {
				return (o.Kind == "outarg" || o.Kind == "call") && o.IsCallTo("(FieldMap).GetField", "(FieldMap).GetInt") && o.ArgConstInt(0, t36)
			}
			d := p.ReachCond(cl.Block())
			ok := ao.All(isNew) && d.Implies(func(a *Atom) bool {
				return a.Rel == "<" && a.L.IsCallTo("(MessageStore).NextTargetMsgSeqNum") && a.R.All(isNew)
			})
			c.Check(ok, name, p.InstrPos(cl), "set-forward-only", "expected number set to NewSeqNo(36) only under NewSeqNo > expected",
				"the expected inbound number is set to "+ao.String()+" under "+d.String()+": it may only be moved forward, to NewSeqNo(36) of a SequenceReset, when NewSeqNo > expected")
		}
	}
	if n == 0 {
		c.Violation("", "-", "no-set", "no SequenceReset handling sets the expected inbound number")
	}
}

// isStateHandler: fn implements sessionState.FixMsgIn.
func isStateHandler(p *Prog, fn *ssa.Function) bool {
	if fn == nil || fnName(fn) != "FixMsgIn" || fn.Signature.Recv() == nil {
		return false
	}
	it := p.Iface(modPath, "sessionState")
	return types.Implements(fn.Signature.Recv().Type(), it)
}
