package main

// C13 – repeating groups survive the wire: structural necessary conditions only.

import (
	"fmt"
	"go/token"
	"go/types"
	"sort"
	"strings"

	"golang.org/x/tools/go/ssa"
)

func init() { register("C13", propC13) }

func propC13() Property {
	return Property{
		ID: "C13",
		Explanation: "The round trip itself is an equality of runtime values and is not decided. Decided are the places where writer, template reader and dictionary-guided parser must agree with each other, each a necessary condition of the round trip. " +
			"R1 (writer): the group writer's first field carries the group's own tag and the decimal length of the very slice of entries it then iterates, entries in slice order, members through the template-ordered tag list. " +
			"R2 (reader count): the template reader derives the expected count from the first field's value; every return that can be a success is reached only under expected == 0 or after the comparison of the number of entries read with the expected count came out equal. " +
			"R3 (reader entries): a new entry is opened exactly under the delimiter test (the first template item), and appended to the entries before the member is stored, so the delimiter lands in the new entry. " +
			"R4 (reader members): a member is stored under the tag of the first field of the window it was read from, and the stored value is the window captured before the item consumed its fields, cut to what the item consumed (window[:len(window)-len(rest)]: one field, or a nested group's whole extent — not everything that follows in the message). " +
			"R5 (dictionary-guided parser, no field lost): in the group sub-parser every extracted field is placed — appended to the group window, or filed into header/trailer/body — before the next extraction and before any exit; the group window is handed to the body before every exit and before it is replaced by a new window. These are what 'the fields following the group are still found' needs. " +
			"R6 (sibling agreement): the predicate 'this tag path starts a group' and the function returning the group's member definitions walk the dictionary identically: the one returns true under exactly the conditions under which the other returns a definition list. R7: in the sub-parser a field joins the group window only under a positive membership test of its tag, and the tag path and the member definitions change in step on every way round the loop (where definitions are re-read for a path, the path variable takes that same path; neither changes alone). R8 (shared with C10): setting a group into a field map updates the tag list and the lookup table as a pair (a group set twice must not be written twice). R9: Clone of a group item returns a fresh group with tag and template only (no whole-struct copy, no entries). R10 (shared with C19): the builder constructs every field/group definition for its occurrence; it never returns one from a by-name cache (groups are defined inline per message, the same name has different members in different messages). R11: the writer's member lookups are keyed by the entry's own tag list, not by the template; the group setter stores the group on every path (an empty group is a NumInGroup=0 field). R12 (shared with C10): copies and stores transfer the whole field.",
		NotDecided: "the round-trip equality itself (same entries, fields, values, order) for all templates and layouts; the position-dependent decisions of the dictionary-guided parser (whether a field after a nested group belongs to the parent group); groups of every shipped dictionary.",
		Rules: []RuleDef{
			{ID: "C13-R1", Desc: "writer: count field = tag + len of the iterated entries", Min: 3, Run: c13R1},
			{ID: "C13-R2", Desc: "reader: success only with matching count", Min: 2, Run: c13R2},
			{ID: "C13-R3", Desc: "reader: new entry exactly at the delimiter, before the member is stored", Min: 2, Run: c13R3},
			{ID: "C13-R4", Desc: "reader: member stored under its own tag with its whole window", Min: 2, Run: c13R4},
			{ID: "C13-R5", Desc: "group sub-parser: no extracted field is lost, window always published", Min: 6, Run: c13R5},
			{ID: "C13-R6", Desc: "group predicate and group-definition lookup agree", Min: 2, Run: c13R6},
			{ID: "C13-R7", Desc: "sub-parser: membership before joining the window; tag path and definitions in step", Min: 4, Run: c13R7},
			{ID: "C13-R8", Desc: "a group is set into a field map with paired tag-list / lookup updates (= C10-R1)", Min: 4, Run: c10R1},
			{ID: "C13-R9", Desc: "a cloned group item is empty (tag and template only)", Min: 1, Run: c13R9},
			{ID: "C13-R10", Desc: "group definitions are built per occurrence, never reused by name (= C19-R8)", Min: 2, Run: c19R8},
			{ID: "C13-R11", Desc: "the writer ranges over the entry's own tags; a group is always stored", Min: 2, Run: c13R11},
			{ID: "C13-R16", Desc: "a group that opens the body starts the body region (= C03-R9)", Min: 2, Run: c03R9},
			{ID: "C13-R15", Desc: "shared group definitions are never mutated or aliased after construction (= C19-R6)", Min: 5, Run: c19R6},
			{ID: "C13-R14", Desc: "the end-of-body mark moves over every body field and every field that opens a group window (= C03-R6)", Min: 3, Run: c03R6},
			{ID: "C13-R13", Desc: "entries created by the group's methods carry the template order", Min: 2, Run: c13R13},
			{ID: "C13-R12", Desc: "copies and stores transfer the whole field (= C10-R2)", Min: 1, Run: c10R2},
		},
	}
}

type rgInfo struct {
	T                        *types.Named
	fTag, fTemplate, fGroups *types.Var
	write, read              *ssa.Function
}

func getRG(p *Prog) *rgInfo {
	t := p.Named(modPath, "RepeatingGroup")
	r := &rgInfo{T: t}
	st := t.Underlying().(*types.Struct)
	for i := 0; i < st.NumFields(); i++ {
		f := st.Field(i)
		switch u := f.Type().Underlying().(type) {
		case *types.Slice:
			if _, isPtr := u.Elem().(*types.Pointer); isPtr {
				r.fGroups = f
			} else {
				r.fTemplate = f
			}
		case *types.Basic:
			r.fTag = f
		}
	}
	if r.fTag == nil || r.fTemplate == nil || r.fGroups == nil {
		anchorFail("RepeatingGroup fields (tag, template, entries)")
	}
	r.write = p.Method(modPath, "RepeatingGroup", "Write")
	r.read = p.Method(modPath, "RepeatingGroup", "Read")
	return r
}

func c13R1(c *Ctx) {
	p := c.P
	rg := getRG(p)
	fn := rg.write
	name := FuncName(fn)
	// the TagValue initialiser call on element 0
	var initCall ssa.CallInstruction
	for _, cl := range Calls(fn) {
		cal := cl.Common().StaticCallee()
		if cal == nil || cal.Signature.Recv() == nil || typeName(cal.Signature.Recv().Type()) != "TagValue" || len(cl.Common().Args) != 3 {
			continue
		}
		initCall = cl
	}
	if initCall == nil {
		c.Violation(name, p.Pos(fn.Pos()), "no-count-field", "the group writer does not initialise a count field")
		return
	}
	args := initCall.Common().Args
	ia, _ := args[0].(*ssa.IndexAddr)
	first := false
	if ia != nil {
		if k, ok := constIntOf(ia.Index); ok && k == 0 {
			first = true
		}
	}
	c.Check(first, name, p.InstrPos(initCall), "count-first", "the count field is element 0 of the written fields", "the count field is not the first field written: the reader takes the first field as the count")
	to := p.Origin(args[1])
	c.Check(to.IsField(rg.fTag), name, p.InstrPos(initCall), "count-tag", "the count field carries the group's tag", "the count field carries "+to.String()+" instead of the group's own tag")
	vo := stripOrgConv(p.Origin(args[2]))
	okLen := vo.IsCallTo("strconv.Itoa") && len(vo.Args) == 1 && vo.Args[0].IsCallTo("len") && len(vo.Args[0].Args) == 1 && vo.Args[0].Args[0].IsField(rg.fGroups)
	c.Check(okLen, name, p.InstrPos(initCall), "count-value", "count = decimal len(entries)", "the count field's value is "+vo.String()+", not the decimal length of the entries that are written")
	// iterates the same entries, in order
	iter := false
	ForEachInstr(fn, func(in ssa.Instruction) {
		if x, ok := in.(*ssa.IndexAddr); ok && p.Origin(x.X).IsField(rg.fGroups) {
			iter = true
		}
		if x, ok := in.(*ssa.Index); ok && p.Origin(x.X).IsField(rg.fGroups) {
			iter = true
		}
	})
	c.Check(iter, name, p.Pos(fn.Pos()), "iterates-entries", "the writer iterates the counted entries", "the writer does not iterate the slice whose length it announces")
}

// possibleSuccess: a return whose error result is not shown non-nil.
func (p *Prog) possibleSuccess(r *ssa.Return) bool {
	ev := r.Results[len(r.Results)-1]
	o := p.Origin(ev)
	if o.IsNil() {
		return true
	}
	if o.Kind == "call" && o.Callee != nil && p.InModule(o.Callee) && !isErrorType(o.Callee.Signature.Results().At(o.Callee.Signature.Results().Len()-1).Type()) {
		return false // a constructor of a concrete error
	}
	if o.Kind == "call" && o.Callee != nil && p.isRejectCtor(o.Callee) {
		return false
	}
	d := p.ReachCond(r.Block())
	nonNil := d.Implies(func(a *Atom) bool {
		if a.Rel != "!=" {
			return false
		}
		if bo, ok := a.Cond.(*ssa.BinOp); ok {
			return bo.X == ev && p.Origin(bo.Y).IsNil() || bo.Y == ev && p.Origin(bo.X).IsNil()
		}
		return false
	})
	return !nonNil
}

func c13R2(c *Ctx) {
	p := c.P
	rg := getRG(p)
	fn := rg.read
	name := FuncName(fn)
	// expected: a call whose argument is param[0].value
	var expected ssa.Value
	ForEachInstr(fn, func(in ssa.Instruction) {
		cl, ok := in.(*ssa.Call)
		if !ok || len(cl.Call.Args) != 1 {
			return
		}
		ao := p.Origin(cl.Call.Args[0])
		if ao.Kind == "field" && cn(ao.Field) == "value" && ao.Base != nil && ao.Base.Kind == "index" && ao.Base.Y.IsConstInt(0) && ao.Base.Base != nil && ao.Base.Base.Kind == "param" {
			expected = cl
		}
	})
	if expected == nil {
		c.Violation(name, p.Pos(fn.Pos()), "no-expected-count", "the group reader does not parse the first field's value as the expected count")
		return
	}
	isExp := func(o *Org) bool {
		return o != nil && o.Kind == "call" && o.CallI == expected.(ssa.Instruction) && o.Res == 0
	}
	n := 0
	for _, b := range fn.Blocks {
		r, ok := b.Instrs[len(b.Instrs)-1].(*ssa.Return)
		if !ok || !p.possibleSuccess(r) {
			continue
		}
		n++
		d := p.ReachCond(b)
		zero := d.Implies(func(a *Atom) bool {
			return a.Rel == "==" && (isExp(a.L) && a.R.IsConstInt(0) || isExp(a.R) && a.L.IsConstInt(0))
		})
		eq := d.Implies(func(a *Atom) bool {
			if a.Rel != "==" {
				return false
			}
			isLen := func(o *Org) bool {
				return o != nil && o.IsCallTo("len") && len(o.Args) == 1 && o.Args[0].IsField(rg.fGroups)
			}
			return isExp(a.L) && isLen(a.R) || isExp(a.R) && isLen(a.L)
		})
		c.Check(zero || eq, name, p.InstrPos(r), "success-needs-count", "success only with expected == 0 or entries read == expected",
			"the reader can return success under "+d.String()+" without having compared the number of entries read with the announced count: a group with missing or surplus entries is accepted")
	}
	if n == 0 {
		c.Violation(name, p.Pos(fn.Pos()), "no-success", "the group reader has no success return")
	}
}

// mentionsTemplateFirst: does o (looking through module callees' results) mention template[0]?
func (p *Prog) mentionsTemplateFirst(o *Org, rg *rgInfo, depth int) bool {
	if o == nil || depth > 4 {
		return false
	}
	return o.Mentions(func(x *Org) bool {
		if x.Kind == "index" && x.Y.IsConstInt(0) && x.Base != nil && x.Base.IsField(rg.fTemplate) {
			return true
		}
		if x.Kind == "call" && x.Callee != nil && p.InModule(x.Callee) && x != o {
			for _, b := range x.Callee.Blocks {
				if r, ok := b.Instrs[len(b.Instrs)-1].(*ssa.Return); ok {
					for _, res := range r.Results {
						if p.mentionsTemplateFirst(p.Origin(res), rg, depth+1) {
							return true
						}
					}
				}
			}
		}
		return false
	}) || (o.Kind == "call" && o.Callee != nil && p.InModule(o.Callee) && func() bool {
		for _, b := range o.Callee.Blocks {
			if r, ok := b.Instrs[len(b.Instrs)-1].(*ssa.Return); ok {
				for _, res := range r.Results {
					if p.mentionsTemplateFirst(p.Origin(res), rg, depth+1) {
						return true
					}
				}
			}
		}
		return false
	}())
}

func c13R3(c *Ctx) {
	p := c.P
	rg := getRG(p)
	fn := rg.read
	name := FuncName(fn)
	var opens []*ssa.Store
	var stores []*ssa.MapUpdate
	for _, f := range p.readerFamily(fn) {
		ForEachInstr(f, func(in ssa.Instruction) {
			if mu, ok := in.(*ssa.MapUpdate); ok {
				stores = append(stores, mu)
			}
			st, ok := in.(*ssa.Store)
			if !ok {
				return
			}
			fa, ok := st.Addr.(*ssa.FieldAddr)
			if !ok || derefStruct(fa.X.Type()).Field(fa.Field) != rg.fGroups {
				return
			}
			if ai := asAppend(st.Val); ai != nil && p.Origin(ai.Base).IsField(rg.fGroups) {
				opens = append(opens, st)
			}
		})
	}
	if len(opens) == 0 {
		c.Violation(name, p.Pos(fn.Pos()), "no-entry-open", "the group reader never appends an entry")
		return
	}
	for _, st := range opens {
		d := p.ReachCond(st.Block())
		okDelim := d.Implies(func(a *Atom) bool {
			if a.Rel == "" && a.Val {
				return p.mentionsTemplateFirst(a.B, rg, 0)
			}
			if a.Rel == "==" {
				return p.mentionsTemplateFirst(a.L, rg, 0) || p.mentionsTemplateFirst(a.R, rg, 0)
			}
			return false
		})
		c.Check(okDelim, name, p.InstrPos(st), "entry-at-delimiter", "a new entry is opened only under the delimiter test (first template item)",
			"a new entry is opened under "+d.String()+", which does not test the item against the first template item: entries are cut at the wrong field")
		for _, mu := range stores {
			if mu.Parent() != st.Parent() {
				// opened and stored in different functions of the reader: order them by their calls in the reader
				a, b := p.callIn(fn, st.Parent()), p.callIn(fn, mu.Parent())
				okCross := a != nil && b != nil && reaches(a.Block(), b.Block()) && !InstrDominates(b, a) || st.Parent() == fn && b != nil && reaches(st.Block(), b.Block()) || mu.Parent() == fn && a != nil && reaches(a.Block(), mu.Block())
				c.Check(okCross, name, p.InstrPos(mu), "open-before-store", "the entry is opened before the member is stored", "the member is stored before the new entry is opened: the delimiter field lands in the previous entry")
				continue
			}
			okOrder := !reaches(mu.Block(), st.Block()) || reaches(st.Block(), mu.Block()) && !InstrDominates(mu, st)
			okBefore := reaches(st.Block(), mu.Block()) && !InstrDominates(mu, st)
			c.Check(okOrder && okBefore, name, p.InstrPos(mu), "open-before-store", "the entry is opened before the member is stored", "the member is stored before the new entry is opened: the delimiter field lands in the previous entry")
		}
	}
}

func c13R4(c *Ctx) {
	p := c.P
	rg := getRG(p)
	fn := rg.read
	name := FuncName(fn)
	// the item's Read invoke
	var item ssa.CallInstruction
	for _, cl := range Calls(fn) {
		if cl.Common().IsInvoke() && cn(cl.Common().Method) == "Read" {
			item = cl
		}
	}
	if item == nil {
		c.Violation(name, p.Pos(fn.Pos()), "no-item-read", "the group reader does not let the template item read its fields")
		return
	}
	n := 0
	// role of a value inside the reader or one of its helpers: the window the item was given
	// (captured before it consumed its fields) or the rest the item's Read handed back; a helper's
	// parameter has the role of the argument at the helper's call in the reader
	var roleOfOrg func(o *Org, f *ssa.Function, depth int) string
	roleOfOrg = func(o *Org, f *ssa.Function, depth int) string {
		if o == nil || depth > 2 {
			return ""
		}
		if f == fn {
			if o.Val != nil && stripConv(o.Val) == stripConv(item.Common().Args[0]) {
				return "window"
			}
			if o.Kind == "call" && o.CallI == item.(ssa.Instruction) && o.Res == 0 {
				return "rest"
			}
			return ""
		}
		if o.Kind == "param" && o.Fn == f {
			if cl := p.callIn(fn, f); cl != nil && o.Param < len(cl.Common().Args) {
				return roleOfOrg(p.Origin(cl.Common().Args[o.Param]), fn, depth+1)
			}
		}
		return ""
	}
	for _, f := range p.readerFamily(fn) {
		f := f
		fname := FuncName(f)
		ForEachInstr(f, func(in ssa.Instruction) {
			mu, ok := in.(*ssa.MapUpdate)
			if !ok {
				return
			}
			n++
			win := stripConv(mu.Value)
			// the stored value is the part of the captured window that the item consumed:
			// window[:len(window)-len(rest)], rest being what the item's Read handed back
			extentOK := false
			if sl, isSl := win.(*ssa.Slice); isSl && sl.Low == nil && sl.High != nil && roleOfOrg(p.Origin(sl.X), f, 0) == "window" {
				ho := p.Origin(sl.High)
				if ho.Kind == "phi" {
					// clamped form: φ{len(window)-len(rest) | 1}
					var diff *Org
					okAlts := true
					for _, a := range ho.Alts {
						switch {
						case a.IsConstInt(1):
						case a.Kind == "binop" && a.Op == token.SUB:
							diff = a
						default:
							okAlts = false
						}
					}
					if okAlts && diff != nil {
						ho = diff
					}
				}
				if ho.Kind == "binop" && ho.Op == token.SUB && ho.X.IsCallTo("len") && ho.Y.IsCallTo("len") && len(ho.X.Args) == 1 && len(ho.Y.Args) == 1 {
					if roleOfOrg(ho.X.Args[0], f, 0) == "window" && roleOfOrg(ho.Y.Args[0], f, 0) == "rest" {
						extentOK = true
					}
				}
				win = stripConv(sl.X)
			}
			c.Check(extentOK, fname, p.InstrPos(mu), "stored-extent-is-what-the-item-consumed", "the member is stored as window[:len(window)-len(rest)]",
				"the member is stored with "+p.Origin(mu.Value).String()+", not cut to the fields the item consumed: every entry keeps everything that follows it in the message, so a group that was read and is written again (forwarded into another message) repeats the tail after each member")
			c.Check(roleOfOrg(p.Origin(win), f, 0) == "window", fname, p.InstrPos(mu), "window-before-read", "the stored window is the one the item was given (captured before it consumed its fields)",
				"the member is stored with "+p.Origin(mu.Value).String()+", not with the window the item started reading from: a nested group or the remaining entries are cut off or shifted")
			ko := p.Origin(mu.Key)
			okKey := ko.Kind == "field" && ko.Base != nil && ko.Base.Kind == "index" && ko.Base.Y.IsConstInt(0) && ko.Base.Base != nil && ko.Base.Base.Val != nil && stripConv(ko.Base.Base.Val) == win
			c.Check(okKey, fname, p.InstrPos(mu), "key-is-first-tag", "stored under the tag of the window's first field", "the member is stored under "+ko.String()+", not under the tag of the first field of its window")
		})
	}
	if n == 0 {
		c.Violation(name, p.Pos(fn.Pos()), "no-member-store", "the group reader stores no member")
	}
}

// ---- R5 ---------------------------------------------------------------------------------

// groupParser: the callee of the message parser that itself calls the message parser's field extractor in a loop.
func (p *Prog) groupParser() (*ssa.Function, *ssa.Function) {
	parse, _ := p.parseFn()
	// the generic extractor: callee of parse called inside a loop with 2 args returning ([]byte, error) that is not the expected-field extractor
	cnt := map[*ssa.Function]int{}
	for _, cl := range Calls(parse) {
		if cal := cl.Common().StaticCallee(); cal != nil && p.InModule(cal) && inAnyLoop(parse, cl.Block()) && cal.Signature.Results().Len() == 2 && len(cl.Common().Args) == 2 && cal.Signature.Recv() == nil && typeName(cal.Signature.Params().At(0).Type()) == "TagValue" {
			cnt[cal]++
		}
	}
	var extractor *ssa.Function
	for f := range cnt {
		if extractor == nil || f.Pos() < extractor.Pos() {
			extractor = f
		}
	}
	if extractor == nil {
		anchorFail("role \"field extractor\" in the message parser's loop")
	}
	var gp *ssa.Function
	for _, cl := range Calls(parse) {
		cal := cl.Common().StaticCallee()
		if cal == nil || !p.InModule(cal) || cal == extractor {
			continue
		}
		for _, c2 := range Calls(cal) {
			if c2.Common().StaticCallee() == extractor && inAnyLoop(cal, c2.Block()) {
				gp = cal
			}
		}
	}
	if gp == nil {
		anchorFail("role \"group sub-parser\" (callee of the message parser that extracts fields in a loop)")
	}
	return gp, extractor
}

func c13R5(c *Ctx) {
	p := c.P
	gp, extractor := p.groupParser()
	name := FuncName(gp)
	fieldsVar := p.Field(modPath, "Message", "fields")
	isFieldWindow := func(v ssa.Value) bool { // msg.fields[i:i+1]
		sl, ok := stripConv(v).(*ssa.Slice)
		return ok && p.Origin(sl.X).IsField(fieldsVar)
	}
	isAddCall := func(in ssa.Instruction) (ssa.Value, bool) {
		cl, ok := in.(ssa.CallInstruction)
		if !ok {
			return nil, false
		}
		cal := cl.Common().StaticCallee()
		if cal == nil || cal.Signature.Recv() == nil || typeName(cal.Signature.Recv().Type()) != "FieldMap" || len(cl.Common().Args) != 2 {
			return nil, false
		}
		if _, isSl := cl.Common().Args[1].Type().Underlying().(*types.Slice); !isSl {
			return nil, false
		}
		return cl.Common().Args[1], true
	}
	// window values: phis / appends of []TagValue that are not direct field windows
	isWindowAppend := func(in ssa.Instruction) bool {
		v, ok := in.(ssa.Value)
		if !ok {
			return false
		}
		ai := asAppend(v)
		return ai != nil && typeName(sliceElem(v.Type())) == "TagValue"
	}
	mf := &MustFlow{Fn: gp, Entry: Set{"placed": true}}
	mf.Transfer = func(in ssa.Instruction, s Set) {
		if cl, ok := in.(ssa.CallInstruction); ok && cl.Common().StaticCallee() == extractor {
			delete(s, "placed")
			return
		}
		if isWindowAppend(in) {
			s["placed"] = true
			delete(s, "published")
			return
		}
		if arg, ok := isAddCall(in); ok {
			if isFieldWindow(arg) {
				s["placed"] = true
			} else {
				s["published"] = true
			}
			return
		}
	}
	// a direct field window flowing into a phi (dm = msg.fields[i:i+1]) starts a new group window
	mf.Edge = func(from, to *ssa.BasicBlock, s Set) {
		for _, in := range to.Instrs {
			phi, ok := in.(*ssa.Phi)
			if !ok {
				break
			}
			for i, pr := range to.Preds {
				if pr == from && isFieldWindow(phi.Edges[i]) && phi.Edges[i].(*ssa.Slice).Block().Dominates(from) && phi.Edges[i].(*ssa.Slice).Block() != gp.Blocks[0] {
					s["placed"] = true
					delete(s, "published")
				}
			}
		}
	}
	n := 0
	for _, b := range gp.Blocks {
		for _, in := range b.Instrs {
			if cl, ok := in.(ssa.CallInstruction); ok && cl.Common().StaticCallee() == extractor {
				n++
				c.Check(mf.Before(in)["placed"], name, p.InstrPos(in), "placed-before-next-extraction", "the previous field was placed before the next one is extracted",
					"a path reaches this extraction without the previously extracted field having been appended to the group window or filed into a section: that field disappears from the parsed message")
			}
			if r, ok := in.(*ssa.Return); ok {
				n++
				s := mf.Before(r)
				c.Check(s["placed"], name, p.InstrPos(r), "placed-before-exit", "the last extracted field was placed before the exit", "the sub-parser can return without having placed the field it extracted last: the field after the group is lost")
				c.Check(s["published"], name, p.InstrPos(r), "window-published-before-exit", "the group window is handed to the body before the exit", "the sub-parser can return without handing the collected group window to the body: the whole group is missing from the parsed message")
			}
		}
	}
	// a new window replaces the old one only after the old one was published
	for _, b := range gp.Blocks {
		for _, in := range b.Instrs {
			sl, ok := in.(*ssa.Slice)
			if !ok || !isFieldWindow(sl) || b == gp.Blocks[0] {
				continue
			}
			toPhi := false
			for _, ref := range *sl.Referrers() {
				if _, isPhi := ref.(*ssa.Phi); isPhi {
					toPhi = true
				}
			}
			if !toPhi {
				continue
			}
			n++
			c.Check(mf.Before(sl)["published"], name, p.InstrPos(sl), "published-before-new-window", "the current group window is handed to the body before a new one is started", "a new group window is started while the current one was not handed to the body: the first group is lost when a second group follows it directly")
		}
	}
	if n < 3 {
		c.Violation(name, p.Pos(gp.Pos()), "shape", "the group sub-parser has no extraction/exit structure the rule recognises")
	}
}

func sliceElem(t types.Type) types.Type {
	if s, ok := t.Underlying().(*types.Slice); ok {
		return s.Elem()
	}
	return t
}

// ---- R6 ---------------------------------------------------------------------------------

func c13R6(c *Ctx) {
	p := c.P
	gp, _ := p.groupParser()
	// the two dictionary walkers: callees of the group sub-parser taking (msg, []Tag, dict); one returns bool, one a slice
	var pred, defs *ssa.Function
	for _, cl := range Calls(gp) {
		cal := cl.Common().StaticCallee()
		if cal == nil || !p.InModule(cal) || cal.Signature.Params().Len() != 3 || cal.Signature.Results().Len() != 1 {
			continue
		}
		if _, isSl := cal.Signature.Params().At(1).Type().Underlying().(*types.Slice); !isSl {
			continue
		}
		switch cal.Signature.Results().At(0).Type().Underlying().(type) {
		case *types.Basic:
			pred = cal
		case *types.Slice:
			defs = cal
		}
	}
	if pred == nil || defs == nil {
		anchorFail("roles \"group predicate\" / \"group definition lookup\" (callees of the group sub-parser)")
	}
	condsOf := func(fn *ssa.Function, want func(*Org) bool) []string {
		var out []string
		for _, b := range fn.Blocks {
			r, ok := b.Instrs[len(b.Instrs)-1].(*ssa.Return)
			if !ok {
				continue
			}
			ev := r.Results[0]
			if phi, ok := ev.(*ssa.Phi); ok && phi.Block() == b {
				for i, e := range phi.Edges {
					if want(p.Origin(e)) {
						out = append(out, sigOfDNF(dnfAnd(p.ReachCond(b.Preds[i]), edgeCond(p, b.Preds[i], b))))
					}
				}
				continue
			}
			if want(p.Origin(ev)) {
				out = append(out, sigOfDNF(p.ReachCond(b)))
			}
		}
		sort.Strings(out)
		return out
	}
	a := condsOf(pred, func(o *Org) bool { v, ok := o.ConstBoolVal(); return ok && v })
	b := condsOf(defs, func(o *Org) bool { return !o.IsNil() && o.Kind != "zero" })
	c.Check(len(a) > 0 && strings.Join(a, " || ") == strings.Join(b, " || "), FuncName(pred), p.Pos(pred.Pos()), "walkers-agree", "group predicate true ⇔ definition lookup returns members",
		fmt.Sprintf("%s returns true under\n    %s\nbut %s returns a definition list under\n    %s\nthe parser would open a group whose members it cannot tell, or know members of a group it never opens", FuncName(pred), strings.Join(a, " || "), FuncName(defs), strings.Join(b, " || ")))
	c.Check(pred.Signature.Params().At(2).Type().String() == defs.Signature.Params().At(2).Type().String(), FuncName(defs), p.Pos(defs.Pos()), "walkers-same-dictionary-type", "both consult the same kind of dictionary", "the two walkers take different dictionary types")
	// every call pair in the sub-parser passes the same tag path and dictionary to both
	type key struct{ tags, dict string }
	pc, dc := map[key]bool{}, map[key]bool{}
	for _, fn := range []*ssa.Function{gp} {
		for _, cl := range Calls(fn) {
			cal := cl.Common().StaticCallee()
			if cal != pred && cal != defs {
				continue
			}
			k := key{p.Origin(cl.Common().Args[1]).Sig(), p.Origin(cl.Common().Args[2]).Sig()}
			if cal == pred {
				pc[k] = true
			} else {
				dc[k] = true
			}
		}
	}
	for k := range dc {
		_ = k
	}
	dicts := map[string]bool{}
	for k := range pc {
		dicts[k.dict] = true
	}
	for k := range dc {
		dicts[k.dict] = true
	}
	c.Check(len(dicts) == 1, name13(gp), p.Pos(gp.Pos()), "one-dictionary", "all group decisions consult one dictionary", fmt.Sprintf("the group sub-parser consults %d different dictionaries for group decisions", len(dicts)))
}

func name13(fn *ssa.Function) string { return FuncName(fn) }

func sigOfDNF(d DNF) string {
	var cs []string
	for _, cj := range d.Cs {
		var as []string
		for _, a := range cj {
			as = append(as, a.Sig())
		}
		sort.Strings(as)
		cs = append(cs, "{"+strings.Join(as, " && ")+"}")
	}
	for _, ex := range d.Extra {
		cs = append(cs, "&("+sigOfDNF(ex)+")")
	}
	sort.Strings(cs)
	return strings.Join(cs, " | ")
}

// ---- R7 ---------------------------------------------------------------------------------

// C13-R7: in the group sub-parser (a) a field is appended to the group window only under a
// positive membership test of its tag against member definitions, and (b) the tag path and the
// member definitions change in step: wherever the definitions are re-read for a path, the path
// variable takes that same path, and neither changes alone.
func c13R7(c *Ctx) {
	p := c.P
	gp, _ := p.groupParser()
	name := FuncName(gp)
	// the membership predicate and the definition lookup
	var member, defs *ssa.Function
	for _, cl := range Calls(gp) {
		cal := cl.Common().StaticCallee()
		if cal == nil || !p.InModule(cal) || cal.Signature.Results().Len() != 1 {
			continue
		}
		ps := cal.Signature.Params()
		if ps.Len() == 2 && typeName(ps.At(0).Type()) == "Tag" {
			if _, isSl := ps.At(1).Type().Underlying().(*types.Slice); isSl {
				if b, ok := cal.Signature.Results().At(0).Type().Underlying().(*types.Basic); ok && b.Kind() == types.Bool {
					member = cal
				}
			}
		}
		if ps.Len() == 3 {
			if _, isSl := cal.Signature.Results().At(0).Type().Underlying().(*types.Slice); isSl {
				defs = cal
			}
		}
	}
	if member == nil || defs == nil {
		anchorFail("roles \"group membership predicate\" / \"group definition lookup\" in the group sub-parser")
	}
	// (a) appends to the window
	n := 0
	for _, b := range gp.Blocks {
		if !inAnyLoop(gp, b) {
			continue
		}
		for _, in := range b.Instrs {
			v, ok := in.(ssa.Value)
			if !ok {
				continue
			}
			ai := asAppend(v)
			if ai == nil || typeName(sliceElem(v.Type())) != "TagValue" {
				continue
			}
			n++
			d := p.ReachCond(b)
			okM := d.Implies(func(a *Atom) bool {
				return a.Rel == "" && a.Val && a.B.Kind == "call" && a.B.Callee == member
			})
			c.Check(okM, name, p.InstrPos(in), "append-needs-membership", "a field joins the group window only after a positive membership test",
				"a field is appended to the group window under "+d.String()+", which contains no positive membership test of its tag: a body field that merely follows a nested group is swallowed into the group and is no longer found in the body")
		}
	}
	// (b) path and definitions in step at the loop header
	var hdr *ssa.BasicBlock
	var tagsPhi, fieldsPhi *ssa.Phi
	for _, l := range naturalLoops(gp) {
		for _, in := range l.header.Instrs {
			phi, ok := in.(*ssa.Phi)
			if !ok {
				break
			}
			switch typeName(sliceElem(phi.Type())) {
			case "Tag":
				if tagsPhi == nil || len(l.body) > 0 && hdr != l.header && len(phi.Edges) > len(tagsPhi.Edges) {
					tagsPhi, hdr = phi, l.header
				}
			}
		}
	}
	if hdr != nil {
		for _, in := range hdr.Instrs {
			if phi, ok := in.(*ssa.Phi); ok && typeName(sliceElem(phi.Type())) == "FieldDef" {
				fieldsPhi = phi
			}
		}
	}
	if tagsPhi == nil || fieldsPhi == nil {
		c.Violation(name, p.Pos(gp.Pos()), "no-path-state", "the group sub-parser keeps no tag path / member definition pair across its loop")
		return
	}
	visited := map[[2]ssa.Value]bool{}
	var inStep func(fv, tv ssa.Value) bool
	inStep = func(fv, tv ssa.Value) bool {
		fv, tv = stripConv(fv), stripConv(tv)
		k := [2]ssa.Value{fv, tv}
		if visited[k] {
			return true
		}
		visited[k] = true
		if fv == ssa.Value(fieldsPhi) && tv == ssa.Value(tagsPhi) {
			return true
		}
		if cl, ok := fv.(*ssa.Call); ok && cl.Call.StaticCallee() == defs {
			return stripConv(cl.Call.Args[1]) == tv
		}
		fp, ok1 := fv.(*ssa.Phi)
		tp, ok2 := tv.(*ssa.Phi)
		if ok1 && ok2 && fp.Block() == tp.Block() {
			for i := range fp.Edges {
				if !inStep(fp.Edges[i], tp.Edges[i]) {
					return false
				}
			}
			return true
		}
		return false
	}
	for i := range fieldsPhi.Edges {
		n++
		pred := hdr.Preds[i]
		ok := inStep(fieldsPhi.Edges[i], tagsPhi.Edges[i])
		c.Check(ok, name, p.InstrPos(pred.Instrs[len(pred.Instrs)-1]), "path-and-definitions-in-step", "tag path and member definitions change together",
			"on this way round the loop the member definitions become "+p.Origin(fieldsPhi.Edges[i]).String()+" while the tag path becomes "+p.Origin(tagsPhi.Edges[i]).String()+": the definitions are not those of the path, so nested groups are looked up under the wrong parent (members of a nested group are filed as body fields, or a following field is taken for a member)")
	}
	// (c) a member is tested for being a nested group on the path its membership was established
	// for: where the NumInGroup predicate runs under a positive membership test against definitions
	// F, the path it extends by the member's tag is the path F belongs to
	for _, cl := range Calls(gp) {
		cal := cl.Common().StaticCallee()
		if cal == nil || !p.InModule(cal) || cal == member || cal == defs || cal.Signature.Params().Len() != 3 || len(cl.Common().Args) != 3 {
			continue
		}
		if b, ok := cal.Signature.Results().At(0).Type().Underlying().(*types.Basic); !ok || b.Kind() != types.Bool || cal.Signature.Results().Len() != 1 {
			continue
		}
		if !inAnyLoop(gp, cl.Block()) {
			continue
		}
		d := p.ReachCond(cl.Block())
		var mcall *ssa.Call
		for _, a := range allAtoms(d) {
			if a.Rel == "" && a.Val && a.B.Kind == "call" && a.B.Callee == member && d.Implies(func(x *Atom) bool { return x.ID() == a.ID() }) {
				if mc, ok := a.B.CallI.(*ssa.Call); ok {
					mcall = mc
				}
			}
		}
		if mcall == nil {
			continue
		}
		ai := asAppend(cl.Common().Args[1])
		if ai == nil {
			continue
		}
		n++
		visited = map[[2]ssa.Value]bool{}
		ok := inStep(mcall.Call.Args[1], ai.Base)
		c.Check(ok, name, p.InstrPos(cl.(ssa.Instruction)), "nested-test-on-member-path", "a member is tested for being a nested group on the path of the group it is a member of",
			"the member is tested for being a nested group on the path "+p.Origin(ai.Base).String()+", but its membership was established against "+p.Origin(mcall.Call.Args[1]).String()+", the definitions of another path: a nested group that directly follows a sibling nested group is tested under the group that just ended, filed as a plain member, and its entries spill into the body")
	}
}

// readerFamily: the group reader and the unexported methods of the same receiver type it calls
// directly (helpers a refactoring may have extracted from it).
func (p *Prog) readerFamily(fn *ssa.Function) []*ssa.Function {
	out := []*ssa.Function{fn}
	for _, cl := range Calls(fn) {
		cal := cl.Common().StaticCallee()
		if cal == nil || cal == fn || !p.InModule(cal) || cal.Signature.Recv() == nil || fn.Signature.Recv() == nil {
			continue
		}
		// helper methods of the reader's own type, or of the entry type it fills
		if rt := typeName(cal.Signature.Recv().Type()); rt != typeName(fn.Signature.Recv().Type()) && rt != "Group" && rt != "FieldMap" {
			continue
		}
		if cal.Object() == nil || cal.Object().Exported() {
			continue
		}
		has := false
		ForEachInstr(cal, func(in ssa.Instruction) {
			switch x := in.(type) {
			case *ssa.MapUpdate:
				if mt, ok := x.Map.Type().Underlying().(*types.Map); ok && typeName(sliceElem(mt.Elem())) == "TagValue" {
					has = true
				}
			case *ssa.Store:
				if fa, ok := x.Addr.(*ssa.FieldAddr); ok && typeName(fa.X.Type()) == typeName(fn.Signature.Recv().Type()) {
					has = true
				}
			}
		})
		if has {
			out = appendFn(out, cal)
		}
	}
	return out
}

// callIn: the (first) static call of callee inside fn.
func (p *Prog) callIn(fn, callee *ssa.Function) ssa.CallInstruction {
	for _, cl := range Calls(fn) {
		if cl.Common().StaticCallee() == callee {
			return cl
		}
	}
	return nil
}

// allAtoms: every atom occurrence of d (Atoms() merges atoms with the same description, which
// hides the second of two evaluations of one predicate).
func allAtoms(d DNF) []*Atom {
	var out []*Atom
	seen := map[string]bool{}
	for _, e := range d.Extra {
		for _, a := range allAtoms(e) {
			if !seen[a.ID()] {
				seen[a.ID()] = true
				out = append(out, a)
			}
		}
	}
	for _, cj := range d.Cs {
		for _, a := range cj {
			if !seen[a.ID()] {
				seen[a.ID()] = true
				out = append(out, a)
			}
		}
	}
	return out
}
