package main

// Rules added after the third round of independently written changes.

import (
	"fmt"
	"go/token"
	"go/types"
	"strings"

	"golang.org/x/tools/go/ssa"
)

// C10-R8: (a) the checksum/length helpers sum BYTES: a value folded into a byte sum is a uint8
// element of the byte slice (ranging over string(bytes) folds runes and miscounts every byte
// >= 0x80); (b) a setter always re-initialises the entry: the initialiser call dominates every
// return of the function that obtained the entry.
func c10R8(c *Ctx) {
	p := c.P
	n := 0
	for _, fn := range p.FuncsIn(modPath) {
		if fn.Signature.Params().Len() != 1 || fn.Signature.Results().Len() != 1 || fn.Signature.Recv() != nil {
			continue
		}
		if sl, ok := fn.Signature.Params().At(0).Type().Underlying().(*types.Slice); !ok || !types.Identical(sl.Elem(), types.Typ[types.Byte]) {
			continue
		}
		if b, ok := fn.Signature.Results().At(0).Type().Underlying().(*types.Basic); !ok || b.Kind() != types.Int {
			continue
		}
		// accumulations acc + int(x)
		ForEachInstr(fn, func(in ssa.Instruction) {
			b, ok := in.(*ssa.BinOp)
			if !ok || b.Op != token.ADD {
				return
			}
			for _, pr := range [][2]ssa.Value{{b.X, b.Y}, {b.Y, b.X}} {
				if _, isPhi := pr[0].(*ssa.Phi); !isPhi {
					continue
				}
				cv, isConv := pr[1].(*ssa.Convert)
				if !isConv {
					continue
				}
				n++
				bt, isB := cv.X.Type().Underlying().(*types.Basic)
				c.Check(isB && bt.Kind() == types.Uint8, FuncName(fn), p.InstrPos(b), "sum-of-bytes", "the sum folds byte-typed elements", "the value folded into the sum has type "+cv.X.Type().String()+", not byte: the helper no longer sums the bytes of the slice (ranging over a string conversion yields runes), so CheckSum / BodyLength are wrong for every value with a byte >= 0x80")
			}
		})
	}
	// (b) setters
	init := p.Method(modPath, "TagValue", "init")
	var initWrappers []*ssa.Function
	for _, cs := range p.CallsTo(init) {
		if len(cs.Fn.Blocks) == 1 {
			initWrappers = appendFn(initWrappers, cs.Fn)
		}
	}
	fTagLookup := p.Field(modPath, "FieldMap", "tagLookup")
	for _, fn := range p.FuncsIn(modPath) {
		if fn.Signature.Recv() == nil || typeName(fn.Signature.Recv().Type()) != "FieldMap" {
			continue
		}
		// obtains an entry from a get-or-create helper (a callee that inserts into tagLookup and returns a field)
		var got ssa.CallInstruction
		for _, cl := range Calls(fn) {
			cal := cl.Common().StaticCallee()
			if cal == nil || !p.InModule(cal) || cal.Signature.Results().Len() != 1 || typeName(cal.Signature.Results().At(0).Type()) != "field" {
				continue
			}
			ins := false
			ForEachInstr(cal, func(in ssa.Instruction) {
				if mu, ok := in.(*ssa.MapUpdate); ok && isFieldOrg(p.Origin(mu.Map), fTagLookup) {
					ins = true
				}
			})
			if ins {
				got = cl
			}
		}
		if got == nil {
			continue
		}
		var inits []ssa.CallInstruction
		for _, cl := range Calls(fn) {
			cal := cl.Common().StaticCallee()
			if cal == init || containsFn(initWrappers, cal) {
				inits = append(inits, cl)
			}
		}
		n++
		ok := len(inits) > 0
		for _, b := range fn.Blocks {
			if _, isRet := b.Instrs[len(b.Instrs)-1].(*ssa.Return); !isRet || b == fn.Recover {
				continue
			}
			dom := false
			for _, ic := range inits {
				if ic.Block().Dominates(b) {
					dom = true
				}
			}
			if !dom {
				ok = false
			}
		}
		c.Check(ok, FuncName(fn), p.InstrPos(got.(ssa.Instruction)), "setter-always-initialises", "every return of the setter comes after the entry was (re-)initialised", "the setter can return without re-initialising the entry it obtained: the rendered bytes keep the previous value (a comparison with the stored value is unreliable — the stored value may alias the caller's buffer), so the message is written with a stale value")
	}
	if n < 2 {
		c.Violation("", "-", "no-sum-or-setter", "byte-sum helper / setters not found")
	}
}

// C11-R9: parsed views are capacity-clipped. The value and the raw bytes of a parsed field are
// windows into the message buffer; every slice of the raw parameter that is stored into a field of
// the parsed TagValue is a three-index slice whose capacity ends where its length ends, so an
// append by a caller reallocates instead of overwriting the following wire bytes.
func c11R9(c *Ctx) {
	p := c.P
	fn := p.Method(modPath, "TagValue", "parse")
	n := 0
	ForEachInstr(fn, func(in ssa.Instruction) {
		st, ok := in.(*ssa.Store)
		if !ok {
			return
		}
		if _, isFA := st.Addr.(*ssa.FieldAddr); !isFA {
			return
		}
		sl, ok := stripConv(st.Val).(*ssa.Slice)
		if !ok {
			return
		}
		if _, isPar := sl.X.(*ssa.Parameter); !isPar {
			return
		}
		n++
		okMax := sl.Max != nil && sl.High != nil && (sl.Max == sl.High || p.Origin(sl.Max).String() == p.Origin(sl.High).String())
		c.Check(okMax, FuncName(fn), p.InstrPos(sl), "view-capacity-clipped", "window stored with cap == len", "a window into the raw message is stored without clipping its capacity ("+p.Origin(sl).String()+"): appending to a value obtained from the parsed message overwrites the delimiter and the following fields in the message's own buffer")
	})
	if n < 2 {
		c.Violation(FuncName(fn), p.Pos(fn.Pos()), "no-views", "the field parser stores no windows of its input")
	}
}

// C12-R7: a parser keeps the reader it was built with. The only store to the parser's reader field
// is the one in its constructor: re-pointing a used parser at a new connection carries the
// unconsumed bytes of the old stream into the new one.
func c12R7(c *Ctx) {
	p := c.P
	pi := getParser(p)
	n := 0
	for _, st := range p.FieldStores(pi.fReader) {
		n++
		fa := fieldAddrOf(st.Store.Addr, pi.fReader)
		_, fresh := fa.X.(*ssa.Alloc)
		c.Check(fresh, FuncName(st.Fn), p.InstrPos(st.Store), "reader-fixed-at-construction", "the reader is set on a parser allocated in this function", "the reader of an existing parser is replaced: whatever the parser had buffered from the previous stream (the tail of an incomplete frame) is prepended to the new stream, so the frames of the new connection depend on how the old one ended")
	}
	if n == 0 {
		c.Violation("", "-", "no-reader-store", "nothing sets the parser's reader")
	}
}

// C13-R9: cloning a group item yields an EMPTY group of the same shape. The reader clones the
// template item for every entry it reads; a clone that carries the entries of the original starts
// non-empty and fails the count check.
func c13R9(c *Ctx) {
	p := c.P
	rg := getRG(p)
	fn := p.MethodOf(rg.T, "Clone")
	if fn == nil {
		c.Violation("", "-", "no-clone", "RepeatingGroup has no Clone")
		return
	}
	n := 0
	for _, b := range fn.Blocks {
		r, ok := b.Instrs[len(b.Instrs)-1].(*ssa.Return)
		if !ok {
			continue
		}
		n++
		v := stripConv(r.Results[0])
		al, isAl := v.(*ssa.Alloc)
		if !isAl {
			c.Violation(FuncName(fn), p.InstrPos(r), "clone-not-fresh", "Clone does not return a freshly allocated group")
			continue
		}
		carries := false
		for _, ref := range *al.Referrers() {
			switch x := ref.(type) {
			case *ssa.Store:
				if x.Addr == ssa.Value(al) {
					carries = true // whole-struct copy of the receiver
				}
			case *ssa.FieldAddr:
				if derefStruct(x.X.Type()).Field(x.Field) == rg.fGroups {
					for _, r2 := range *x.Referrers() {
						if st, ok := r2.(*ssa.Store); ok && !p.Origin(st.Val).IsNil() {
							carries = true
						}
					}
				}
			}
		}
		c.Check(!carries, FuncName(fn), p.InstrPos(r), "clone-is-empty", "the clone has tag and template only", "the clone carries the entries of the group it was cloned from: a template item that already holds entries makes every nested read start non-empty and fail the NumInGroup count check")
	}
	if n == 0 {
		c.Violation(FuncName(fn), p.Pos(fn.Pos()), "no-return", "Clone has no return")
	}
}

// C14-R3 (strengthened): the guard that protects acc*10+digit accounts for the digit.
func accumulationGuardMentionsDigit(p *Prog, d DNF, acc *ssa.Phi, digit ssa.Value) bool {
	return d.Implies(func(a *Atom) bool {
		if a.Rel != "<" && a.Rel != "<=" {
			return false
		}
		hasAcc, hasDigit := false, false
		for _, side := range []*Org{a.L, a.R} {
			so := stripOrgConv(side)
			if so != nil && so.Val != nil && stripConv(so.Val) == ssa.Value(acc) {
				hasAcc = true
				continue
			}
			if side != nil && side.Mentions(func(x *Org) bool { return x.Val != nil && digit != nil && stripConv(x.Val) == stripConv(digit) }) {
				hasDigit = true
			}
		}
		return hasAcc && hasDigit
	})
}

// C15-R8: (a) the user-defined tag range starts at 5000: a tag is compared with the boundary
// constant only as tag < 5000 / tag >= 5000; (b) a missing-field reject names a tag taken from the
// definition, never from a field of the message (the missing field is not in the message).
func c15R8(c *Ctx) {
	p := c.P
	n := 0
	for _, fn := range p.FuncsIn(modPath) {
		if fn.Pkg == nil || fn.Pkg.Pkg.Path() != modPath {
			continue
		}
		ForEachInstr(fn, func(in ssa.Instruction) {
			b, ok := in.(*ssa.BinOp)
			if !ok {
				return
			}
			switch b.Op {
			case token.LSS, token.LEQ, token.GTR, token.GEQ:
			default:
				return
			}
			kx, isX := constIntOf(b.X)
			ky, isY := constIntOf(b.Y)
			var other ssa.Value
			var cLeft bool
			switch {
			case isY && ky == 5000:
				other = b.X
			case isX && kx == 5000:
				other, cLeft = b.Y, true
			default:
				return
			}
			if typeName(stripConv(other).Type()) != "Tag" {
				return
			}
			n++
			// normalise to "tag OP 5000"
			op := b.Op
			if cLeft {
				op = map[token.Token]token.Token{token.LSS: token.GTR, token.LEQ: token.GEQ, token.GTR: token.LSS, token.GEQ: token.LEQ}[op]
			}
			c.Check(op == token.LSS || op == token.GEQ, FuncName(fn), p.InstrPos(b), "user-defined-boundary", "tag compared as < 5000 / >= 5000", "a tag is compared with the user-defined boundary as tag "+op.String()+" 5000: tag 5000 itself, the first user-defined tag, is classified as a standard tag, so the wrong validator setting decides about it")
		})
	}
	// (b)
	for _, fn := range p.FuncsIn(modPath) {
		for _, cl := range Calls(fn) {
			cal := cl.Common().StaticCallee()
			if cal == nil || !p.isRejectCtor(cal) || len(cl.Common().Args) == 0 {
				continue
			}
			// the constructor's reason constant is 1 (required tag missing)
			isMissing := false
			for _, c2 := range Calls(cal) {
				if c3 := c2.Common().StaticCallee(); c3 != nil && strings.HasPrefix(fnName(c3), "NewMessageRejectError") {
					if k, ok := p.Origin(c2.Common().Args[1]).ConstIntVal(); ok && k == 1 {
						isMissing = true
					}
				}
			}
			if !isMissing {
				continue
			}
			n++
			ao := p.Origin(cl.Common().Args[0])
			fromMsg := ao.Mentions(func(x *Org) bool { return x.Kind == "field" && cn(x.Field) == "tag" && x.Base != nil })
			c.Check(!fromMsg, FuncName(fn), p.InstrPos(cl.(ssa.Instruction)), "missing-tag-from-definition", "the missing tag is taken from the definition", "the required-tag-missing reject names "+ao.String()+", the tag of a field that IS in the message: the tag that is missing can only come from the definition (required set / group member definition), so the reference tag does not identify the defect")
		}
	}
	if n < 3 {
		c.Violation("", "-", "few-sites", fmt.Sprintf("only %d boundary comparisons / missing-field rejects found", n))
	}
}

// C16-R11: each optional part of the file-name prefix is guarded by its own emptiness test: a
// SessionID field is appended to the name only under a test of that same field.
func c16R11(c *Ctx) {
	p := c.P
	n := 0
	idFields := map[*types.Var]bool{}
	if st, ok := p.Named(modPath, "SessionID").Underlying().(*types.Struct); ok {
		for i := 0; i < st.NumFields(); i++ {
			idFields[st.Field(i)] = true
		}
	}
	for _, s := range getStores(p) {
		if s.Kind != "file" {
			continue
		}
		// the prefix builder and the string helpers it calls
		var fns []*ssa.Function
		for _, fn := range p.FuncsIn(s.T.Obj().Pkg().Path()) {
			if fn.Signature.Params().Len() == 1 && typeName(fn.Signature.Params().At(0).Type()) == "SessionID" {
				fns = appendFn(fns, fn)
				for _, cl := range Calls(fn) {
					if cal := cl.Common().StaticCallee(); cal != nil && p.InModule(cal) && fnPkg(cal) == fnPkg(fn) {
						fns = appendFn(fns, cal)
					}
				}
			}
		}
		for _, fn := range fns {
			ForEachInstr(fn, func(in ssa.Instruction) {
				v, ok := in.(ssa.Value)
				if !ok {
					return
				}
				ai := asAppend(v)
				if ai == nil {
					return
				}
				d := p.ReachCond(in.Block())
				if len(d.Atoms()) == 0 {
					return
				}
				for _, e := range ai.Elems {
					eo := p.Origin(e)
					if eo.Kind != "field" && eo.Kind != "param" {
						continue
					}
					n++
					same := func(x *Org) bool {
						if eo.Kind == "field" {
							return x.Kind == "field" && x.Field == eo.Field
						}
						return x.Kind == "param" && x.Fn == eo.Fn && x.Param == eo.Param
					}
					ok := d.Implies(func(a *Atom) bool {
						for _, side := range []*Org{a.L, a.R} {
							if side != nil && side.Mentions(same) {
								return true
							}
						}
						return false
					})
					what := eo.String()
					if eo.Kind == "field" {
						what = cn(eo.Field)
					}
					c.Check(ok, FuncName(fn), p.InstrPos(in), "prefix-part-own-guard:"+what, what+" appended under a test of "+what, "the name part "+what+" is added to the file-name prefix under "+d.String()+", which does not test that very value: sessions that differ only in it can end up sharing all backing files")
					// … and under no test of another identity field: a part that is only included when a
					// different part is present is dropped for sessions without that other part
					if ok && eo.Kind == "field" {
						var other *types.Var
						for _, a := range d.Atoms() {
							for _, side := range []*Org{a.L, a.R, a.B} {
								if side == nil {
									continue
								}
								side.Mentions(func(x *Org) bool {
									if x.Kind == "field" && x.Field != eo.Field && idFields[x.Field] {
										other = x.Field
									}
									return false
								})
							}
						}
						if other != nil {
							c.Violation(FuncName(fn), p.InstrPos(in), "prefix-part-foreign-guard:"+what, "the name part "+what+" is added to the file-name prefix only under a test of "+cn(other)+" as well: two sessions that differ only in "+what+" and have no "+cn(other)+" get the same prefix and share all backing files")
						}
					}
				}
			})
		}
	}
	if n < 3 {
		c.Violation("", "-", "no-prefix-parts", "the file store's name prefix has no optional parts")
	}
}

// C17-R7: the session persists an outgoing message only through the store's save-and-increment
// (atomic in the transactional stores): it never calls SaveMessage and an increment separately.
func c17R7(c *Ctx) {
	p := c.P
	r := getRoles(p)
	n := 0
	for _, fn := range p.FuncsIn(modPath) {
		for _, cl := range r.storeCalls(fn, "SaveMessage") {
			n++
			c.Violation(FuncName(fn), p.InstrPos(cl), "separate-save", "the session saves a message with SaveMessage (and advances the counter separately) instead of SaveMessageAndIncrNextSenderMsgSeqNum: in a transactional store a failure between the two leaves the message without the increment, and the next send collides with it")
		}
		for _, cl := range r.storeCalls(fn, "SaveMessageAndIncrNextSenderMsgSeqNum") {
			n++
			c.OK(FuncName(fn), p.InstrPos(cl), "atomic save-and-increment")
		}
	}
	if n == 0 {
		c.Violation("", "-", "no-persist", "the session never persists an outgoing message")
	}
}

// C18-R6: the time-of-day comparison that decides "window inside one cycle or wrapping" has one
// polarity everywhere: start < end (strict) — equal times mean a full cycle in the daily and in
// the weekly code alike. A comparison written the other way round (end < start) treats equal times
// differently.
func c18R6(c *Ctx) {
	p := c.P
	n := 0
	for _, fn := range p.FuncsIn(modPath + "/internal") {
		rcv := fn.Signature.Recv()
		if rcv == nil || typeName(rcv.Type()) != "TimeRange" {
			continue
		}
		ForEachInstr(fn, func(in ssa.Instruction) {
			b, ok := in.(*ssa.BinOp)
			if !ok {
				return
			}
			switch b.Op {
			case token.LSS, token.LEQ, token.GTR, token.GEQ:
			default:
				return
			}
			l, r := p.Origin(b.X), p.Origin(b.Y)
			isF := func(o *Org, name string) bool {
				root, path := o.FieldPath()
				return root != nil && root.Kind == "param" && root.Param == 0 && len(path) >= 1 && path[0] == name
			}
			var op token.Token
			switch {
			case isF(l, "startTime") && isF(r, "endTime"):
				op = b.Op
			case isF(l, "endTime") && isF(r, "startTime"):
				op = map[token.Token]token.Token{token.LSS: token.GTR, token.LEQ: token.GEQ, token.GTR: token.LSS, token.GEQ: token.LEQ}[b.Op]
			default:
				return
			}
			n++
			// start OP end: allowed start < end and its complement start >= end
			c.Check(op == token.LSS || op == token.GEQ, FuncName(fn), p.InstrPos(b), "start-end-polarity", "start < end (or its complement)", "the window's start and end times are compared as start "+op.String()+" end: equal start and end times are classified differently here than in the other branches of the schedule (where start < end decides), so a full-cycle window is reported closed")
		})
	}
	if n < 2 {
		c.Violation("", "-", "no-start-end-comparisons", "the schedule code does not compare start and end times")
	}
}

// C20-R7: a keep-alive message that could not be sent ends the session. The one-shot timers are
// re-armed only by a successful send; in the Timeout handlers every path on which a send returned
// an error leaves through the send-failure exit (never falls through to "stay in this state").
func c20R7(c *Ctx) {
	p := c.P
	n := 0
	for _, fn := range p.FuncsIn(modPath) {
		if fnName(fn) != "Timeout" || fn.Signature.Recv() == nil || fn.Signature.Results().Len() != 1 {
			continue
		}
		for _, cl := range Calls(fn) {
			cal := cl.Common().StaticCallee()
			if cal == nil || !p.InModule(cal) || cal.Signature.Results().Len() != 1 || !isErrorType(cal.Signature.Results().At(0).Type()) {
				continue
			}
			if !p.reachesAny(cal, func(f *ssa.Function) bool { return containsFn(getRoles(p).prep, f) }) {
				continue
			}
			n++
			okAll := true
			// the branch taken when the send failed
			v, _ := cl.(ssa.Value)
			var errBlocks []*ssa.BasicBlock
			for _, b := range fn.Blocks {
				iff, ok := b.Instrs[len(b.Instrs)-1].(*ssa.If)
				if !ok {
					continue
				}
				bo, ok := iff.Cond.(*ssa.BinOp)
				if !ok || !p.Origin(bo.Y).IsNil() {
					continue
				}
				eo := p.Origin(bo.X)
				if eo.Kind != "call" || v == nil || eo.CallI != cl.(ssa.Instruction) {
					continue
				}
				if bo.Op == token.NEQ {
					errBlocks = append(errBlocks, b.Succs[0])
				} else if bo.Op == token.EQL {
					errBlocks = append(errBlocks, b.Succs[1])
				}
			}
			if len(errBlocks) == 0 {
				okAll = false
				c.Violation(FuncName(fn), p.InstrPos(cl.(ssa.Instruction)), "send-error-untested", "the error of "+FuncName(cal)+" is not tested in the Timeout handler")
			}
			for _, t := range errBlocks {
				seen := map[*ssa.BasicBlock]bool{}
				var walk func(b *ssa.BasicBlock, from *ssa.BasicBlock)
				walk = func(b *ssa.BasicBlock, from *ssa.BasicBlock) {
					if seen[b] {
						return
					}
					seen[b] = true
					if r, ok := b.Instrs[len(b.Instrs)-1].(*ssa.Return); ok {
						val := r.Results[0]
						if phi, isPhi := val.(*ssa.Phi); isPhi && phi.Block() == b && from != nil {
							for i, pr := range b.Preds {
								if pr == from {
									val = phi.Edges[i]
								}
							}
						}
						o := p.Origin(val)
						if !(o.Kind == "call" && p.isStateErrorExit(o.Callee)) {
							okAll = false
							c.Violation(FuncName(fn), p.InstrPos(r), "send-failure-keeps-state", "on the path where "+FuncName(cal)+" failed, the handler returns "+o.String()+" instead of leaving through the send-failure exit: the timer that would trigger the next keep-alive is re-armed only by a successful send, so the session stays logged on and never sends another Heartbeat / TestRequest")
						}
						return
					}
					for _, s2 := range b.Succs {
						walk(s2, b)
					}
				}
				walk(t, nil)
			}
			if okAll {
				c.OK(FuncName(fn), p.InstrPos(cl.(ssa.Instruction)), "a failed keep-alive send leaves through the send-failure exit")
			}
		}
	}
	if n == 0 {
		c.Violation("", "-", "no-timeout-sends", "no Timeout handler sends a message")
	}
}
