package main

import (
	"encoding/json"
	"flag"
	"fmt"
	"os"
	"path/filepath"
	"sort"
	"strconv"
	"strings"
	"time"

	"golang.org/x/tools/go/ssa"
)

var registry = map[string]func() Property{}

func register(id string, f func() Property) { registry[id] = f }

func verifDir() string {
	if d := os.Getenv("QFSA_VERIF"); d != "" {
		return d
	}
	exe, err := os.Executable()
	if err == nil {
		d := filepath.Dir(filepath.Dir(exe))
		if _, err := os.Stat(filepath.Join(d, "properties.jsonl")); err == nil {
			return d
		}
	}
	wd, _ := os.Getwd()
	return wd
}

func repoDir() string {
	if d := os.Getenv("QFSA_REPO"); d != "" {
		return d
	}
	return "/repo"
}

func main() {
	if len(os.Args) < 2 {
		usage()
	}
	switch os.Args[1] {
	case "check":
		os.Exit(cmdCheck(os.Args[2:]))
	case "checkall":
		os.Exit(cmdCheckAll(os.Args[2:]))
	case "explain":
		os.Exit(cmdExplain(os.Args[2:]))
	case "dump":
		os.Exit(cmdDump(os.Args[2:]))
	case "selftest":
		os.Exit(cmdSelftest(os.Args[2:]))
	case "anchors":
		os.Exit(cmdAnchors(os.Args[2:]))
	case "list":
		ids := []string{}
		for k := range registry {
			ids = append(ids, k)
		}
		sort.Strings(ids)
		fmt.Println(strings.Join(ids, " "))
	default:
		usage()
	}
}

func usage() {
	fmt.Fprintln(os.Stderr, "usage: qfsa check <Cnn> [--tier quick|thorough] | explain <replay.json> | dump <func-substring> | selftest | list")
	os.Exit(2)
}

func cmdCheck(args []string) int {
	fs := flag.NewFlagSet("check", flag.ExitOnError)
	tier := fs.String("tier", "", "quick|thorough")
	noEvidence := fs.Bool("no-evidence", false, "do not write evidence (used by mutant runs)")
	var id string
	if len(args) > 0 && !strings.HasPrefix(args[0], "-") {
		id = args[0]
		args = args[1:]
	}
	fs.Parse(args)
	if id == "" && fs.NArg() > 0 {
		id = fs.Arg(0)
	}
	if *tier == "" {
		*tier = os.Getenv("VERIF_TIER")
	}
	if *tier != "thorough" {
		*tier = "quick"
	}
	seed, _ := strconv.Atoi(os.Getenv("VERIF_SEED"))
	mk, ok := registry[id]
	if !ok {
		fmt.Fprintf(os.Stderr, "unknown property %q\n", id)
		return 2
	}
	t0 := time.Now()
	prop := mk()
	p, err := Load(repoDir())
	if err != nil {
		// loading failed: undecided, never a vacuous pass
		fmt.Printf("UNDECIDED load: %v\n", err)
		c := &Ctx{P: &Prog{}, Prop: id, Tier: *tier}
		c.rule = &RuleResult{ID: id + "-load"}
		c.Rules = append(c.Rules, c.rule)
		c.Undecided("", "-", "load", err.Error())
		if !*noEvidence {
			_, lines := writeEvidence(verifDir(), prop, c, *tier, seed, time.Since(t0).Seconds(), nil)
			for _, l := range lines {
				fmt.Println(l)
			}
		} else {
			fmt.Printf("VIOLATION property=%s replay=-\n", id)
		}
		return 1
	}
	c := &Ctx{P: p, Prop: id, Tier: *tier}
	for _, r := range prop.Rules {
		c.RunRule(r)
	}
	extra := map[string]any{}
	if *tier == "thorough" {
		thoroughExtras(c, prop, extra)
	}
	wall := time.Since(t0).Seconds()
	var n int
	var lines []string
	if *noEvidence {
		known := loadKnown(verifDir())
		knownPrinted := map[string]bool{}
		for _, f := range c.Findings {
			isKnown := false
			for _, k := range known {
				if k.Property == id && k.Status == "known" && k.Key == f.Key {
					isKnown = true
				}
			}
			if isKnown {
				if !knownPrinted[f.Key] {
					knownPrinted[f.Key] = true
					lines = append(lines, fmt.Sprintf("KNOWN-FINDING: property=%s %s (%s at %s)", id, k0(known, id, f.Key), f.Key, f.Pos))
				}
				continue
			}
			n++
			lines = append(lines, fmt.Sprintf("%s rule=%s at %s in %s: %s", strings.ToUpper(f.Kind), f.Rule, f.Pos, f.Func, firstLine(f.Msg)))
			lines = append(lines, fmt.Sprintf("VIOLATION property=%s replay=-", id))
		}
	} else {
		n, lines = writeEvidence(verifDir(), prop, c, *tier, seed, wall, extra)
	}
	for _, r := range c.Rules {
		fmt.Printf("%-8s instances=%-4d discharged=%-4d undecided=%d violated=%d  %s\n", r.ID, r.Instances, r.Discharged, r.Undecided, r.Violated, r.Desc)
	}
	for _, l := range lines {
		fmt.Println(l)
	}
	fmt.Printf("%s %s: %d rule(s), %d finding(s) not listed as known, %.1fs (load %.1fs, ssa %.1fs, graphs %.1fs)\n",
		id, *tier, len(c.Rules), n, wall, p.LoadS, p.SSAS, p.GraphS)
	if n > 0 {
		return 1
	}
	return 0
}

func cmdExplain(args []string) int {
	if len(args) < 1 {
		usage()
	}
	b, err := os.ReadFile(args[0])
	if err != nil {
		fmt.Fprintln(os.Stderr, err)
		return 2
	}
	var r struct {
		Property string  `json:"property"`
		Finding  Finding `json:"finding"`
	}
	if err := json.Unmarshal(b, &r); err != nil {
		fmt.Fprintln(os.Stderr, err)
		return 2
	}
	mk, ok := registry[r.Property]
	if !ok {
		return 2
	}
	prop := mk()
	p, err := Load(repoDir())
	if err != nil {
		fmt.Println("UNDECIDED load:", err)
		return 1
	}
	c := &Ctx{P: p, Prop: r.Property, Tier: "quick"}
	for _, rd := range prop.Rules {
		if rd.ID == r.Finding.Rule {
			c.RunRule(rd)
		}
	}
	hit := 0
	for _, f := range c.Findings {
		if f.Key == r.Finding.Key {
			hit++
			fmt.Printf("%s rule=%s key=%s\n  at %s in %s\n  %s\n", strings.ToUpper(f.Kind), f.Rule, f.Key, f.Pos, f.Func, f.Msg)
		}
	}
	if hit == 0 {
		fmt.Printf("finding %s no longer reproduces on the current tree\n", r.Finding.Key)
		return 0
	}
	fmt.Printf("VIOLATION property=%s replay=%s\n", r.Property, args[0])
	return 1
}

// cmdDump prints SSA with origins and guards for functions whose name contains the argument.
func cmdDump(args []string) int {
	if len(args) < 1 {
		usage()
	}
	p, err := Load(repoDir())
	if err != nil {
		fmt.Println(err)
		return 1
	}
	for _, fn := range p.Funcs {
		if !strings.Contains(fn.String(), args[0]) {
			continue
		}
		fmt.Printf("=== %s (%s)\n", fn.String(), p.Pos(fn.Pos()))
		for _, b := range fn.Blocks {
			fmt.Printf(" block %d  %s   reach: %s\n", b.Index, b.Comment, p.ReachCond(b))
			for _, in := range b.Instrs {
				s := in.String()
				if v, ok := in.(ssa.Value); ok {
					s = v.Name() + " = " + s
					if len(args) > 1 {
						s += "      ⟵ " + p.Origin(v).String()
					}
				}
				fmt.Printf("    %s\n", s)
			}
		}
	}
	return 0
}

func k0(known []KnownEntry, id, key string) string {
	for _, k := range known {
		if k.Property == id && k.Status == "known" && k.Key == key {
			return k.What
		}
	}
	return ""
}

// cmdCheckAll runs every registered property's rules on one load of the repository and prints, per
// property, the same finding lines as `check --no-evidence` between "=== Cnn exit=N" markers. It is
// what the measurement scripts (seedcheck.py, refcheck.py) use: twenty separate loads dominate
// their run time. It writes no evidence and is not registered in MANIFEST.json.
func cmdCheckAll(args []string) int {
	p, err := Load(repoDir())
	if err != nil {
		fmt.Printf("UNDECIDED load: %v\n", err)
		return 1
	}
	ids := []string{}
	for k := range registry {
		ids = append(ids, k)
	}
	sort.Strings(ids)
	known := loadKnown(verifDir())
	worst := 0
	for _, id := range ids {
		prop := registry[id]()
		var lines []string
		n := 0
		func() {
			defer func() {
				if r := recover(); r != nil {
					n++
					lines = append(lines, fmt.Sprintf("UNDECIDED rule=%s-panic at - in : %v", id, r))
				}
			}()
			c := &Ctx{P: p, Prop: id, Tier: "quick"}
			for _, r := range prop.Rules {
				c.RunRule(r)
			}
			printed := map[string]bool{}
			for _, f := range c.Findings {
				isKnown := false
				for _, k := range known {
					if k.Property == id && k.Status == "known" && k.Key == f.Key {
						isKnown = true
					}
				}
				if isKnown {
					if !printed[f.Key] {
						printed[f.Key] = true
						lines = append(lines, fmt.Sprintf("KNOWN-FINDING: property=%s %s", id, k0(known, id, f.Key)))
					}
					continue
				}
				n++
				lines = append(lines, fmt.Sprintf("%s rule=%s at %s in %s: %s", strings.ToUpper(f.Kind), f.Rule, f.Pos, f.Func, firstLine(f.Msg)))
			}
		}()
		ex := 0
		if n > 0 {
			ex, worst = 1, 1
		}
		fmt.Printf("=== %s exit=%d\n", id, ex)
		for _, l := range lines {
			fmt.Println(l)
		}
	}
	return worst
}
