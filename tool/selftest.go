package main

// Checker-health machinery: the mutant corpus. Each mutant is a search/replace edit applied
// to a scratch copy of the CURRENT /repo tree; the property's check is run on the copy in
// a separate process. A surviving mutant is a checker-health warning, not a property
// violation (the tree is not the mutant).

import (
	"encoding/json"
	"fmt"
	"io/fs"
	"os"
	"os/exec"
	"path/filepath"
	"sort"
	"strings"
	"sync"
)

type Mutant struct {
	ID       string `json:"id"`
	File     string `json:"file"`
	Find     string `json:"find"`
	Replace  string `json:"replace"`
	Append   string `json:"append,omitempty"` // text appended to the file (new helper functions)
	Find2    string `json:"find2,omitempty"`  // optional second edit in the same file
	Replace2 string `json:"replace2,omitempty"`
	Rule     string `json:"rule,omitempty"`   // rule expected to fire
	Benign   bool   `json:"benign,omitempty"` // behaviour-preserving edit: the check must stay silent
	Note     string `json:"note,omitempty"`
}

type MutantResult struct {
	ID      string `json:"id"`
	Applied bool   `json:"applied"`
	Builds  bool   `json:"builds"`
	Killed  bool   `json:"killed"`
	Benign  bool   `json:"benign,omitempty"`
	OK      bool   `json:"ok"` // killed for breaking mutants, silent for benign ones
	Report  string `json:"report,omitempty"`
}

func loadMutants(prop string) []Mutant {
	b, err := os.ReadFile(filepath.Join(verifDir(), "mutants", prop+".json"))
	if err != nil {
		return nil
	}
	var ms []Mutant
	if err := json.Unmarshal(b, &ms); err != nil {
		fmt.Fprintf(os.Stderr, "mutants/%s.json: %v\n", prop, err)
		return nil
	}
	return ms
}

func copyTree(src, dst string) error {
	return filepath.WalkDir(src, func(path string, d fs.DirEntry, err error) error {
		if err != nil {
			return err
		}
		rel, _ := filepath.Rel(src, path)
		if d.IsDir() {
			if d.Name() == ".git" {
				return filepath.SkipDir
			}
			return os.MkdirAll(filepath.Join(dst, rel), 0o755)
		}
		if !d.Type().IsRegular() {
			return nil
		}
		b, err := os.ReadFile(path)
		if err != nil {
			return err
		}
		return os.WriteFile(filepath.Join(dst, rel), b, 0o644)
	})
}

func runMutant(prop string, m Mutant, checkBuild bool) MutantResult {
	res := MutantResult{ID: m.ID, Benign: m.Benign}
	tmp, err := os.MkdirTemp("", "qfsa-mut-")
	if err != nil {
		res.Report = err.Error()
		return res
	}
	defer os.RemoveAll(tmp)
	if err := copyTree(repoDir(), tmp); err != nil {
		res.Report = err.Error()
		return res
	}
	fp := filepath.Join(tmp, m.File)
	b, err := os.ReadFile(fp)
	if err != nil {
		res.Report = err.Error()
		return res
	}
	s := string(b)
	if n := strings.Count(s, m.Find); n != 1 {
		res.Report = fmt.Sprintf("anchor snippet occurs %d times (need exactly 1): skipped", n)
		return res
	}
	s = strings.Replace(s, m.Find, m.Replace, 1) + m.Append
	if m.Find2 != "" {
		if n := strings.Count(s, m.Find2); n != 1 {
			res.Report = fmt.Sprintf("second anchor snippet occurs %d times (need exactly 1): skipped", n)
			return res
		}
		s = strings.Replace(s, m.Find2, m.Replace2, 1)
	}
	if err := os.WriteFile(fp, []byte(s), 0o644); err != nil {
		res.Report = err.Error()
		return res
	}
	res.Applied = true
	exe, _ := os.Executable()
	cmd := exec.Command(exe, "check", prop, "--no-evidence")
	cmd.Env = append(os.Environ(), "QFSA_REPO="+tmp, "QFSA_VERIF="+verifDir(), "VERIF_TIER=quick")
	out, err := cmd.CombinedOutput()
	txt := string(out)
	res.Builds = !strings.Contains(txt, "UNDECIDED load")
	res.Killed = err != nil && strings.Contains(txt, "VIOLATION property="+prop)
	var rep []string
	for _, l := range strings.Split(txt, "\n") {
		if strings.HasPrefix(l, "VIOLATED") || strings.HasPrefix(l, "UNDECIDED") {
			rep = append(rep, l)
		}
	}
	if len(rep) > 3 {
		rep = append(rep[:3], fmt.Sprintf("… %d more", len(rep)-3))
	}
	res.Report = strings.Join(rep, " | ")
	if m.Benign {
		res.OK = res.Builds && !res.Killed
	} else {
		res.OK = res.Builds && res.Killed
		if m.Rule != "" && res.Killed && !strings.Contains(txt, "rule="+m.Rule) {
			res.Report = "killed, but not by expected rule " + m.Rule + ": " + res.Report
		}
	}
	return res
}

func runMutants(prop string, par int) []MutantResult {
	ms := loadMutants(prop)
	res := make([]MutantResult, len(ms))
	sem := make(chan struct{}, par)
	var wg sync.WaitGroup
	for i, m := range ms {
		wg.Add(1)
		go func(i int, m Mutant) {
			defer wg.Done()
			sem <- struct{}{}
			defer func() { <-sem }()
			res[i] = runMutant(prop, m, false)
		}(i, m)
	}
	wg.Wait()
	return res
}

func runThorough(c *Ctx, prop Property, extra map[string]any) {
	res := runMutants(prop.ID, 8)
	killed, benignOK, nb, nk := 0, 0, 0, 0
	for _, r := range res {
		if r.Benign {
			nb++
			if r.OK {
				benignOK++
			}
		} else {
			nk++
			if r.OK {
				killed++
			}
		}
	}
	extra["mutants"] = res
	extra["mutants_summary"] = fmt.Sprintf("%d/%d breaking edits detected, %d/%d behaviour-preserving edits left silent (checker health, not a verdict on /repo)", killed, nk, benignOK, nb)
}

// selftest: run the mutant corpus of the given properties (or all) and print a table.
func cmdSelftest(args []string) int {
	ids := args
	if len(ids) == 0 {
		for k := range registry {
			ids = append(ids, k)
		}
	}
	sort.Strings(ids)
	bad := 0
	for _, id := range ids {
		res := runMutants(id, 10)
		for _, r := range res {
			st := "ok  "
			if !r.OK {
				st = "FAIL"
				bad++
			}
			kind := "break "
			if r.Benign {
				kind = "benign"
			}
			fmt.Printf("%s %s %s %-32s applied=%v builds=%v killed=%v %s\n", st, id, kind, r.ID, r.Applied, r.Builds, r.Killed, r.Report)
		}
	}
	if bad > 0 {
		fmt.Printf("%d mutant expectation(s) not met\n", bad)
		return 1
	}
	return 0
}
