package main

func cmdSelftest(args []string) int { return 0 }

func runThorough(c *Ctx, prop Property, extra map[string]any) {}
