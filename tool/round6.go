package main

// Rules added after the sixth round of independently written changes (variants k/l).

import (
	"fmt"
	"go/token"
	"go/types"
	"strings"

	"golang.org/x/tools/go/ssa"
)

// C14-R8: a float is written from its own shortest representation. The float writer formats the
// receiver itself with strconv.FormatFloat(v, 'f', -1, 64): 'f' keeps the FIX grammar (no
// exponent), precision -1 is the shortest text that reads back to the same float64. A value that
// went through another formatting or parsing step first (rounding to 15 digits, say) does not read
// back as what was written.
func c14R8(c *Ctx) {
	p := c.P
	n := 0
	for _, fn := range p.FuncsIn(modPath) {
		rcv := fn.Signature.Recv()
		if rcv == nil || typeName(rcv.Type()) != "FIXFloat" || fn.Signature.Params().Len() != 0 || fn.Signature.Results().Len() != 1 {
			continue
		}
		if sl, ok := fn.Signature.Results().At(0).Type().Underlying().(*types.Slice); !ok || !types.Identical(sl.Elem(), types.Typ[types.Byte]) {
			continue
		}
		name := FuncName(fn)
		var fmts []ssa.CallInstruction
		for _, cl := range Calls(fn) {
			if callName(cl.Common()) == "strconv.FormatFloat" || callName(cl.Common()) == "strconv.AppendFloat" {
				fmts = append(fmts, cl)
			}
		}
		n++
		if len(fmts) != 1 {
			c.Violation(name, p.Pos(fn.Pos()), "float-write-one-format", fmt.Sprintf("the float writer formats %d times (exactly one strconv.FormatFloat of the receiver expected): a value that is formatted, parsed and formatted again is not the value that was set", len(fmts)))
			continue
		}
		a := fmts[0].Common().Args
		if callName(fmts[0].Common()) == "strconv.AppendFloat" {
			a = a[1:]
		}
		vo := p.Inlined(p.Origin(a[0]))
		direct := vo.Kind == "param" && vo.Param == 0 || vo.Kind == "unop" && vo.Base != nil && vo.Base.Kind == "param" || vo.Val != nil && func() bool {
			root := stripConv(vo.Val)
			if ld, ok := root.(*ssa.UnOp); ok && ld.Op == token.MUL {
				_, isAlloc := ld.X.(*ssa.Alloc)
				return isAlloc // spilled value receiver
			}
			_, isPar := root.(*ssa.Parameter)
			return isPar
		}()
		fb, okF := constIntOf(a[1])
		prec, okP := constIntOf(a[2])
		bits, okB := constIntOf(a[3])
		ok := direct && okF && fb == 'f' && okP && prec == -1 && okB && bits == 64 && !vo.Mentions(func(x *Org) bool { return x.Kind == "call" })
		c.Check(ok, name, p.InstrPos(fmts[0].(ssa.Instruction)), "float-write-shortest", "FormatFloat(receiver, 'f', -1, 64)",
			fmt.Sprintf("the float writer formats %s with verb %q precision %d bits %d: only the receiver itself in 'f' notation with precision -1 (the shortest text that reads back to the same float64) keeps write-then-read the identity and stays inside the FIX float grammar", vo.String(), rune(fb), prec, bits))
	}
	if n == 0 {
		c.Violation("", "-", "no-float-writer", "the float value type has no writer")
	}
}

// C14-R9: a decimal is rendered by the decimal type. The methods of the fixed-point value type
// never go through float64: its writer returns the text of a method of the decimal value called
// with the value's own scale, and no method of the decimal that yields a float64 is called.
func c14R9(c *Ctx) {
	p := c.P
	n := 0
	for _, fn := range p.FuncsIn(modPath) {
		rcv := fn.Signature.Recv()
		if rcv == nil || typeName(rcv.Type()) != "FIXDecimal" {
			continue
		}
		name := FuncName(fn)
		for _, cl := range Calls(fn) {
			n++
			cc := cl.Common()
			res := cl.(ssa.Value).Type()
			viaFloat := false
			if b, ok := res.Underlying().(*types.Basic); ok && b.Info()&types.IsFloat != 0 {
				viaFloat = true
			}
			if tup, ok := res.(*types.Tuple); ok {
				for i := 0; i < tup.Len(); i++ {
					if b, ok := tup.At(i).Type().Underlying().(*types.Basic); ok && b.Info()&types.IsFloat != 0 {
						viaFloat = true
					}
				}
			}
			for _, a := range cc.Args {
				if b, ok := a.Type().Underlying().(*types.Basic); ok && b.Info()&types.IsFloat != 0 {
					viaFloat = true
				}
			}
			c.Check(!viaFloat, name, p.InstrPos(cl.(ssa.Instruction)), "decimal-not-via-float:"+callName(cc), "no float64 on the way",
				"the fixed-point value type calls "+callName(cc)+", which takes or yields a binary float: a decimal with more than ~15 significant digits, or a tie at the written scale, does not survive the 53-bit mantissa, so the text written is not the value at the written scale")
		}
	}
	if n == 0 {
		c.Violation("", "-", "no-decimal-calls", "the fixed-point value type calls nothing (anchor lost)")
	}
}

// C15-R11: an enumerated field is checked as a whole. The key looked up in a field type's
// enumeration is the complete value of the field under validation — not a piece of it.
func c15R11(c *Ctx) {
	p := c.P
	fEnums := p.Field(modPath+"/datadictionary", "FieldType", "Enums")
	n := 0
	for _, fn := range p.FuncsIn(modPath) {
		if fnPkg(fn).Pkg.Path() != modPath {
			continue
		}
		ForEachInstr(fn, func(in ssa.Instruction) {
			l, ok := in.(*ssa.Lookup)
			if !ok || !isFieldOrg(p.Origin(l.X), fEnums) {
				return
			}
			n++
			ko := p.Origin(l.Index)
			whole := ko.Kind == "field" && cn(ko.Field) == "value" && ko.Base != nil && (ko.Base.Kind == "param" || ko.Base.Kind == "deref" || ko.Base.Kind == "index" || ko.Base.Kind == "field")
			if !whole && ko.Val != nil {
				// string(field.value): a conversion of the field's value bytes
				if cv, isC := ko.Val.(*ssa.Convert); isC {
					vo := p.Origin(cv.X)
					whole = vo.Kind == "field" && cn(vo.Field) == "value"
				}
			}
			c.Check(whole, FuncName(fn), p.InstrPos(l), "enum-key-whole-value", "the enumeration is looked up with the whole field value",
				"the enumeration of the field's type is looked up with "+ko.String()+", not with the whole value of the field: a value assembled from several valid codes (\"1 2\") passes although it is not one of the listed values")
		})
	}
	if n == 0 {
		c.Violation("", "-", "no-enum-lookup", "no validation function looks a value up in a field type's enumeration")
	}
}

// C15-R12: the duplicate-tag set lives for one walk. The set in which the walk records the tags
// it has met (and through which TagAppearsMoreThanOnce is decided) is allocated in the walk
// itself; a set handed in from the validator survives an early return and poisons the next message.
func c15R12(c *Ctx) {
	p := c.P
	n := 0
	for _, fn := range p.FuncsIn(modPath) {
		if fnPkg(fn).Pkg.Path() != modPath {
			continue
		}
		usesDup := false
		for _, cl := range Calls(fn) {
			if cal := cl.Common().StaticCallee(); cal != nil && strings.Contains(fnName(cal), "AppearsMoreThanOnce") {
				usesDup = true
			}
		}
		if !usesDup {
			continue
		}
		// the recordings: TagSet.Add calls and direct insertions into a TagSet
		type rec struct {
			in  ssa.Instruction
			set ssa.Value
		}
		var recs []rec
		ForEachInstr(fn, func(in ssa.Instruction) {
			switch x := in.(type) {
			case ssa.CallInstruction:
				cal := x.Common().StaticCallee()
				if cal != nil && fnName(cal) == "Add" && cal.Signature.Recv() != nil && typeName(cal.Signature.Recv().Type()) == "TagSet" {
					recs = append(recs, rec{in, x.Common().Args[0]})
				}
			case *ssa.MapUpdate:
				if typeName(x.Map.Type()) == "TagSet" {
					recs = append(recs, rec{in, x.Map})
				}
			}
		})
		for _, r := range recs {
			n++
			so := p.Origin(r.set)
			fresh := so.Kind == "make" && so.Val != nil && so.Val.(ssa.Instruction).Parent() == fn
			c.Check(fresh, FuncName(fn), p.InstrPos(r.in), "dup-set-per-walk", "the set of tags met is allocated by the walk",
				"the walk records the tags it has met in "+so.String()+", a set it did not allocate itself: after a walk that ended early (unknown tag, duplicate, group error) the tags of the rejected message stay in it and the next conforming message is rejected with TagAppearsMoreThanOnce")
		}
	}
	if n == 0 {
		c.Violation("", "-", "no-dup-set", "no function records met tags next to a TagAppearsMoreThanOnce decision")
	}
}

// C18-R9: the time of day of an instant is its wall clock. Every operand compared with the
// configured start or end time of day is the duration of NewTimeOfDay(t.Clock()) (or the other
// configured time): the elapsed time since local midnight differs from the wall clock by an hour on
// the days the clocks change.
func c18R9(c *Ctx) {
	p := c.P
	pkg := modPath + "/internal"
	fStart := p.Field(pkg, "TimeRange", "startTime")
	fEnd := p.Field(pkg, "TimeRange", "endTime")
	n := 0
	for _, fn := range p.FuncsIn(pkg) {
		rcv := fn.Signature.Recv()
		if rcv == nil || typeName(rcv.Type()) != "TimeRange" {
			continue
		}
		ForEachInstr(fn, func(in ssa.Instruction) {
			b, ok := in.(*ssa.BinOp)
			if !ok {
				return
			}
			switch b.Op {
			case token.LSS, token.LEQ, token.GTR, token.GEQ, token.EQL, token.NEQ:
			default:
				return
			}
			l, r := p.Origin(b.X), p.Origin(b.Y)
			isCfg := func(o *Org) bool {
				return o.Kind == "field" && o.Base != nil && (isFieldOrg(o.Base, fStart) || isFieldOrg(o.Base, fEnd))
			}
			for _, pr := range [][2]*Org{{l, r}, {r, l}} {
				if !isCfg(pr[0]) || isCfg(pr[1]) {
					continue
				}
				n++
				o := pr[1]
				okClock := o.Kind == "field" && o.Base != nil && o.Base.Kind == "call" && o.Base.Callee != nil && fnName(o.Base.Callee) == "NewTimeOfDay" && len(o.Base.Args) == 3 &&
					o.Base.Args[0].IsCallTo("(time.Time).Clock") && o.Base.Args[1].IsCallTo("(time.Time).Clock") && o.Base.Args[2].IsCallTo("(time.Time).Clock")
				c.Check(okClock, FuncName(fn), p.InstrPos(in), "time-of-day-from-clock", "compared with the wall clock NewTimeOfDay(t.Clock()).d",
					"the configured time of day is compared with "+o.String()+", which is not the wall clock of the instant (NewTimeOfDay(t.Clock())): time elapsed since local midnight is an hour off the wall clock after a daylight-saving change, so on those days the window opens and closes an hour early or late")
			}
		})
	}
	if n < 4 {
		c.Violation("", "-", "few-time-comparisons", fmt.Sprintf("only %d comparisons with the configured times of day found", n))
	}
}

// C18-R10: membership in the configured weekdays does not depend on their order. A loop over the
// weekday list is left early only on a match: an exit under an ordering test between an element and
// the day assumes a sorted list, but the list keeps the order of the configuration text.
func c18R10(c *Ctx) {
	p := c.P
	pkg := modPath + "/internal"
	fDays := p.Field(pkg, "TimeRange", "weekdays")
	n := 0
	for _, fn := range p.FuncsIn(pkg) {
		rcv := fn.Signature.Recv()
		if rcv == nil || typeName(rcv.Type()) != "TimeRange" {
			continue
		}
		for _, l := range naturalLoops(fn) {
			// a loop that indexes the weekday list
			over := false
			for b := range l.body {
				for _, in := range b.Instrs {
					if ia, ok := in.(*ssa.IndexAddr); ok && isFieldOrg(p.Origin(ia.X), fDays) {
						over = true
					}
				}
			}
			if !over {
				continue
			}
			n++
			bad := ""
			for b := range l.body {
				ifi, ok := b.Instrs[len(b.Instrs)-1].(*ssa.If)
				if !ok {
					continue
				}
				leaves := !l.body[b.Succs[0]] || !l.body[b.Succs[1]]
				if !leaves || b == l.header {
					continue
				}
				if cmp, ok := ifi.Cond.(*ssa.BinOp); ok {
					switch cmp.Op {
					case token.LSS, token.LEQ, token.GTR, token.GEQ:
						lo, ro := p.Origin(cmp.X), p.Origin(cmp.Y)
						if lo.Mentions(func(x *Org) bool { return x.Kind == "field" && x.Field == fDays }) || ro.Mentions(func(x *Org) bool { return x.Kind == "field" && x.Field == fDays }) {
							bad = p.InstrPos(ifi) + ": " + lo.String() + " " + cmp.Op.String() + " " + ro.String()
						}
					}
				}
			}
			c.Check(bad == "", FuncName(fn), p.InstrPos(l.header.Instrs[0]), "weekday-scan-order-free", "the scan over the weekdays is left only on a match",
				"the loop over the configured weekdays is left under an ordering test ("+bad+"): the list keeps the order in which the days are written in the configuration (\"Mon,Tue,Sun\"), so a day written after a later one is never found and its sessions are reported out of range")
		}
	}
	if n == 0 {
		c.Violation("", "-", "no-weekday-scan", "no loop over the configured weekdays found")
	}
}

// C19-R11: a dictionary is built from the file each time it is loaded. What the loading functions
// return is built in that call: no returned dictionary comes out of a package-level variable (a
// cache keyed by path returns what the file said earlier, and accepts a file that has since become
// invalid).
func c19R11(c *Ctx) {
	p := c.P
	pkg := modPath + "/datadictionary"
	n := 0
	for _, fn := range p.FuncsIn(pkg) {
		if fn.Object() == nil || !fn.Object().Exported() || fn.Signature.Recv() != nil {
			continue
		}
		res := fn.Signature.Results()
		if res.Len() != 2 || !isPtrToNamed(res.At(0).Type(), "DataDictionary") || !isErrorType(res.At(1).Type()) {
			continue
		}
		for _, b := range fn.Blocks {
			ret, ok := b.Instrs[len(b.Instrs)-1].(*ssa.Return)
			if !ok || b == fn.Recover || len(ret.Results) != 2 {
				continue
			}
			for _, alt := range p.valueAlternatives(ret.Results[0], b, 0) {
				o := p.Origin(alt.val)
				if o.IsNil() {
					continue
				}
				n++
				global := o.Mentions(func(x *Org) bool { return x.Kind == "global" })
				c.Check(!global, FuncName(fn), p.InstrPos(ret), "dictionary-built-not-cached", "the returned dictionary is built in this call",
					"the loader returns "+clip(o.String(), 120)+", which comes out of a package-level variable: a second load of the same path reports what the file said the first time, and a file that now refers to an undefined field is accepted")
			}
		}
	}
	if n == 0 {
		c.Violation("", "-", "no-loader", "no exported function of the package returns (*DataDictionary, error)")
	}
}

// C20-R9: an in-sequence TestRequest is answered whatever its PossDupFlag says. In the handler that
// answers a TestRequest (the function that copies TestReqID(112) into a Heartbeat), the send of
// the Heartbeat is reached under no condition on PossDupFlag(43): a message that passed the
// sequence check carries the expected number and has never been processed.
func c20R9(c *Ctx) {
	p := c.P
	t112, t43 := p.Tag("tagTestReqID"), p.Tag("tagPossDupFlag")
	n := 0
	for _, fn := range p.FuncsIn(modPath) {
		if fnPkg(fn).Pkg.Path() != modPath {
			continue
		}
		sets := p.setTagCalls(fn, t112)
		if len(sets) == 0 {
			continue
		}
		// only the answering side: the value comes from the received message
		answering := false
		for _, st := range sets {
			if p.ContentOrigin(st.val).Mentions(func(x *Org) bool { return (x.Kind == "outarg" || x.Kind == "call") && x.ArgConstInt(0, t112) }) {
				answering = true
			}
		}
		if !answering {
			continue
		}
		for _, st := range sets {
			n++
			d := p.ReachCond(st.call.Block())
			dep := false
			for _, a := range d.Atoms() {
				for _, side := range []*Org{a.L, a.R, a.B} {
					if side != nil && side.Mentions(func(x *Org) bool {
						return (x.Kind == "call" || x.Kind == "outarg") && (x.ArgConstInt(0, t43) || x.ArgConstInt(1, t43))
					}) {
						dep = true
					}
				}
			}
			c.Check(!dep, FuncName(fn), p.InstrPos(st.call), "testrequest-answered-regardless-of-possdup", "the answer does not depend on PossDupFlag(43)",
				"the Heartbeat that answers a TestRequest is built only under a condition on PossDupFlag(43) ("+clip(d.String(), 160)+"): a TestRequest that passed the sequence check has not been processed before, whatever the flag says, so the peer's probe consumes its number and is never answered")
		}
	}
	if n == 0 {
		c.Violation("", "-", "no-testrequest-answer", "no function answers a TestRequest with its TestReqID")
	}
}

// C20-R10: every inbound frame re-arms the silence timer. In the function that parses inbound
// bytes, every return after the parser was called has passed the re-arming of the peer timer: a
// peer whose bytes arrive but do not parse is not silent.
func c20R10(c *Ctx) {
	p := c.P
	inc := p.incomingFn()
	name := FuncName(inc)
	fPeer := p.Field(modPath, "session", "peerTimer")
	var parse ssa.Instruction
	for _, cl := range Calls(inc) {
		if cal := cl.Common().StaticCallee(); cal != nil && strings.HasPrefix(fnName(cal), "ParseMessage") {
			parse = cl.(ssa.Instruction)
		}
	}
	if parse == nil {
		c.Violation(name, p.Pos(inc.Pos()), "no-parse", "the inbound function does not call the parser")
		return
	}
	mf := &MustFlow{Fn: inc, Transfer: func(in ssa.Instruction, s Set) {
		if cl, ok := in.(ssa.CallInstruction); ok && len(cl.Common().Args) > 0 {
			if cn := callName(cl.Common()); strings.HasSuffix(cn, ".Reset") && isFieldOrg(p.Origin(cl.Common().Args[0]), fPeer) {
				s["rearmed"] = true
			}
		}
	}}
	n := 0
	for ret, s := range mf.AtReturns() {
		if ret.Block() == inc.Recover || !InstrDominates(parse, ret) {
			continue
		}
		n++
		c.Check(s["rearmed"], name, p.InstrPos(ret), "peer-timer-rearmed-per-frame", "the peer timer is re-armed before this return",
			"the inbound function returns after parsing a frame without re-arming the peer timer: bytes that arrive but fail to parse do not count as traffic, the TestRequest goes out (and the disconnect follows) although the peer kept sending")
	}
	if n == 0 {
		c.Violation(name, p.Pos(inc.Pos()), "no-return-after-parse", "no return of the inbound function is dominated by the parser call")
	}
}

// C12-R8: a search of the window that fails refills and tries again. Whether a delimiter is in the
// window yet depends on how the stream was cut into reads; every search of the window
// (bytes.Index and relatives on a slice of the parse buffer) therefore sits in a loop that also
// calls the refill function — a single look at what happens to be buffered turns a read boundary
// inside a field into a terminal error.
func c12R8(c *Ctx) {
	p := c.P
	pi := getParser(p)
	searches := map[string]bool{"bytes.Index": true, "bytes.IndexByte": true, "bytes.IndexAny": true, "bytes.IndexRune": true, "bytes.LastIndex": true, "bytes.LastIndexByte": true, "bytes.Contains": true, "bytes.ContainsRune": true, "bytes.ContainsAny": true, "bytes.Cut": true, "bytes.HasPrefix": false}
	n := 0
	for _, fn := range pi.methods {
		loops := naturalLoops(fn)
		for _, cl := range Calls(fn) {
			if !searches[callName(cl.Common())] || len(cl.Common().Args) == 0 {
				continue
			}
			if !p.Origin(cl.Common().Args[0]).Mentions(func(x *Org) bool { return x.Kind == "field" && x.Field == pi.fBuf }) {
				continue
			}
			n++
			ok := false
			for _, l := range loops {
				if !l.body[cl.Block()] {
					continue
				}
				for b := range l.body {
					for _, in := range b.Instrs {
						if c2, isC := in.(ssa.CallInstruction); isC && c2.Common().StaticCallee() == pi.refill {
							ok = true
						}
					}
				}
			}
			c.Check(ok, FuncName(fn), p.InstrPos(cl.(ssa.Instruction)), "search-refills-and-retries", "the window is searched inside a loop that refills it",
				"the parse buffer is searched with "+callName(cl.Common())+" outside any loop that refills it: if the read that delivered the preceding bytes ended before the delimiter, the search fails although the stream is well formed, and the result (frames and terminal error) depends on how the stream was cut into reads")
		}
	}
	if n == 0 {
		c.Violation("", "-", "no-window-search", "the framing parser never searches its window")
	}
}

// sqlFullText: the statement text stored into field f with the constant %s arguments of its
// fmt.Sprintf substituted (a non-constant argument, the table name, becomes TBL).
func (p *Prog) sqlFullText(f *types.Var) string {
	for _, st := range p.FieldStores(f) {
		o := p.Origin(st.Store.Val)
		if s, ok := o.ConstStringVal(); ok {
			return s
		}
		if !o.IsCallTo("fmt.Sprintf") || len(o.Args) == 0 {
			continue
		}
		format, ok := o.Args[0].ConstStringVal()
		if !ok {
			continue
		}
		// the variadic arguments
		var args []string
		if o.Call != nil && len(o.Call.Args) == 2 {
			if sl, ok := o.Call.Args[1].(*ssa.Slice); ok {
				if al, ok := sl.X.(*ssa.Alloc); ok {
					for _, e := range varargsElems(al) {
						if e == nil {
							args = append(args, "TBL")
							continue
						}
						if s, ok := p.Origin(e).ConstStringVal(); ok {
							args = append(args, s)
						} else if mi, isMI := e.(*ssa.MakeInterface); isMI {
							if s, ok := p.Origin(mi.X).ConstStringVal(); ok {
								args = append(args, s)
							} else {
								args = append(args, "TBL")
							}
						} else {
							args = append(args, "TBL")
						}
					}
				}
			}
		}
		out := format
		for _, a := range args {
			out = strings.Replace(out, "%s", a, 1)
		}
		return out
	}
	return ""
}

// placeholderColumns: for each `?` of a statement, in order, the column it stands for ("" when
// the text does not say).
func placeholderColumns(sql string) []string {
	var cols []string
	up := strings.ToUpper(sql)
	if i := strings.Index(up, "INSERT INTO"); i >= 0 {
		// INSERT INTO t (c1, c2, …) VALUES (?, ?, …)
		a := strings.Index(sql[i:], "(")
		b := strings.Index(sql[i:], ")")
		if a > 0 && b > a {
			for _, cname := range strings.Split(sql[i+a+1:i+b], ",") {
				cols = append(cols, strings.TrimSpace(cname))
			}
			return cols
		}
	}
	// col <op> ? sequences in text order
	for i := 0; i < len(sql); i++ {
		if sql[i] != '?' {
			continue
		}
		j := i - 1
		for j >= 0 && strings.ContainsRune(" \t\n=<>!", rune(sql[j])) {
			j--
		}
		k := j
		for k >= 0 && (sql[k] == '_' || sql[k] >= 'a' && sql[k] <= 'z' || sql[k] >= 'A' && sql[k] <= 'Z' || sql[k] >= '0' && sql[k] <= '9') {
			k--
		}
		cols = append(cols, sql[k+1:j+1])
	}
	return cols
}

func normIDName(s string) string {
	s = strings.ToLower(strings.ReplaceAll(s, "_", ""))
	s = strings.TrimPrefix(s, "session")
	s = strings.ReplaceAll(s, "locationid", "locid")
	return s
}

// C16-R14: every statement of the SQL store is keyed by the session's own identity, part by part.
// Wherever a field of the SessionID is bound to a placeholder, the column that placeholder stands
// for is the column of that identity part (sendersubid ← SenderSubID, …). A statement keyed with
// one part twice addresses another session's rows (or none): a Reset then keeps its own messages
// and deletes someone else's.
func c16R14(c *Ctx) {
	p := c.P
	idFields := map[*types.Var]bool{}
	if st, ok := p.Named(modPath, "SessionID").Underlying().(*types.Struct); ok {
		for i := 0; i < st.NumFields(); i++ {
			idFields[st.Field(i)] = true
		}
	}
	n := 0
	for _, s := range getStores(p) {
		if s.Kind != "sql" {
			continue
		}
		for _, fn := range p.FuncsIn(s.T.Obj().Pkg().Path()) {
			for _, cl := range Calls(fn) {
				cn0 := callName(cl.Common())
				if !(strings.HasSuffix(cn0, ").Exec") || strings.HasSuffix(cn0, ").Query") || strings.HasSuffix(cn0, ").QueryRow")) || len(cl.Common().Args) < 3 {
					continue
				}
				var f *types.Var
				p.Origin(cl.Common().Args[1]).Mentions(func(x *Org) bool {
					if x.Kind == "field" && strings.HasPrefix(cn(x.Field), "sql") && f == nil {
						if bt, ok := x.Field.Type().Underlying().(*types.Basic); ok && bt.Kind() == types.String {
							f = x.Field
						}
					}
					return false
				})
				if f == nil {
					continue
				}
				txt := p.sqlFullText(f)
				cols := placeholderColumns(txt)
				sl, ok := cl.Common().Args[2].(*ssa.Slice)
				if !ok {
					continue
				}
				al, ok := sl.X.(*ssa.Alloc)
				if !ok {
					continue
				}
				es := varargsElems(al)
				if len(cols) != len(es) {
					c.Undecided(FuncName(fn), p.InstrPos(cl.(ssa.Instruction)), "sql-arity:"+cn(f), fmt.Sprintf("statement %s has %d placeholders in its text but %d arguments are bound", cn(f), len(cols), len(es)))
					continue
				}
				for i, e := range es {
					if e == nil {
						continue
					}
					var idf *types.Var
					p.Origin(e).Mentions(func(x *Org) bool {
						if x.Kind == "field" && idFields[x.Field] && idf == nil {
							idf = x.Field
						}
						return false
					})
					if idf == nil {
						continue
					}
					n++
					c.Check(normIDName(cols[i]) == normIDName(cn(idf)), FuncName(fn), p.InstrPos(cl.(ssa.Instruction)), fmt.Sprintf("sql-identity:%s#%d", cn(f), i+1),
						fmt.Sprintf("%s: placeholder %d (%s) ← %s", cn(f), i+1, cols[i], cn(idf)),
						fmt.Sprintf("in statement %s placeholder %d stands for column %q but is bound to the session's %s: the statement addresses the rows of a different identity — with unequal values it leaves this session's rows untouched and hits another session's", cn(f), i+1, cols[i], cn(idf)))
				}
			}
		}
	}
	if n < 40 {
		c.Violation("", "-", "few-sql-identity-bindings", fmt.Sprintf("only %d identity bindings found in the SQL store's statements", n))
	}
}

// C17-R8 (= C16-R15): the file store reads each message where its index line says it is. In the
// function that iterates over stored messages, the bytes of a message are read with a positioned
// read (ReadAt) whose offset is the one scanned from the same index line — not sequentially from
// wherever the previous read ended: after a crash between the body write and the index write the
// body file holds bytes no index line refers to.
func c17R8(c *Ctx) {
	p := c.P
	s := storeOfKind(p, "file")
	fn := s.method["IterateMessages"]
	name := FuncName(fn)
	n := 0
	for _, cl := range Calls(fn) {
		cnm := callName(cl.Common())
		isRead := cnm == "(*os.File).ReadAt" || cnm == "(*os.File).Read" || cnm == "io.ReadFull" || cnm == "io.ReadAtLeast" || cnm == "(*bufio.Reader).Read"
		if !isRead {
			continue
		}
		n++
		ok := false
		if cnm == "(*os.File).ReadAt" && len(cl.Common().Args) == 3 {
			// the offset is a variable whose address was handed to the scan of the index line
			if ld, isLd := stripConv(cl.Common().Args[2]).(*ssa.UnOp); isLd && ld.Op == token.MUL {
				if cell, isAl := ld.X.(*ssa.Alloc); isAl {
					for _, sc := range Calls(fn) {
						scn := callName(sc.Common())
						if scn != "fmt.Fscanf" && scn != "fmt.Sscanf" && scn != "fmt.Fscan" && scn != "fmt.Sscan" {
							continue
						}
						last := sc.Common().Args[len(sc.Common().Args)-1]
						if sl, isSl := last.(*ssa.Slice); isSl {
							if va, isVA := sl.X.(*ssa.Alloc); isVA {
								for _, e := range varargsElems(va) {
									if mi, isMI := e.(*ssa.MakeInterface); isMI && mi.X == ssa.Value(cell) && InstrDominates(sc.(ssa.Instruction), cl.(ssa.Instruction)) {
										ok = true
									}
								}
							}
						}
					}
				}
			}
		}
		c.Check(ok, name, p.InstrPos(cl.(ssa.Instruction)), "read-at-recorded-offset", "message bytes read with ReadAt at the offset scanned from the index line",
			"the bytes of a stored message are read with "+cnm+" and not at the offset recorded in its index line: bytes left in the body file by an interrupted save (written, never indexed) shift every following message, so completed saves come back torn or mixed")
	}
	if n == 0 {
		c.Violation(name, p.Pos(fn.Pos()), "no-body-read", "the file store's iteration reads no message bytes")
	}
}
