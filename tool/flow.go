package main

// Forward must-dataflow over one function's CFG with string-set facts, plus bounded
// acyclic path enumeration.

import (
	"sort"
	"strings"

	"golang.org/x/tools/go/ssa"
)

type Set map[string]bool

func (s Set) Clone() Set {
	o := make(Set, len(s))
	for k := range s {
		o[k] = true
	}
	return o
}

func (s Set) Sorted() []string {
	var o []string
	for k := range s {
		o = append(o, k)
	}
	sort.Strings(o)
	return o
}

func (s Set) String() string { return "{" + strings.Join(s.Sorted(), ", ") + "}" }

func (s Set) HasPrefix(pre string) bool {
	for k := range s {
		if strings.HasPrefix(k, pre) {
			return true
		}
	}
	return false
}

func intersect(a, b Set) Set {
	o := Set{}
	for k := range a {
		if b[k] {
			o[k] = true
		}
	}
	return o
}

func equalSet(a, b Set) bool {
	if len(a) != len(b) {
		return false
	}
	for k := range a {
		if !b[k] {
			return false
		}
	}
	return true
}

// MustFlow: facts that hold on ALL paths from entry to a point.
type MustFlow struct {
	Fn       *ssa.Function
	Transfer func(in ssa.Instruction, s Set)       // mutate s for instruction in
	Edge     func(from, to *ssa.BasicBlock, s Set) // optional: mutate for the edge from->to
	Entry    Set

	in     map[*ssa.BasicBlock]Set // nil entry = top (unvisited)
	solved bool
}

func (f *MustFlow) outOf(b *ssa.BasicBlock) Set {
	s := f.in[b]
	if s == nil {
		return nil
	}
	s = s.Clone()
	for _, in := range b.Instrs {
		f.Transfer(in, s)
	}
	return s
}

func (f *MustFlow) Solve() {
	if f.solved {
		return
	}
	f.solved = true
	f.in = map[*ssa.BasicBlock]Set{}
	if len(f.Fn.Blocks) == 0 {
		return
	}
	entry := f.Fn.Blocks[0]
	if f.Entry != nil {
		f.in[entry] = f.Entry.Clone()
	} else {
		f.in[entry] = Set{}
	}
	changed := true
	for iter := 0; changed && iter < 200; iter++ {
		changed = false
		for _, b := range f.Fn.Blocks {
			if b == entry {
				continue
			}
			if b == f.Fn.Recover {
				if f.in[b] == nil {
					f.in[b] = Set{}
					changed = true
				}
				continue
			}
			var acc Set
			for _, p := range b.Preds {
				o := f.outOf(p)
				if o == nil {
					continue
				}
				if f.Edge != nil {
					f.Edge(p, b, o)
				}
				if acc == nil {
					acc = o
				} else {
					acc = intersect(acc, o)
				}
			}
			if acc == nil {
				continue
			}
			if f.in[b] == nil || !equalSet(f.in[b], acc) {
				f.in[b] = acc
				changed = true
			}
		}
	}
}

// Before returns the facts holding just before instruction x.
func (f *MustFlow) Before(x ssa.Instruction) Set {
	f.Solve()
	b := x.Block()
	s := f.in[b]
	if s == nil {
		return Set{} // unreachable block: nothing claimed
	}
	s = s.Clone()
	for _, in := range b.Instrs {
		if in == x {
			return s
		}
		f.Transfer(in, s)
	}
	return s
}

// AtReturns returns the facts holding before each Return instruction.
func (f *MustFlow) AtReturns() map[*ssa.Return]Set {
	out := map[*ssa.Return]Set{}
	for _, b := range f.Fn.Blocks {
		if len(b.Instrs) == 0 {
			continue
		}
		if r, ok := b.Instrs[len(b.Instrs)-1].(*ssa.Return); ok {
			if f.reachable(b) {
				out[r] = f.Before(r)
			}
		}
	}
	return out
}

func (f *MustFlow) reachable(b *ssa.BasicBlock) bool {
	f.Solve()
	return f.in[b] != nil
}

// MustAtAllReturns: facts that hold at every normal return.
func (f *MustFlow) MustAtAllReturns() Set {
	var acc Set
	for _, s := range f.AtReturns() {
		if acc == nil {
			acc = s
		} else {
			acc = intersect(acc, s)
		}
	}
	if acc == nil {
		return Set{}
	}
	return acc
}

// ---- path enumeration -------------------------------------------------------------

type Path struct {
	Blocks []*ssa.BasicBlock
}

// EnumPaths enumerates entry→return paths; each back edge is taken at most once.
// Returns false if the cap was hit.
func EnumPaths(fn *ssa.Function, cap int, visit func(Path)) bool {
	if len(fn.Blocks) == 0 {
		return true
	}
	count := 0
	ok := true
	type edge struct{ a, b *ssa.BasicBlock }
	used := map[edge]int{}
	var cur []*ssa.BasicBlock
	var dfs func(b *ssa.BasicBlock)
	dfs = func(b *ssa.BasicBlock) {
		if !ok {
			return
		}
		cur = append(cur, b)
		defer func() { cur = cur[:len(cur)-1] }()
		if len(b.Succs) == 0 {
			if len(b.Instrs) > 0 {
				if _, isRet := b.Instrs[len(b.Instrs)-1].(*ssa.Return); isRet {
					count++
					if count > cap {
						ok = false
						return
					}
					visit(Path{Blocks: append([]*ssa.BasicBlock{}, cur...)})
				}
			}
			return
		}
		for _, s := range b.Succs {
			e := edge{b, s}
			isBack := s.Dominates(b)
			lim := 1
			if used[e] >= lim {
				continue
			}
			if isBack {
				// only allow a back edge once per path
			}
			used[e]++
			dfs(s)
			used[e]--
		}
	}
	dfs(fn.Blocks[0])
	return ok
}

// PathCond is the conjunction-DNF of edge conditions along a path.
func (p *Prog) PathCond(pa Path) DNF {
	d := dnfTrue()
	for i := 0; i+1 < len(pa.Blocks); i++ {
		d = dnfAnd(d, edgeCond(p, pa.Blocks[i], pa.Blocks[i+1]))
	}
	return d
}

// ---- instruction helpers ---------------------------------------------------------------

// ForEachInstr visits every instruction of fn (not of nested closures).
func ForEachInstr(fn *ssa.Function, f func(ssa.Instruction)) {
	for _, b := range fn.Blocks {
		for _, in := range b.Instrs {
			f(in)
		}
	}
}

// Calls returns the call instructions (call, go, defer) of fn.
func Calls(fn *ssa.Function) []ssa.CallInstruction {
	var out []ssa.CallInstruction
	ForEachInstr(fn, func(in ssa.Instruction) {
		if c, ok := in.(ssa.CallInstruction); ok {
			out = append(out, c)
		}
	})
	return out
}

// instrIndex returns the index of in within its block.
func instrIndex(in ssa.Instruction) int {
	for i, x := range in.Block().Instrs {
		if x == in {
			return i
		}
	}
	return -1
}

// Dominates: instruction a executes before b on every path reaching b.
func InstrDominates(a, b ssa.Instruction) bool {
	if a.Block() == b.Block() {
		return instrIndex(a) < instrIndex(b)
	}
	return a.Block().Dominates(b.Block())
}
