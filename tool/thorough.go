package main

// thoroughExtras is filled in by selftest.go (mutant corpus, fixtures, CHA re-run).
func thoroughExtras(c *Ctx, prop Property, extra map[string]any) {
	runThorough(c, prop, extra)
}
