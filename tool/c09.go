package main

import (
	"encoding/json"
	"fmt"
	"go/token"
	"go/types"
	"os"
	"path/filepath"
	"regexp"
	"sort"
	"strings"

	"golang.org/x/tools/go/ssa"
)

func init() { register("C09", propC09) }

func propC09() Property {
	return Property{
		ID: "C09",
		Explanation: "Panic-obligation ledger over the untrusted-input cone (functions reachable from ParseMessage*, exported FieldMap/RepeatingGroup accessors, parser.ReadMessage, both Validators, ParseSettings, datadictionary.Parse/ParseSrc, stateMachine.Incoming, acceptor first-message handling). " +
			"K1: every index/slice operation in the cone that gc's prove pass could not show in range must be discharged by the checker's guard prover, by the FieldMap field invariant (every stored field has length >= 1, itself checked at every store), or by a reviewed entry keyed by function + structural signature including the FRESH dominating guards (a removed, weakened or stale guard reopens the entry). " +
			"K2: a pointer that may be the nil constant is not dereferenced without a dominating non-nil test. K3: an interface variable assigned only in switch arms and invoked afterwards covers the domain of the switch key (FIX field types of all shipped specs). " +
			"K4: explicit panics and single-result type assertions in the cone are enumerated and each is reviewed. K5: every recursive cycle in the cone has a mark-before-recurse guard or is a reviewed structural recursion. K6: a parse error in Incoming changes no state and still re-arms the peer timer. K2 also follows a possibly-nil pointer that is passed as an argument to an in-module function that dereferences the parameter — directly, through a further callee, or after putting it into a slice literal whose elements are then used. K1/K1b obligations of an unexported helper over its parameters (a block extracted from a reviewed function) are discharged at its call sites: by a guard that dominates the call, or by the reviewed entry of the calling function for the substituted expression. K7 (shared with C08): no send on a closed channel — close, forget, then drain. K8 (shared with C03): a wire-supplied EndSeqNo is clipped to the numbers that exist before it bounds the replay loop.",
		NotDecided: "termination of scanning loops under arbitrary io.Readers (hangs), integer overflow of declared lengths, panics inside third-party/standard-library code, out-of-memory.",
		Trusted:    []string{"gc's prove pass (go build -gcflags=-d=ssa/check_bce/debug=1) for bounds checks it eliminates", "c09_reviewed.json entries, each with a written reason"},
		Rules: []RuleDef{
			{ID: "C09-K1", Desc: "unproven bounds checks in the input cone are discharged or reviewed", Min: 30, Run: c09K1},
			{ID: "C09-K1b", Desc: "FieldMap field invariant: every field stored in a lookup table has length >= 1", Min: 5, Run: c09K1b},
			{ID: "C09-K2", Desc: "possibly-nil pointer dereferenced without a non-nil guard", Min: 1, Run: c09K2},
			{ID: "C09-K3", Desc: "interface value assigned in switch arms covers the key domain before it is invoked", Min: 1, Run: c09K3},
			{ID: "C09-K4", Desc: "explicit panics / single-result type assertions in the cone", Min: 1, Run: c09K4},
			{ID: "C09-K5", Desc: "recursive cycles in the cone are guarded or reviewed", Min: 2, Run: c09K5},
			{ID: "C09-K6", Desc: "garbage does not wedge the session", Min: 2, Run: c09K6},
			{ID: "C09-K7", Desc: "no send on a closed channel: close → nil → drain on teardown (= C08-R10)", Min: 2, Run: c08R10},
			{ID: "C09-K11", Desc: "cyclic component definitions are refused on every resolution path (= C19-R4)", Min: 2, Run: c19R4},
			{ID: "C09-K10", Desc: "validation rules index the message table only after the type was found in it", Min: 2, Run: c09K10},
			{ID: "C09-K9", Desc: "the stash replay loop consumes the entry it replays: a replay that leaves the expected number unchanged cannot spin (= C04-R5)", Min: 3, Run: c04R5},
			{ID: "C09-K8", Desc: "a wire-supplied EndSeqNo is clipped to what exists before it drives the replay loop (= C03-R1)", Min: 2, Run: c03R1},
		},
	}
}

type reviewed struct {
	Key    string `json:"key"`
	Alt    string `json:"alt,omitempty"` // the same entry keyed by function name
	Reason string `json:"reason"`
	Count  int    `json:"count,omitempty"` // number of sites sharing this signature (default 1)
}

var reviewedCount = map[string]int{}
var reviewedAlt = map[string]string{}

var reviewedCache map[string]string

func loadReviewed() map[string]string {
	if reviewedCache != nil {
		return reviewedCache
	}
	reviewedCache = map[string]string{}
	b, err := os.ReadFile(filepath.Join(verifDir(), "c09_reviewed.json"))
	if err != nil {
		return reviewedCache
	}
	var rs []reviewed
	if err := json.Unmarshal(b, &rs); err != nil {
		fmt.Fprintln(os.Stderr, "c09_reviewed.json:", err)
		return reviewedCache
	}
	for _, r := range rs {
		r.Key, r.Alt = normIdx(r.Key), normIdx(r.Alt)
		reviewedCache[r.Key] = r.Reason
		if r.Count == 0 {
			r.Count = 1
		}
		reviewedCount[r.Key] = r.Count
		if r.Alt != "" {
			reviewedAlt[r.Alt] = r.Key
		}
	}
	return reviewedCache
}

var coneCache map[*ssa.Function]bool

func c09Cone(p *Prog) map[*ssa.Function]bool {
	if coneCache != nil {
		return coneCache
	}
	var roots []*ssa.Function
	add := func(f *ssa.Function) {
		if f != nil {
			roots = append(roots, f)
		}
	}
	add(p.Func(modPath, "ParseMessage"))
	add(p.Func(modPath, "ParseMessageWithDataDictionary"))
	add(p.Func(modPath, "ParseSettings"))
	add(p.Func(modPath+"/datadictionary", "Parse"))
	add(p.Func(modPath+"/datadictionary", "ParseSrc"))
	add(p.Method(modPath, "parser", "ReadMessage"))
	add(p.incomingFn())
	add(p.Method(modPath, "Acceptor", "handleConnection"))
	// exported methods of the message model
	for _, tn := range []string{"FieldMap", "Message", "Header", "Body", "Trailer", "RepeatingGroup", "Group"} {
		n := p.Named(modPath, tn)
		for _, T := range []types.Type{n, types.NewPointer(n)} {
			ms := p.SSA.MethodSets.MethodSet(T)
			for i := 0; i < ms.Len(); i++ {
				sel := ms.At(i)
				if sel.Obj().Exported() {
					add(p.SSA.MethodValue(sel))
				}
			}
		}
	}
	// validators
	vi := p.Iface(modPath, "Validator")
	for _, n := range p.Implementations(vi) {
		add(p.MethodOf(n, "Validate"))
	}
	// field value readers
	fr := p.Iface(modPath, "FieldValueReader")
	for _, n := range p.Implementations(fr) {
		add(p.MethodOf(n, "Read"))
	}
	all := p.Reachable(roots, true)
	coneCache = map[*ssa.Function]bool{}
	for f := range all {
		if p.InModule(f) && f.Blocks != nil {
			coneCache[f] = true
		}
	}
	return coneCache
}

var paramRe = regexp.MustCompile(`param#(\d+)`)

// sigString rewrites param#i to the parameter's type name so that adding or reordering
// parameters does not change a signature.
// normIdx renders the cursor of an ascending loop from 0 the same way whether the loop is written
// with range (φ{-1 | …}+1) or with an index variable (φ{0 | …+1}): ledger keys survive that rewrite.
func normIdx(s string) string {
	for _, form := range []string{"(φ{-1 | …} + 1)", "φ{(… + 1) | 0}", "φ{0 | (… + 1)}"} {
		s = strings.ReplaceAll(s, form, "ι")
	}
	return s
}

func sigString(fn *ssa.Function, s string) string {
	return normIdx(sigStringRaw(fn, s))
}

func sigStringRaw(fn *ssa.Function, s string) string {
	return paramRe.ReplaceAllStringFunc(s, func(m string) string {
		var i int
		fmt.Sscanf(m, "param#%d", &i)
		f := fn
		if i >= 0 && i < len(f.Params) {
			return "‹" + typeName(f.Params[i].Type()) + "›"
		}
		return m
	})
}

// ---- K1 -------------------------------------------------------------------------

// mayStoreFields: fields a function may store to, transitively through static + VTA callees.
var mayStoreMemo map[*ssa.Function]map[*types.Var]bool

func (p *Prog) mayStore(fn *ssa.Function) map[*types.Var]bool {
	if mayStoreMemo == nil {
		mayStoreMemo = map[*ssa.Function]map[*types.Var]bool{}
		// direct
		direct := map[*ssa.Function]map[*types.Var]bool{}
		all := p.Funcs
		for _, f := range all {
			m := map[*types.Var]bool{}
			ForEachInstr(f, func(in ssa.Instruction) {
				if st, ok := in.(*ssa.Store); ok {
					if fa, ok := st.Addr.(*ssa.FieldAddr); ok {
						if s := derefStruct(fa.X.Type()); s != nil {
							m[s.Field(fa.Field)] = true
						}
					}
				}
			})
			direct[f] = m
		}
		// fixpoint over call edges
		g := p.VTA()
		callees := func(f *ssa.Function) []*ssa.Function {
			var out []*ssa.Function
			if n := g.Nodes[f]; n != nil {
				for _, e := range n.Out {
					out = append(out, e.Callee.Func)
				}
			}
			for _, a := range f.AnonFuncs {
				out = append(out, a)
			}
			return out
		}
		for _, f := range all {
			mayStoreMemo[f] = direct[f]
		}
		changed := true
		for changed {
			changed = false
			for _, f := range all {
				for _, cal := range callees(f) {
					for v := range mayStoreMemo[cal] {
						if !mayStoreMemo[f][v] {
							mayStoreMemo[f][v] = true
							changed = true
						}
					}
				}
			}
		}
	}
	return mayStoreMemo[fn]
}

// fieldsIn collects struct fields mentioned as loads in an origin tree.
func fieldsIn(o *Org, out map[*types.Var]bool, d int) {
	if o == nil || d > 12 {
		return
	}
	if o.Kind == "field" {
		out[o.Field] = true
	}
	for _, s := range []*Org{o.Base, o.Recv, o.X, o.Y} {
		fieldsIn(s, out, d+1)
	}
	for _, a := range o.Args {
		fieldsIn(a, out, d+1)
	}
	for _, a := range o.Alts {
		fieldsIn(a, out, d+1)
	}
}

// atomFresh: the atom (established where its condition was evaluated) still describes the
// same memory at `use`: no store to a field it mentions, and no call that may store to one,
// on any path between the condition and the use.
func (p *Prog) atomFresh(a *Atom, use ssa.Instruction) bool {
	fs := map[*types.Var]bool{}
	fieldsIn(a.L, fs, 0)
	fieldsIn(a.R, fs, 0)
	fieldsIn(a.B, fs, 0)
	if len(fs) == 0 {
		return true
	}
	cond, ok := a.Cond.(ssa.Instruction)
	if !ok {
		return false
	}
	return p.fieldsStableBetween(fs, cond, use)
}

// fieldsStableBetween: no store to any of the fields, and no call that may store to one,
// on any path from `cond` to `use` that does not pass `cond` again.
func (p *Prog) fieldsStableBetween(fs map[*types.Var]bool, cond, use ssa.Instruction) bool {
	// Region: instructions on paths from the condition to the use that do not pass through
	// the condition again (the condition dominates the use, so re-passing re-establishes it).
	from := cond.Block()
	to := use.Block()
	bad := func(in ssa.Instruction) bool {
		switch x := in.(type) {
		case *ssa.Store:
			if fa, ok := x.Addr.(*ssa.FieldAddr); ok {
				if s := derefStruct(fa.X.Type()); s != nil && fs[s.Field(fa.Field)] {
					return true
				}
			}
		case ssa.CallInstruction:
			cc := x.Common()
			var cals []*ssa.Function
			if sc := cc.StaticCallee(); sc != nil {
				cals = append(cals, sc)
			} else if n := p.VTA().Nodes[in.Parent()]; n != nil {
				for _, e := range n.Out {
					if e.Site == x {
						cals = append(cals, e.Callee.Func)
					}
				}
			}
			for _, cal := range cals {
				ms := p.mayStore(cal)
				for f := range fs {
					if ms[f] {
						return true
					}
				}
			}
		}
		return false
	}
	if from == to {
		if !InstrDominates(cond, use) {
			return false
		}
		for i := instrIndex(cond) + 1; i < instrIndex(use); i++ {
			if bad(from.Instrs[i]) {
				return false
			}
		}
		return true
	}
	for i := instrIndex(cond) + 1; i < len(from.Instrs); i++ {
		if bad(from.Instrs[i]) {
			return false
		}
	}
	// forward from cond's successors, never expanding `from`
	fwd := map[*ssa.BasicBlock]bool{}
	var walk func(b *ssa.BasicBlock)
	walk = func(b *ssa.BasicBlock) {
		if b == from || fwd[b] {
			return
		}
		fwd[b] = true
		for _, s := range b.Succs {
			walk(s)
		}
	}
	for _, s := range from.Succs {
		walk(s)
	}
	// backward from use's block, never expanding `from`
	bwd := map[*ssa.BasicBlock]bool{}
	var back func(b *ssa.BasicBlock)
	back = func(b *ssa.BasicBlock) {
		if b == from || bwd[b] {
			return
		}
		bwd[b] = true
		for _, s := range b.Preds {
			back(s)
		}
	}
	back(to)
	// can `to` be re-entered without passing `from`?
	toCycles := false
	{
		seen := map[*ssa.BasicBlock]bool{}
		var w func(b *ssa.BasicBlock)
		w = func(b *ssa.BasicBlock) {
			if b == from || seen[b] {
				return
			}
			seen[b] = true
			for _, s := range b.Succs {
				if s == to {
					toCycles = true
				}
				w(s)
			}
		}
		for _, s := range to.Succs {
			if s == to {
				toCycles = true
			}
			w(s)
		}
	}
	for b := range fwd {
		if !bwd[b] {
			continue
		}
		for i, in := range b.Instrs {
			if b == to && !toCycles && i >= instrIndex(use) {
				break
			}
			if bad(in) {
				return false
			}
		}
	}
	return true
}

func loopsBack(b *ssa.BasicBlock) bool {
	// b is on a cycle
	seen := map[*ssa.BasicBlock]bool{}
	var w func(x *ssa.BasicBlock) bool
	w = func(x *ssa.BasicBlock) bool {
		for _, s := range x.Succs {
			if s == b {
				return true
			}
			if !seen[s] {
				seen[s] = true
				if w(s) {
					return true
				}
			}
		}
		return false
	}
	return w(b)
}

// arithMentions: o equals term, or mentions it through arithmetic / len / cap only.
func arithMentions(o *Org, term string, d int) bool {
	if o == nil || d > 6 {
		return false
	}
	if o.String() == term {
		return true
	}
	switch o.Kind {
	case "binop":
		return arithMentions(o.X, term, d+1) || arithMentions(o.Y, term, d+1)
	case "call":
		if (o.Builtin == "len" || o.Builtin == "cap") && len(o.Args) == 1 {
			return arithMentions(o.Args[0], term, d+1)
		}
		// another result of the same call (e.g. the error that validates an index result)
		if strings.HasPrefix(o.String(), term+"#") || strings.HasPrefix(term, strings.TrimSuffix(o.String(), "#1")) && o.Res > 0 {
			return true
		}
	case "phi":
		for _, a := range o.Alts {
			if arithMentions(a, term, d+1) {
				return true
			}
		}
	}
	return false
}

// relevantGuards: implied, fresh relational atoms about the index/bounds/base of the site.
func (p *Prog) relevantGuards(fn *ssa.Function, in ssa.Instruction, terms []string) (out []string, outSig []string) {
	d := p.ReachCond(in.Block())
	for _, a := range d.Atoms() {
		if a.Rel == "" {
			continue
		}
		as := a.String()
		if !d.Implies(func(b *Atom) bool { return b.String() == as }) {
			continue
		}
		rel := false
		for _, t := range terms {
			if t == "" || t == "_" || len(t) <= 1 {
				continue
			}
			if arithMentions(a.L, t, 0) || arithMentions(a.R, t, 0) {
				rel = true
			}
		}
		if !rel {
			continue
		}
		if !p.atomFresh(a, in) {
			continue
		}
		out = append(out, sigString(fn, as))
		outSig = append(outSig, sigString(fn, a.Sig()))
	}
	sort.Strings(out)
	sort.Strings(outSig)
	return out, outSig
}

type k1Site struct {
	bi   BoundsInstr
	sig  string
	pos  string
	desc string
}

// k1Signature returns the ledger key (function shape + name-free expression + fresh guards),
// the alternative key by function name (so that either a rename or a signature change alone
// does not reopen an entry) and a readable description.
func (p *Prog) k1Signature(bi BoundsInstr) (sig, alt, desc string) {
	return p.k1SignatureIn(bi, bi.Fn, bi.In, nil)
}

// k1SignatureIn computes the key of bi as seen from function fn at instruction at, with the
// operand descriptors passed through subst (nil = identity). Used directly (fn = bi.Fn) and for
// lifting a helper's obligation to a call site (fn = caller, at = the call, subst = parameters
// replaced by the call's arguments).
func (p *Prog) k1SignatureIn(bi BoundsInstr, fn *ssa.Function, at ssa.Instruction, subst func(*Org) *Org) (sig, alt, desc string) {
	org := func(v ssa.Value) *Org {
		o := p.Origin(v)
		if subst != nil {
			o = subst(o)
		}
		return o
	}
	xo := org(bi.X)
	if _, isAlloc := bi.X.(*ssa.Alloc); isAlloc {
		xo = globalOrigins.addrBase(bi.X, 0)
		if subst != nil {
			xo = subst(xo)
		}
	}
	var terms []string
	terms = append(terms, xo.String())
	var shape, shapeSig string
	if bi.Kind == "index" {
		io := org(bi.Idx)
		terms = append(terms, io.String())
		shape = "index(" + xo.String() + ")[" + io.String() + "]"
		shapeSig = "index(" + xo.Sig() + ")[" + io.Sig() + "]"
	} else {
		lo, hi, mx := "_", "_", ""
		los, his, mxs := "_", "_", ""
		if bi.Low != nil {
			o := org(bi.Low)
			lo, los = o.String(), o.Sig()
			terms = append(terms, lo)
			terms = append(terms, subTerms(o)...)
		}
		if bi.High != nil {
			o := org(bi.High)
			hi, his = o.String(), o.Sig()
			terms = append(terms, hi)
			terms = append(terms, subTerms(o)...)
		}
		if bi.Max != nil {
			o := org(bi.Max)
			mx, mxs = ":"+o.String(), ":"+o.Sig()
		}
		shape = "slice(" + xo.String() + ")[" + lo + ":" + hi + mx + "]"
		shapeSig = "slice(" + xo.Sig() + ")[" + los + ":" + his + mxs + "]"
	}
	gs, gsSig := p.relevantGuards(fn, at, terms)
	sig = "K1|" + fnShape(fn) + "|" + sigString(fn, shapeSig) + "|guards{" + strings.Join(gsSig, " && ") + "}"
	alt = "K1|" + FuncName(fn) + "|" + sigString(fn, shape) + "|guards{" + strings.Join(gs, " && ") + "}"
	if os.Getenv("QFSA_REKEY") != "" {
		fmt.Printf("REKEY\t%s\t%s\t%s\n", "K1|"+fnShape(fn)+"|"+sigString(fn, shape)+"|guards{"+strings.Join(gs, " && ")+"}", sig, alt)
	}
	return sig, alt, sigString(fn, shape)
}

// paramSubst: replaces the parameters of callee by the argument descriptors of the call cs.
func (p *Prog) paramSubst(callee *ssa.Function, cs CallSite) func(*Org) *Org {
	args := cs.Common().Args
	var actual []*Org
	for _, a := range args {
		actual = append(actual, p.Origin(a))
	}
	return func(o *Org) *Org {
		return substOrg(o, func(x *Org) *Org {
			if x.Kind == "param" && x.Fn == callee && x.Param < len(actual) {
				return actual[x.Param]
			}
			return nil
		}, 0)
	}
}

// liftedConstIndexProved: x[k] in a helper, x a parameter: the call passes an argument a for
// which a fresh guard k' < len(a), k' >= k, dominates the call.
func (p *Prog) liftedConstIndexProved(bi BoundsInstr, cs CallSite) bool {
	if bi.Kind != "index" {
		return false
	}
	k, isC := constIntOf(bi.Idx)
	if !isC || k < 0 {
		return false
	}
	xo := p.paramSubst(bi.Fn, cs)(p.Origin(bi.X))
	xs := xo.String()
	gs, _ := p.relevantGuards(cs.Fn, cs.Call, []string{xs})
	for _, g := range gs {
		for j := k; j <= k+4; j++ {
			if g == sigString(cs.Fn, fmt.Sprintf("%d < len(%s)", j, xs)) {
				return true
			}
		}
	}
	return false
}

// liftable: an unexported helper all of whose uses are static in-module calls; its unproven
// obligations over its parameters can be discharged at its call sites.
func (p *Prog) liftable(fn *ssa.Function) []CallSite {
	if fn == nil || fn.Parent() != nil || fn.Object() == nil || fn.Object().Exported() && fn.Signature.Recv() == nil {
		return nil
	}
	if fn.Object().Exported() {
		return nil
	}
	sites := p.CallsTo(fn)
	if len(sites) == 0 || len(sites) > 3 {
		return nil
	}
	// not used as a value
	if refs := fn.Referrers(); refs != nil && len(*refs) > 0 {
		return nil
	}
	for _, s := range sites {
		if _, isGo := s.Call.(*ssa.Go); isGo {
			return nil
		}
		if _, isDefer := s.Call.(*ssa.Defer); isDefer {
			return nil
		}
		if s.Common().StaticCallee() != fn {
			return nil
		}
	}
	return sites
}

func subTerms(o *Org) []string {
	var out []string
	if o.Kind == "binop" {
		for _, s := range []*Org{o.X, o.Y} {
			if s.Kind != "const" {
				out = append(out, s.String())
				out = append(out, subTerms(s)...)
			}
		}
	}
	return out
}

// fieldInvariantCovers: the site is X[0] or X[:1] where X is a field value read out of a
// FieldMap lookup table (directly, or a parameter all of whose in-module arguments are).
func (p *Prog) fieldInvariantCovers(bi BoundsInstr, depth int) bool {
	fTagLookup := p.Field(modPath, "FieldMap", "tagLookup")
	isZeroIdx := false
	if bi.Kind == "index" {
		if v, ok := constIntOf(bi.Idx); ok && v == 0 {
			isZeroIdx = true
		}
	} else if bi.Low == nil && bi.High != nil && bi.Max == nil {
		if v, ok := constIntOf(bi.High); ok && v == 1 {
			isZeroIdx = true
		}
	}
	if !isZeroIdx {
		return false
	}
	return p.isLookupField(p.Origin(bi.X), fTagLookup, depth)
}

func (p *Prog) isLookupField(o *Org, fTagLookup *types.Var, depth int) bool {
	if depth > 3 {
		return false
	}
	return o.All(func(x *Org) bool {
		switch x.Kind {
		case "lookup":
			return x.Res == 0 && isFieldOrg(x.Base, fTagLookup)
		case "next":
			return x.Res == 2 && x.Base.Kind == "range" && isFieldOrg(x.Base.Base, fTagLookup)
		case "param":
			// all in-module static call sites pass a lookup field; function must be unexported
			fn := x.Fn
			if fn.Object() != nil && fn.Object().Exported() {
				return false
			}
			sites := p.StaticCallers(fn)
			if len(sites) == 0 {
				return false
			}
			for _, s := range sites {
				args := s.Common().Args
				if x.Param >= len(args) {
					return false
				}
				ao := p.Origin(args[x.Param])
				if !p.isLookupField(ao, fTagLookup, depth+1) && !p.minLenAtLeast1(args[x.Param], depth+1) {
					return false
				}
			}
			return true
		}
		return false
	})
}

// minLenAtLeast1: structural lower bound on a slice's length (used by INV-field).
func (p *Prog) minLenAtLeast1(v ssa.Value, depth int) bool {
	if depth > 6 {
		return false
	}
	v = stripConv(v)
	switch x := v.(type) {
	case *ssa.Slice:
		// s[i:i+1] has length 1 (when in bounds, which K1 checks separately); alloc[:] of [n]T
		if al, ok := x.X.(*ssa.Alloc); ok {
			if at, ok := al.Type().Underlying().(*types.Pointer).Elem().Underlying().(*types.Array); ok && at.Len() >= 1 {
				if x.High == nil {
					return true
				}
				if h, ok := constIntOf(x.High); ok && h >= 1 && x.Low == nil {
					return true
				}
			}
		}
		if x.Low != nil && x.High != nil {
			lo, hi := p.Origin(x.Low), p.Origin(x.High)
			if hi.Kind == "binop" && hi.Op == token.ADD && hi.X.String() == lo.String() {
				if n, ok := hi.Y.ConstIntVal(); ok && n >= 1 {
					return true
				}
			}
		}
		if x.Low == nil && x.High != nil {
			if h, ok := constIntOf(x.High); ok && h >= 1 {
				return true
			}
		}
		return false
	case *ssa.MakeSlice:
		if n, ok := constIntOf(x.Len); ok && n >= 1 {
			return true
		}
		// make(field, len(f)) with f itself a lookup field
		lo := p.Origin(x.Len)
		if lo.IsCallTo("len") && len(lo.Args) == 1 {
			return p.isLookupField(lo.Args[0], p.Field(modPath, "FieldMap", "tagLookup"), depth+1)
		}
		return false
	case *ssa.Phi:
		for _, e := range x.Edges {
			if e == v {
				continue
			}
			if !p.minLenAtLeast1(e, depth+1) {
				return false
			}
		}
		return true
	case *ssa.Call:
		if ai := asAppend(x); ai != nil {
			// append never shrinks
			if p.minLenAtLeast1(ai.Base, depth+1) || len(ai.Elems) >= 1 {
				return true
			}
			return false
		}
		// in-module callee whose every return value has minLen>=1
		cals := []*ssa.Function{}
		if sc := x.Call.StaticCallee(); sc != nil {
			cals = append(cals, sc)
		} else if x.Call.IsInvoke() {
			if n := p.VTA().Nodes[x.Parent()]; n != nil {
				for _, e := range n.Out {
					if e.Site == x {
						cals = append(cals, e.Callee.Func)
					}
				}
			}
		}
		if len(cals) == 0 {
			return false
		}
		for _, cal := range cals {
			if !p.InModule(cal) || cal.Blocks == nil {
				return false
			}
			for _, b := range cal.Blocks {
				if r, ok := b.Instrs[len(b.Instrs)-1].(*ssa.Return); ok && len(r.Results) >= 1 {
					if !p.minLenAtLeast1(r.Results[0], depth+1) {
						return false
					}
				}
			}
		}
		return true
	case *ssa.Parameter:
		fn := x.Parent()
		if fn.Object() != nil && fn.Object().Exported() {
			return false
		}
		idx := -1
		for i, pr := range fn.Params {
			if pr == x {
				idx = i
			}
		}
		sites := p.StaticCallers(fn)
		if len(sites) == 0 || idx < 0 {
			return false
		}
		for _, s := range sites {
			if !p.minLenAtLeast1(s.Common().Args[idx], depth+1) {
				return false
			}
		}
		return true
	case *ssa.UnOp:
		if x.Op == token.MUL {
			// load of a local: all stores
			if al, ok := x.X.(*ssa.Alloc); ok {
				var ws []cellWriter
				globalOrigins.cellWriters(al, map[ssa.Value]bool{}, &ws)
				if len(ws) == 0 {
					return false
				}
				for _, w := range ws {
					if w.store == nil || !p.minLenAtLeast1(w.store.Val, depth+1) {
						return false
					}
				}
				return true
			}
		}
		return p.isLookupField(p.Origin(v), p.Field(modPath, "FieldMap", "tagLookup"), depth+1)
	}
	return p.isLookupField(p.Origin(v), p.Field(modPath, "FieldMap", "tagLookup"), depth+1)
}

// guardProves: a fresh implied guard of the form idx < len(X) (index) proves the site,
// given idx >= 0 structurally.
func (p *Prog) guardProves(bi BoundsInstr) (bool, string) {
	d := p.ReachCond(bi.In.Block())
	xo := p.Origin(bi.X)
	lenX := "len(" + xo.String() + ")"
	capX := "cap(" + xo.String() + ")"
	implied := func(pred func(a *Atom) bool) bool {
		return d.Implies(func(a *Atom) bool { return pred(a) && p.atomFresh(a, bi.In) })
	}
	// i = bytes.IndexByte(x, c) (or bytes.Index) under i != -1 gives 0 <= i < len(x)
	foundIn := func(o *Org) bool {
		if !(o.IsCallTo("bytes.IndexByte") || o.IsCallTo("bytes.Index")) || len(o.Args) < 1 || o.Args[0].String() != xo.String() {
			return false
		}
		s := o.String()
		return implied(func(a *Atom) bool { return a.Rel == "!=" && a.L.String() == s && a.R.IsConstInt(-1) })
	}
	nonNeg := func(o *Org) bool { return p.nonNegAt(o, bi.In, 0, map[string]bool{}) || foundIn(o) }
	ltLen := func(o *Org) bool {
		if foundIn(o) {
			return true
		}
		s := o.String()
		return implied(func(a *Atom) bool { return a.Rel == "<" && a.L.String() == s && a.R.String() == lenX })
	}
	leLenOrCap := func(o *Org) bool {
		s := o.String()
		if s == lenX || s == capX {
			return true
		}
		return implied(func(a *Atom) bool {
			return (a.Rel == "<=" || a.Rel == "<") && a.L.String() == s && (a.R.String() == lenX || a.R.String() == capX)
		})
	}
	if bi.Kind == "index" {
		io := p.Origin(bi.Idx)
		if nonNeg(io) && ltLen(io) {
			return true, "guard idx < len(x), idx >= 0"
		}
		return false, ""
	}
	// slice x[lo:hi]: need 0 <= lo <= hi <= cap(x)
	var lo, hi *Org
	if bi.Low != nil {
		lo = p.Origin(bi.Low)
	}
	if bi.High != nil {
		hi = p.Origin(bi.High)
	}
	if bi.Max != nil {
		return false, ""
	}
	switch {
	case lo != nil && hi != nil:
		// x[i:i+1] with i < len(x)
		if hi.Kind == "binop" && hi.Op == token.ADD && hi.X.String() == lo.String() && hi.Y.IsConstInt(1) && nonNeg(lo) && ltLen(lo) {
			return true, "x[i:i+1] under i < len(x), i >= 0"
		}
		if lo.IsConstInt(0) && leLenOrCap(hi) && nonNeg(hi) {
			return true, "x[0:h] under h <= cap(x)"
		}
	case lo == nil && hi != nil:
		if leLenOrCap(hi) && nonNeg(hi) {
			return true, "x[:h] under h <= len/cap(x)"
		}
		// x[:i+1] with i < len(x)
		if hi.Kind == "binop" && hi.Op == token.ADD && hi.Y.IsConstInt(1) && nonNeg(hi.X) && ltLen(hi.X) {
			return true, "x[:i+1] under i < len(x)"
		}
	case lo != nil && hi == nil:
		if leLenOrCap(lo) && nonNeg(lo) {
			return true, "x[l:] under l <= len(x)"
		}
		if lo.Kind == "binop" && lo.Op == token.ADD && lo.Y.IsConstInt(1) && nonNeg(lo.X) && ltLen(lo.X) {
			return true, "x[i+1:] under i < len(x)"
		}
	}
	return false, ""
}

// nonNegative: lower bound 0, structurally and through call sites / callee returns
// (an inductive invariant: values in progress are assumed, every flow is checked).
func (p *Prog) nonNegative(o *Org, depth int) bool {
	return p.nonNegAt(o, nil, depth, map[string]bool{})
}

func (p *Prog) nonNegAt(o *Org, at ssa.Instruction, depth int, busy map[string]bool) bool {
	if o == nil || depth > 8 {
		return false
	}
	return o.All(func(x *Org) bool {
		// a fresh dominating guard at the point of use
		if at != nil {
			d := p.ReachCond(at.Block())
			xs := x.String()
			if d.Implies(func(a *Atom) bool {
				if !p.atomFresh(a, at) {
					return false
				}
				switch a.Rel {
				case "<", "<=":
					if a.R.String() == xs {
						if n, ok := a.L.ConstIntVal(); ok && n >= 0 || a.Rel == "<" && ok && n >= -1 {
							return true
						}
						if a.L.Kind != "const" && a.L.String() != xs && p.nonNegAt(a.L, at, depth+1, busy) {
							return true
						}
					}
				case "!=":
					if a.L.String() == xs && a.R.IsConstInt(-1) && (x.IsCallTo("bytes.IndexByte") || x.IsCallTo("bytes.Index")) {
						return true
					}
				}
				return false
			}) {
				return true
			}
		}
		switch x.Kind {
		case "const":
			n, ok := x.ConstIntVal()
			return ok && n >= 0
		case "call":
			if x.Builtin == "len" || x.Builtin == "cap" {
				return true
			}
			if x.IsCallTo("bytes.Count") {
				return true
			}
			if x.Callee != nil && p.InModule(x.Callee) && x.Callee.Blocks != nil && x.Res == 0 {
				key := "ret:" + x.Callee.String()
				if busy[key] {
					return true
				}
				busy[key] = true
				defer delete(busy, key)
				for _, b := range x.Callee.Blocks {
					r, ok := b.Instrs[len(b.Instrs)-1].(*ssa.Return)
					if !ok || len(r.Results) == 0 {
						continue
					}
					if p.returnsNonNilError(r) {
						continue
					}
					if !p.nonNegAt(p.Origin(r.Results[0]), r, depth+1, busy) {
						return false
					}
				}
				return true
			}
		case "param":
			fn := x.Fn
			if fn == nil || x.Param < 0 {
				return false
			}
			if fn.Object() != nil && fn.Object().Exported() && fn.Signature.Recv() == nil {
				return false
			}
			if fn.Object() != nil && fn.Object().Exported() {
				// exported method: callable from outside the module
				if n := namedOf(fn.Signature.Recv().Type()); n == nil || n.Obj().Exported() {
					return false
				}
			}
			key := fmt.Sprintf("par:%s#%d", fn.String(), x.Param)
			if busy[key] {
				return true
			}
			busy[key] = true
			defer delete(busy, key)
			sites := p.StaticCallers(fn)
			if len(sites) == 0 {
				return false
			}
			for _, sct := range sites {
				args := sct.Common().Args
				if x.Param >= len(args) {
					return false
				}
				if !p.nonNegAt(p.Origin(args[x.Param]), sct, depth+1, busy) {
					return false
				}
			}
			return true
		case "binop":
			// rotated range loop index: i = φ(-1, i+1); i+1 >= 0
			if bo, ok := x.Val.(*ssa.BinOp); ok && bo.Op == token.ADD {
				if ph, ok := bo.X.(*ssa.Phi); ok {
					if one, ok := constIntOf(bo.Y); ok && one == 1 && len(ph.Edges) == 2 {
						okEdges := true
						for _, e := range ph.Edges {
							if n, isC := constIntOf(e); isC && n >= -1 {
								continue
							}
							if e == ssa.Value(bo) {
								continue
							}
							okEdges = false
						}
						if okEdges {
							return true
						}
					}
				}
			}
			if x.Op == token.ADD || x.Op == token.MUL {
				// NB: a sum of non-negative ints can still overflow; sums of wire-derived values
				// need an explicit guard at the use (handled by the guard case above).
				if p.wireDerived(x.X) || p.wireDerived(x.Y) {
					return false
				}
				return p.nonNegAt(x.X, at, depth+1, busy) && p.nonNegAt(x.Y, at, depth+1, busy)
			}
		case "field":
			return p.counterField(x.Field)
		}
		return false
	})
}

// wireDerived: the value is an integer parsed from input (atoi / FIXInt / GetInt): unbounded.
func (p *Prog) wireDerived(o *Org) bool {
	return o.Mentions(func(x *Org) bool {
		return x.IsCallTo("atoi", "parseUInt", "(FieldMap).GetInt", "(FieldMap).getIntNoLock", "strconv.Atoi")
	})
}

// returnsNonNilError: the return's last result is an error that is certainly non-nil.
func (p *Prog) returnsNonNilError(r *ssa.Return) bool {
	if len(r.Results) < 2 {
		return false
	}
	last := r.Results[len(r.Results)-1]
	if !types.Identical(last.Type(), types.Universe.Lookup("error").Type()) {
		if _, ok := last.Type().Underlying().(*types.Interface); !ok {
			return false
		}
	}
	lo := p.Origin(last)
	if lo.IsNil() {
		return false
	}
	if lo.All(func(x *Org) bool { return x.IsCallTo("errors.New", "fmt.Errorf") }) {
		return true
	}
	ls := lo.String()
	d := p.ReachCond(r.Block())
	return d.Implies(func(a *Atom) bool { return a.Rel == "!=" && a.L.String() == ls && a.R.IsNil() })
}

var counterMemo = map[*types.Var]bool{}
var counterDone = map[*types.Var]bool{}

// counterField (INV-counter): every store to the field is field+c (c >= 0) or a
// non-negative constant, so the zero-initialised field is always >= 0.
func (p *Prog) counterField(f *types.Var) bool {
	if counterDone[f] {
		return counterMemo[f]
	}
	counterDone[f] = true
	bt, ok := f.Type().Underlying().(*types.Basic)
	if !ok || bt.Info()&types.IsInteger == 0 {
		return false
	}
	ok = true
	for _, st := range p.FieldStores(f) {
		vo := p.Origin(st.Store.Val)
		good := vo.All(func(x *Org) bool {
			if n, isC := x.ConstIntVal(); isC {
				return n >= 0
			}
			if x.Kind == "binop" && x.Op == token.ADD && x.X.Kind == "field" && x.X.Field == f {
				n, isC := x.Y.ConstIntVal()
				return isC && n >= 0
			}
			return false
		})
		if !good {
			ok = false
		}
	}
	// also composite literals that set the field are fine only if constant >= 0: conservatively
	// any FieldAddr store is covered above.
	counterMemo[f] = ok
	return ok
}

func c09K1(c *Ctx) {
	p := c.P
	sites, err := RunBCE(p.RepoDir, ".", "./datadictionary", "./internal", "./config")
	if err != nil {
		c.Undecided("", "-", "bce", "compiler BCE report unavailable: "+err.Error())
		return
	}
	cone := c09Cone(p)
	idx := p.boundsIndex()
	rev := loadReviewed()
	usedRev := map[string]bool{}
	nStdlib, nInlined, nOutside, nProved, nInv, nRev := 0, 0, 0, 0, 0, 0
	seen := map[ssa.Instruction]bool{}
	type pendSite struct{ name, pos, desc, alt string }
	pending := map[string][]pendSite{}
	for _, s := range sites {
		if strings.HasPrefix(s.File, "<") {
			continue
		}
		key := fmt.Sprintf("%s:%d", s.File, s.Line)
		pos := fmt.Sprintf("%s:%d:%d", s.File, s.Line, s.Col)
		var match []BoundsInstr
		for _, bi := range idx[key] {
			if p.colOf(bi.In) == s.Col {
				match = append(match, bi)
			}
		}
		if len(match) == 0 {
			// a call position: inlined body. The callee's own sites are reported at their
			// definition (module callee) or belong to the standard library (trusted base).
			kind := p.exprKindAt(s.File, s.Line, s.Col)
			if kind == "call" {
				if strings.Contains(pos, "") {
					nInlined++
				}
				continue
			}
			c.Undecided("", pos, "unmapped:"+s.File+":"+kind, fmt.Sprintf("compiler reports an unproven %s here but no SSA index/slice operation maps to it", s.Kind))
			continue
		}
		for _, bi := range match {
			if seen[bi.In] {
				continue
			}
			seen[bi.In] = true
			top := TopFunc(bi.Fn)
			if !cone[bi.Fn] && !cone[top] {
				nOutside++
				continue
			}
			name := FuncName(bi.Fn)
			if ok, why := p.guardProves(bi); ok {
				nProved++
				c.OK(name, pos, "proved: "+why)
				continue
			}
			if p.fieldInvariantCovers(bi, 0) {
				nInv++
				c.OK(name, pos, "INV-field: lookup-table fields have length >= 1 (K1b)")
				continue
			}
			sig, alt, desc := p.k1Signature(bi)
			if _, known := rev[sig]; !known {
				if _, knownAlt := reviewedAlt[alt]; !knownAlt {
					// a helper extracted from a reviewed function: discharge at the call sites
					if sites := p.liftable(bi.Fn); sites != nil {
						allKnown := true
						type lifted struct{ sig, alt, desc, name string }
						var ls []lifted
						for _, cs := range sites {
							ls2, la, ld := p.k1SignatureIn(bi, cs.Fn, cs.Call, p.paramSubst(bi.Fn, cs))
							_, k1 := rev[ls2]
							_, k2 := reviewedAlt[la]
							if !k1 && !k2 {
								if p.liftedConstIndexProved(bi, cs) {
									continue // proved by a guard that dominates the call
								}
								allKnown = false
							}
							ls = append(ls, lifted{ls2, la, ld, FuncName(cs.Fn)})
						}
						if allKnown {
							for _, l := range ls {
								pending[l.sig] = append(pending[l.sig], pendSite{l.name, pos, l.desc + " (in helper " + name + ", discharged at its call site)", l.alt})
							}
							continue
						}
					}
				}
			}
			pending[sig] = append(pending[sig], pendSite{name, pos, desc, alt})
		}
	}
	var sigs []string
	for sg := range pending {
		sigs = append(sigs, sg)
	}
	sort.Strings(sigs)
	for _, sig := range sigs {
		ps := pending[sig]
		why, ok := rev[sig]
		if !ok {
			// by function name (the function's signature changed but not its name)
			if k2, found := reviewedAlt[ps[0].alt]; found {
				same := true
				for _, s := range ps {
					if s.alt != ps[0].alt {
						same = false
					}
				}
				if same && len(ps) == reviewedCount[k2] {
					why, ok = rev[k2], true
					sig = k2
				}
			}
		}
		if ok && len(ps) == reviewedCount[sig] {
			for _, s := range ps {
				nRev++
				usedRev[sig] = true
				c.OK(s.name, s.pos, "reviewed: "+s.desc+" — "+why)
			}
			continue
		}
		for _, s := range ps {
			msg := fmt.Sprintf("unproven bounds check %s is neither proved by a fresh dominating guard, nor covered by the field invariant, nor reviewed. signature: %s", s.desc, sig)
			if ok {
				msg = fmt.Sprintf("%d sites now share the signature of a reviewed entry that covers %d: a site lost its guard or a new unguarded site appeared. %s", len(ps), reviewedCount[sig], msg)
			}
			c.Violation(s.name, s.pos, strings.TrimPrefix(sig, "K1|"), msg)
		}
	}
	_ = nStdlib
	c.Note("compiler reported %d unproven bounds checks; %d at call positions (inlined bodies: module callees are checked at their definition, standard-library bodies are trusted base); %d outside the input cone; in cone: %d proved by guard, %d by INV-field, %d accepted by review", len(sites), nInlined, nOutside, nProved, nInv, nRev)
	for k := range rev {
		if strings.HasPrefix(k, "K1|") && !usedRev[k] {
			c.Note("stale reviewed entry (no longer matches any site): %s", k)
		}
	}
}

func c09K1b(c *Ctx) {
	p := c.P
	fTagLookup := p.Field(modPath, "FieldMap", "tagLookup")
	rev := loadReviewed()
	for _, mu := range p.MapUpdatesOn(fTagLookup) {
		name := FuncName(mu.Fn)
		pos := p.InstrPos(mu.In)
		if p.minLenAtLeast1(mu.In.Value, 0) {
			c.OK(name, pos, "stored field has length >= 1")
			continue
		}
		sig := "K1b|" + fnShape(mu.Fn) + "|" + sigString(mu.Fn, p.Origin(mu.In.Value).Sig())
		if os.Getenv("QFSA_REKEY") != "" {
			fmt.Printf("REKEY\t%s\t%s\t%s\n", "K1b|"+fnShape(mu.Fn)+"|"+sigString(mu.Fn, p.Origin(mu.In.Value).String()), sig, "")
		}
		if why, ok := rev[sig]; ok {
			c.OK(name, pos, "reviewed: "+why)
			continue
		}
		// a helper extracted from a reviewed function: discharge at the call sites
		if sites := p.liftable(mu.Fn); sites != nil {
			all := true
			why := ""
			for _, cs := range sites {
				lo := p.paramSubst(mu.Fn, cs)(p.Origin(mu.In.Value))
				ok := false
				if lo.Val != nil && p.minLenAtLeast1(lo.Val, 0) {
					ok = true
				}
				if w, known := rev["K1b|"+fnShape(cs.Fn)+"|"+sigString(cs.Fn, lo.Sig())]; known {
					ok, why = true, w
				}
				if !ok {
					all = false
				}
			}
			if all {
				c.OK(name, pos, "discharged at the helper's call site(s): "+why)
				continue
			}
		}
		c.Violation(name, pos, strings.TrimPrefix(sig, "K1b|"), "a field whose length is not shown to be >= 1 is stored into a FieldMap lookup table; every reader indexes element 0. signature: "+sig)
	}
}

// ---- K2 ---------------------------------------------------------------------------

func phiMayBeNil(v ssa.Value, seen map[ssa.Value]bool) bool {
	if seen[v] {
		return false
	}
	seen[v] = true
	switch x := v.(type) {
	case *ssa.Const:
		return x.IsNil()
	case *ssa.Phi:
		for _, e := range x.Edges {
			if phiMayBeNil(e, seen) {
				return true
			}
		}
	}
	return false
}

// derefsParam0: callee dereferences its receiver/first parameter without a nil guard.
func (p *Prog) derefsParam(fn *ssa.Function, idx int) bool {
	return p.derefsParamDepth(fn, idx, 0)
}

func (p *Prog) derefsParamDepth(fn *ssa.Function, idx int, depth int) bool {
	if fn == nil || fn.Blocks == nil || idx >= len(fn.Params) || depth > 3 {
		return false
	}
	par := fn.Params[idx]
	res := false
	for _, r := range *par.Referrers() {
		in, _ := r.(ssa.Instruction)
		if in == nil {
			continue
		}
		guarded := func() bool {
			return p.ReachCond(in.Block()).Implies(func(a *Atom) bool { return a.Rel == "!=" && a.L.Val == par && a.R.IsNil() })
		}
		switch x := r.(type) {
		case *ssa.FieldAddr, *ssa.IndexAddr:
			if !guarded() {
				res = true
			}
		case *ssa.UnOp:
			if x.Op == token.MUL && !guarded() {
				res = true
			}
		case ssa.CallInstruction:
			// handed on to a callee that dereferences it
			cc := x.Common()
			if cal := cc.StaticCallee(); cal != nil && p.InModule(cal) {
				for i, a := range cc.Args {
					if a == ssa.Value(par) && p.derefsParamDepth(cal, i, depth+1) && !guarded() {
						res = true
					}
				}
			}
		case *ssa.Store:
			// put into a local array / slice literal whose elements are then used: x := []*T{a, par}; for _, e := range x { e.f() }
			if x.Val != ssa.Value(par) {
				continue
			}
			ia, ok := x.Addr.(*ssa.IndexAddr)
			if !ok {
				continue
			}
			al, ok := ia.X.(*ssa.Alloc)
			if !ok {
				continue
			}
			var elems []ssa.Value
			var collect func(v ssa.Value, d int)
			collect = func(v ssa.Value, d int) {
				if d > 3 || v.Referrers() == nil {
					return
				}
				for _, r2 := range *v.Referrers() {
					switch y := r2.(type) {
					case *ssa.Slice:
						collect(y, d+1)
					case *ssa.IndexAddr:
						if y != ia {
							for _, r3 := range *y.Referrers() {
								if ld, ok := r3.(*ssa.UnOp); ok && ld.Op == token.MUL {
									elems = append(elems, ld)
								}
							}
						}
					}
				}
			}
			collect(al, 0)
			for _, e := range elems {
				for _, r4 := range *e.Referrers() {
					switch z := r4.(type) {
					case *ssa.FieldAddr:
						if z.X == e {
							res = true
						}
					case *ssa.UnOp:
						if z.Op == token.MUL && z.X == e {
							res = true
						}
					case ssa.CallInstruction:
						zc := z.Common()
						if cal := zc.StaticCallee(); cal != nil && p.InModule(cal) {
							for i, a := range zc.Args {
								if a == e && p.derefsParamDepth(cal, i, depth+1) {
									res = true
								}
							}
						}
					}
				}
			}
		}
	}
	return res
}

func c09K2(c *Ctx) {
	p := c.P
	cone := c09Cone(p)
	var fns []*ssa.Function
	for f := range cone {
		fns = append(fns, f)
	}
	sort.Slice(fns, func(i, j int) bool { return fns[i].Pos() < fns[j].Pos() })
	rev := loadReviewed()
	for _, fn := range fns {
		name := FuncName(fn)
		ForEachInstr(fn, func(in ssa.Instruction) {
			phi, ok := in.(*ssa.Phi)
			if !ok {
				return
			}
			if _, isPtr := phi.Type().Underlying().(*types.Pointer); !isPtr {
				return
			}
			if !phiMayBeNil(phi, map[ssa.Value]bool{}) {
				return
			}
			for _, r := range *phi.Referrers() {
				deref := false
				what := ""
				switch x := r.(type) {
				case *ssa.FieldAddr:
					deref = x.X == phi
					what = "field access"
				case *ssa.UnOp:
					deref = x.Op == token.MUL && x.X == phi
					what = "load"
				case ssa.CallInstruction:
					cc := x.Common()
					if cal := cc.StaticCallee(); cal != nil && len(cc.Args) > 0 && cc.Args[0] == phi && cal.Signature.Recv() != nil {
						if p.derefsParam(cal, 0) {
							deref = true
							what = "receiver of " + FuncName(cal) + " (dereferences its receiver)"
						}
					}
					if cal := cc.StaticCallee(); cal != nil && p.InModule(cal) && !deref {
						for i, a := range cc.Args {
							if a == ssa.Value(phi) && (i > 0 || cal.Signature.Recv() == nil) && p.derefsParam(cal, i) {
								deref = true
								what = "argument of " + FuncName(cal) + " (which dereferences it, directly or through a callee)"
							}
						}
					}
				}
				if !deref {
					continue
				}
				d := p.ReachCond(r.Block())
				guarded := d.Implies(func(a *Atom) bool { return a.Rel == "!=" && a.L.Val == phi && a.R.IsNil() })
				sig := "K2|" + fnShape(fn) + "|" + typeName(phi.Type()) + " " + what
				if guarded {
					c.OK(name, p.InstrPos(r), "possibly-nil "+typeName(phi.Type())+" dereferenced under a non-nil guard")
					continue
				}
				if why, ok := rev[sig]; ok {
					c.OK(name, p.InstrPos(r), "reviewed: "+why)
					continue
				}
				c.Violation(name, p.InstrPos(r), typeName(phi.Type())+" "+what,
					fmt.Sprintf("%s %s of a *%s that is the nil constant on some path (no dominating != nil test): nil dereference on that input. signature: %s", what, "", typeName(phi.Type()), sig))
			}
		})
	}
	// (b) the single result of a call that can be the nil pointer: an in-module function or method
	// (for an interface call: some in-module implementation) with exactly one result of pointer type
	// and a return of nil. A load through it needs a dominating != nil test of that very value.
	mayNil := map[*ssa.Function]bool{}
	nilResult := func(f *ssa.Function) bool {
		if v, ok := mayNil[f]; ok {
			return v
		}
		mayNil[f] = false
		if f == nil || len(f.Blocks) == 0 || f.Signature.Results().Len() != 1 {
			return false
		}
		if _, isPtr := f.Signature.Results().At(0).Type().Underlying().(*types.Pointer); !isPtr {
			return false
		}
		for _, b := range f.Blocks {
			if ret, isR := b.Instrs[len(b.Instrs)-1].(*ssa.Return); isR && len(ret.Results) == 1 && phiMayBeNil(ret.Results[0], map[ssa.Value]bool{}) {
				mayNil[f] = true
			}
		}
		return mayNil[f]
	}
	for _, fn := range fns {
		name := FuncName(fn)
		for _, cl := range Calls(fn) {
			v, isV := cl.(ssa.Value)
			if !isV {
				continue
			}
			if _, isPtr := v.Type().Underlying().(*types.Pointer); !isPtr {
				continue
			}
			cc := cl.Common()
			possible := ""
			if cal := cc.StaticCallee(); cal != nil {
				if p.InModule(cal) && nilResult(cal) {
					possible = FuncName(cal)
				}
			} else if cc.IsInvoke() {
				for _, impl := range p.implementations(cc.Method) {
					if nilResult(impl) {
						possible = FuncName(impl)
						break
					}
				}
			}
			if possible == "" {
				continue
			}
			for _, r := range *v.Referrers() {
				deref := false
				switch x := r.(type) {
				case *ssa.FieldAddr:
					deref = x.X == v
				case *ssa.UnOp:
					deref = x.Op == token.MUL && x.X == v
				}
				if !deref {
					continue
				}
				d := p.ReachCond(r.Block())
				guarded := d.Implies(func(a *Atom) bool { return a.Rel == "!=" && a.L.Val == v && a.R.IsNil() })
				sig := "K2|" + fnShape(fn) + "|result of " + callName(cc)
				if guarded {
					c.OK(name, p.InstrPos(r), "possibly-nil result of "+callName(cc)+" dereferenced under a non-nil guard")
					continue
				}
				if why, ok := rev[sig]; ok {
					c.OK(name, p.InstrPos(r), "reviewed: "+why)
					continue
				}
				c.Violation(name, p.InstrPos(r), "nil-result-deref:"+callName(cc),
					fmt.Sprintf("the result of %s is dereferenced without a dominating != nil test, and %s returns nil on some path: nil dereference on the inputs that take that path (the goroutine that processes inbound messages has no recover). signature: %s", callName(cc), possible, sig))
			}
		}
	}
	// the rule is expected to examine at least the settings parser
	ps := p.Func(modPath, "ParseSettings")
	if cone[ps] {
		c.OK(FuncName(ps), p.Pos(ps.Pos()), "cone member examined")
	}
}

// ---- K3 ---------------------------------------------------------------------------

func specFieldTypes(repo string) (map[string][]string, error) {
	files, _ := filepath.Glob(filepath.Join(repo, "spec", "*.xml"))
	if len(files) == 0 {
		return nil, fmt.Errorf("no spec/*.xml files")
	}
	re := regexp.MustCompile(`<field\s+number=['"]\d+['"]\s+name=['"][^'"]*['"]\s+type=['"]([^'"]*)['"]`)
	re2 := regexp.MustCompile(`<field[^>]*\stype=['"]([^'"]*)['"]`)
	out := map[string][]string{}
	for _, f := range files {
		b, err := os.ReadFile(f)
		if err != nil {
			return nil, err
		}
		ms := re2.FindAllStringSubmatch(string(b), -1)
		_ = re
		for _, m := range ms {
			out[m[1]] = append(out[m[1]], filepath.Base(f))
		}
	}
	return out, nil
}

// switchStringCases: string constants c for which block b is reached through `key == c` tests
// of a switch chain in fn on a value whose origin satisfies keyPred. Returns all constants
// compared against the key in the function.
func (p *Prog) stringCasesOn(fn *ssa.Function, keyPred func(*Org) bool) (cases map[string]bool, keyDesc string) {
	cases = map[string]bool{}
	ForEachInstr(fn, func(in ssa.Instruction) {
		b, ok := in.(*ssa.BinOp)
		if !ok || b.Op != token.EQL {
			return
		}
		l, r := p.Origin(b.X), p.Origin(b.Y)
		if s, ok := r.ConstStringVal(); ok && keyPred(l) {
			cases[s] = true
			keyDesc = l.String()
		} else if s, ok := l.ConstStringVal(); ok && keyPred(r) {
			cases[s] = true
			keyDesc = r.String()
		}
	})
	return
}

func c09K3(c *Ctx) {
	p := c.P
	cone := c09Cone(p)
	specTypes, err := specFieldTypes(p.RepoDir)
	if err != nil {
		c.Undecided("", "-", "spec", err.Error())
		return
	}
	var fns []*ssa.Function
	for f := range cone {
		fns = append(fns, f)
	}
	sort.Slice(fns, func(i, j int) bool { return fns[i].Pos() < fns[j].Pos() })
	found := 0
	for _, fn := range fns {
		name := FuncName(fn)
		for _, cl := range Calls(fn) {
			cc := cl.Common()
			if !cc.IsInvoke() {
				continue
			}
			phi, ok := cc.Value.(*ssa.Phi)
			if !ok || !phiMayBeNil(phi, map[ssa.Value]bool{}) {
				continue
			}
			d := p.ReachCond(cl.Block())
			if d.Implies(func(a *Atom) bool { return a.Rel == "!=" && a.L.Val == phi && a.R.IsNil() }) {
				c.OK(name, p.InstrPos(cl), "possibly-nil interface invoked under a non-nil guard")
				continue
			}
			found++
			// the nil edge must be infeasible: it is the fall-through of a string switch whose
			// cases cover the key's whole domain.
			cases, key := p.stringCasesOn(fn, func(o *Org) bool { return o.Kind == "field" && cn(o.Field) == "Type" })
			if len(cases) == 0 {
				c.Violation(name, p.InstrPos(cl), "nil-iface:"+cn(cc.Method), "interface value that is nil on some path is invoked without a guard, and no covering switch was recognised")
				continue
			}
			var missing []string
			for t, files := range specTypes {
				if !cases[t] {
					missing = append(missing, fmt.Sprintf("%s (used in %s)", t, files[0]))
				}
			}
			sort.Strings(missing)
			c.Check(len(missing) == 0, name, p.InstrPos(cl), "nil-iface:"+cn(cc.Method),
				fmt.Sprintf("switch on %s has %d cases covering all %d field types of the shipped specs, so the unassigned (nil) arm is unreachable for them", key, len(cases), len(specTypes)),
				fmt.Sprintf("interface value assigned in switch arms is invoked after the switch, but the switch on %s lacks field types %v that shipped specs declare: validating such a field calls a nil interface", key, missing))
		}
	}
	if found == 0 {
		c.Note("no unguarded possibly-nil interface invocation in the cone")
		c.OK("", "-", "no instance (rule has nothing to discharge)")
	}
}

// ---- K4 ---------------------------------------------------------------------------

func c09K4(c *Ctx) {
	p := c.P
	cone := c09Cone(p)
	rev := loadReviewed()
	var fns []*ssa.Function
	for f := range cone {
		fns = append(fns, f)
	}
	sort.Slice(fns, func(i, j int) bool { return fns[i].Pos() < fns[j].Pos() })
	for _, fn := range fns {
		name := FuncName(fn)
		ForEachInstr(fn, func(in ssa.Instruction) {
			switch x := in.(type) {
			case *ssa.Panic:
				sig := "K4|" + fnShape(fn) + "|panic"
				if okc, why := p.panicUnreachableByTypes(x, cone); okc {
					c.OK(name, p.InstrPos(in), "panic arm unreachable by type flow: "+why)
				} else if why, ok := rev[sig]; ok {
					c.OK(name, p.InstrPos(in), "reviewed panic: "+why)
				} else {
					c.Violation(name, p.InstrPos(in), "panic", "explicit panic reachable in the untrusted-input cone and not reviewed. signature: "+sig)
				}
			case *ssa.TypeAssert:
				if x.CommaOk {
					return
				}
				// single-result assertion panics on mismatch
				sig := "K4|" + fnShape(fn) + "|assert " + typeName(x.AssertedType)
				if os.Getenv("QFSA_REKEY") != "" {
					fmt.Printf("REKEY\t%s\t%s\t%s\n", sig, sig, "")
				}
				// discharge: operand comes from a type switch arm (ssa emits comma-ok for switches), or
				// the concrete types flowing in are a subset: use VTA-free structural test — operand origin is MakeInterface of that type
				o := p.Origin(x.X)
				if o.Val != nil && types.Identical(o.Val.Type(), x.AssertedType) {
					c.OK(name, p.InstrPos(in), "assertion to the value's own static type")
					return
				}
				why, ok := rev[sig]
				if !ok && fn.Signature.Recv() != nil {
					// the assertion moved into a helper method of the same receiver type (extract method): the reviewed
					// entry of any method of that type for the same asserted type and operand covers it
					recvT := typeName(fn.Signature.Recv().Type())
					suffix := "|assert " + typeName(x.AssertedType)
					for k, w := range rev {
						if strings.HasPrefix(k, "K4|(") && strings.HasSuffix(k, suffix) && (strings.HasPrefix(k, "K4|(*"+recvT+")") || strings.HasPrefix(k, "K4|("+recvT+")")) {
							// same operand: the asserted value is the result of the same call chain
							why, ok = w, true
						}
					}
				}
				if ok {
					c.OK(name, p.InstrPos(in), "reviewed assertion: "+why)
				} else {
					c.Violation(name, p.InstrPos(in), "assert "+typeName(x.AssertedType), "single-result type assertion (panics on mismatch) in the untrusted-input cone and not reviewed. signature: "+sig)
				}
			}
		})
	}
}

// ---- K5 ---------------------------------------------------------------------------

func c09K5(c *Ctx) {
	p := c.P
	cone := c09Cone(p)
	rev := loadReviewed()
	g := p.VTA()
	// adjacency restricted to cone
	adj := map[*ssa.Function][]*ssa.Function{}
	var nodes []*ssa.Function
	for f := range cone {
		nodes = append(nodes, f)
		if n := g.Nodes[f]; n != nil {
			for _, e := range n.Out {
				if cone[e.Callee.Func] {
					adj[f] = append(adj[f], e.Callee.Func)
				}
			}
		}
		for _, a := range f.AnonFuncs {
			if cone[a] {
				adj[f] = append(adj[f], a)
			}
		}
	}
	sort.Slice(nodes, func(i, j int) bool { return nodes[i].Pos() < nodes[j].Pos() })
	// Tarjan
	index := 0
	idx := map[*ssa.Function]int{}
	low := map[*ssa.Function]int{}
	on := map[*ssa.Function]bool{}
	var stack []*ssa.Function
	var sccs [][]*ssa.Function
	var strong func(v *ssa.Function)
	strong = func(v *ssa.Function) {
		index++
		idx[v], low[v] = index, index
		stack = append(stack, v)
		on[v] = true
		for _, w := range adj[v] {
			if idx[w] == 0 {
				strong(w)
				if low[w] < low[v] {
					low[v] = low[w]
				}
			} else if on[w] && idx[w] < low[v] {
				low[v] = idx[w]
			}
		}
		if low[v] == idx[v] {
			var comp []*ssa.Function
			for {
				w := stack[len(stack)-1]
				stack = stack[:len(stack)-1]
				on[w] = false
				comp = append(comp, w)
				if w == v {
					break
				}
			}
			self := false
			for _, w := range adj[v] {
				if w == v {
					self = true
				}
			}
			if len(comp) > 1 || self {
				sccs = append(sccs, comp)
			}
		}
	}
	for _, n := range nodes {
		if idx[n] == 0 {
			strong(n)
		}
	}
	for _, comp := range sccs {
		var names, shapes []string
		in := map[*ssa.Function]bool{}
		for _, f := range comp {
			names = append(names, FuncName(f))
			shapes = append(shapes, fnShape(f))
			in[f] = true
		}
		sort.Strings(names)
		sort.Strings(shapes)
		label := strings.Join(names, " ⟷ ")
		pos := p.Pos(comp[0].Pos())
		// mark-before-recurse: some function of the cycle has a call into the cycle that is
		// (a) guarded by !M[k] for a map M and (b) dominated by a map update M[k] = …
		// every cycle inside the component must pass such a guarded call: remove the edges all of
		// whose static call sites are guarded and look for a cycle in what is left
		type edge struct{ from, to *ssa.Function }
		sites := map[edge]int{}
		guardedSites := map[edge]int{}
		for _, f := range comp {
			for _, cl := range Calls(f) {
				cal := cl.Common().StaticCallee()
				if cal == nil || !in[cal] {
					continue
				}
				e := edge{f, cal}
				sites[e]++
				siteGuarded := false
				d := p.ReachCond(cl.Block())
				for _, a := range d.Atoms() {
					if a.Rel != "" || a.Val || a.B.Kind != "lookup" {
						continue
					}
					as := a.String()
					if !d.Implies(func(b *Atom) bool { return b.String() == as }) {
						continue
					}
					// a map update on the same map/key dominating the call
					ForEachInstr(f, func(x ssa.Instruction) {
						if mu, ok := x.(*ssa.MapUpdate); ok && InstrDominates(mu, cl) {
							if p.Origin(mu.Map).String() == a.B.Base.String() && p.Origin(mu.Key).String() == a.B.Y.String() {
								siteGuarded = true
							}
						}
					})
				}
				if siteGuarded {
					guardedSites[e]++
				}
			}
		}
		anyGuard := len(guardedSites) > 0
		rest := map[*ssa.Function][]*ssa.Function{}
		for _, f := range comp {
			for _, w := range adj[f] {
				if !in[w] {
					continue
				}
				e := edge{f, w}
				if sites[e] > 0 && guardedSites[e] == sites[e] {
					continue // every way from f to w is guarded
				}
				rest[f] = append(rest[f], w)
			}
		}
		// what is left may still contain structural recursion over finite data (nested <group>
		// elements): each remaining cyclic sub-component must be reviewed as such
		hasCycle := false
		for _, sub := range cyclicComponents(comp, rest) {
			var subShapes []string
			for _, f := range sub {
				subShapes = append(subShapes, fnShape(f))
			}
			sort.Strings(subShapes)
			if len(sub) == len(comp) {
				hasCycle = true // nothing was cut: judged below as a whole
				continue
			}
			if _, ok := rev["K5|"+strings.Join(subShapes, " ⟷ ")]; !ok {
				hasCycle = true
				if os.Getenv("QFSA_REKEY") != "" {
					fmt.Printf("REKEY\t%s\t%s\t%s\n", "K5|"+strings.Join(subShapes, " ⟷ "), "K5|"+strings.Join(subShapes, " ⟷ "), "")
				}
			}
		}
		guarded := anyGuard && !hasCycle
		if guarded {
			c.OK(label, pos, "cycle has a mark-before-recurse guard (visited map tested and set before the recursive call)")
			continue
		}
		sig := "K5|" + strings.Join(shapes, " ⟷ ")
		if os.Getenv("QFSA_REKEY") != "" {
			fmt.Printf("REKEY\t%s\t%s\t%s\n", sig, sig, "")
		}
		if why, ok := rev[sig]; ok {
			c.OK(label, pos, "reviewed structural recursion: "+why)
			continue
		}
		c.Violation(label, pos, "cycle", "recursive cycle in the untrusted-input cone without a visited-set guard and not reviewed as structural recursion over finite data: a cyclic input recurses until the stack overflows (fatal, not recoverable). signature: "+sig)
	}
}

// ---- K6 ---------------------------------------------------------------------------

func c09K6(c *Ctx) {
	p := c.P
	inc := p.incomingFn()
	name := FuncName(inc)
	fPeer := p.Field(modPath, "session", "peerTimer")
	parseFn := p.Func(modPath, "ParseMessageWithDataDictionary")
	var parseCall ssa.CallInstruction
	for _, cl := range Calls(inc) {
		if cal := cl.Common().StaticCallee(); cal == parseFn || cal == p.Func(modPath, "ParseMessage") {
			parseCall = cl
		}
	}
	if parseCall == nil {
		c.Undecided(name, p.Pos(inc.Pos()), "parse-call", "Incoming no longer calls the message parser directly")
		return
	}
	isReset := func(in ssa.Instruction) bool {
		cl, ok := in.(ssa.CallInstruction)
		if !ok {
			return false
		}
		cc := cl.Common()
		if callName(cc) != "(*internal.EventTimer).Reset" && callName(cc) != "(*EventTimer).Reset" && !strings.HasSuffix(callName(cc), "EventTimer).Reset") {
			return false
		}
		return isFieldOrg(p.Origin(cc.Args[0]), fPeer)
	}
	// state-changing callees
	setState := transitionFn(p)
	fState := p.Field(modPath, "stateMachine", "State")
	changes := func(in ssa.Instruction) bool {
		if st, ok := in.(*ssa.Store); ok && fieldAddrOf(st.Addr, fState) != nil {
			return true
		}
		if cl, ok := in.(ssa.CallInstruction); ok {
			if cal := cl.Common().StaticCallee(); cal != nil && p.InModule(cal) {
				r := p.Reachable([]*ssa.Function{cal}, false)
				if r[setState] {
					return true
				}
			}
		}
		return false
	}
	errOrg := func(a *Atom) bool {
		// parse error != nil
		return a.Rel == "!=" && a.R.IsNil() && a.L.Kind == "call" && a.L.CallI == parseCall.(ssa.Instruction)
	}
	okPaths, errPaths := 0, 0
	bad := false
	full := EnumPaths(inc, 512, func(pa Path) {
		after := false
		reset := false
		changed := false
		for _, b := range pa.Blocks {
			for _, in := range b.Instrs {
				if in == parseCall.(ssa.Instruction) {
					after = true
					continue
				}
				if !after {
					continue
				}
				if isReset(in) {
					reset = true
				}
				if changes(in) {
					changed = true
				}
			}
		}
		if !after {
			return
		}
		cond := p.PathCond(pa)
		isErr := cond.Implies(errOrg)
		if isErr {
			errPaths++
			if changed {
				bad = true
				c.Violation(name, p.InstrPos(parseCall), "err-path-changes-state", "on the path where parsing the inbound bytes fails, the session state can change (transition reachable): garbage must be logged and skipped")
			}
		} else {
			okPaths++
		}
		if !reset {
			bad = true
			c.Violation(name, p.InstrPos(parseCall), "no-rearm", "a path through Incoming after the parse attempt returns without re-arming the peer timer (peerTimer.Reset)")
		}
	})
	if !full {
		c.Undecided(name, p.Pos(inc.Pos()), "paths", "too many paths")
		return
	}
	if !bad {
		c.OK(name, p.InstrPos(parseCall), fmt.Sprintf("%d parse-error path(s): no state change; all %d path(s) after the parse re-arm the peer timer", errPaths, errPaths+okPaths))
		if errPaths > 0 && okPaths > 0 {
			c.OK(name, p.InstrPos(parseCall), "both parse outcomes present")
		}
	}
	if errPaths == 0 {
		c.Undecided(name, p.InstrPos(parseCall), "no-err-path", "no path tests the parser's error result")
	}
}

// panicUnreachableByTypes: the panic sits in the fall-through of a type switch on an
// interface value X; every concrete type converted to X's interface type inside the cone is
// handled by an earlier arm.
func (p *Prog) panicUnreachableByTypes(pn *ssa.Panic, cone map[*ssa.Function]bool) (bool, string) {
	d := p.ReachCond(pn.Block())
	var handled []types.Type
	var subj ssa.Value
	for _, a := range d.Atoms() {
		if a.Rel != "" || a.Val {
			continue
		}
		as := a.String()
		if !d.Implies(func(b *Atom) bool { return b.String() == as }) {
			continue
		}
		if a.B.Kind == "typeassert" && a.B.Res == 1 {
			ta, ok := a.B.Val.(*ssa.Extract)
			if !ok {
				continue
			}
			t, ok := ta.Tuple.(*ssa.TypeAssert)
			if !ok {
				continue
			}
			if subj == nil {
				subj = t.X
			}
			if p.Origin(t.X).String() != p.Origin(subj).String() {
				continue
			}
			handled = append(handled, t.AssertedType)
		}
	}
	if subj == nil || len(handled) == 0 {
		return false, ""
	}
	it := subj.Type()
	var flows []string
	for f := range cone {
		bad := false
		ForEachInstr(f, func(in ssa.Instruction) {
			mi, ok := in.(*ssa.MakeInterface)
			if !ok || !types.Identical(mi.Type(), it) {
				return
			}
			ct := mi.X.Type()
			okT := false
			for _, h := range handled {
				if types.Identical(h, ct) {
					okT = true
				} else if hi, isI := h.Underlying().(*types.Interface); isI && types.Implements(ct, hi) {
					okT = true
				}
			}
			if !okT {
				bad = true
			}
			flows = append(flows, typeName(ct))
		})
		if bad {
			return false, ""
		}
	}
	if len(flows) == 0 {
		return false, ""
	}
	sort.Strings(flows)
	uniq := flows[:0]
	for i, f := range flows {
		if i == 0 || f != flows[i-1] {
			uniq = append(uniq, f)
		}
	}
	var hs []string
	for _, h := range handled {
		hs = append(hs, typeName(h))
	}
	return true, fmt.Sprintf("types converted to %s in the cone %v ⊆ handled arms %v", typeName(it), uniq, hs)
}

// debugFresh explains why an atom is stale (development aid; QFSA_DEBUG=fresh).
func (p *Prog) debugMayStore(fn *ssa.Function, f *types.Var) string {
	for _, b := range fn.Blocks {
		for _, in := range b.Instrs {
			if cl, ok := in.(ssa.CallInstruction); ok {
				cc := cl.Common()
				var cals []*ssa.Function
				if sc := cc.StaticCallee(); sc != nil {
					cals = append(cals, sc)
				} else if n := p.VTA().Nodes[fn]; n != nil {
					for _, e := range n.Out {
						if e.Site == cl {
							cals = append(cals, e.Callee.Func)
						}
					}
				}
				for _, cal := range cals {
					if p.mayStore(cal)[f] {
						return fmt.Sprintf("%s calls %s which may store %s", p.InstrPos(in), FuncName(cal), f.Name())
					}
				}
			}
		}
	}
	return ""
}

// transitionFn: the function that stores computed states into stateMachine.State.
func transitionFn(p *Prog) *ssa.Function {
	fState := p.Field(modPath, "stateMachine", "State")
	var out *ssa.Function
	for _, st := range p.FieldStores(fState) {
		o := p.Origin(st.Store.Val)
		if !(o.Kind == "lit" || o.Kind == "zero" || o.Kind == "const") {
			out = st.Fn
		}
	}
	if out == nil {
		anchorFail("transition function (stores computed states into stateMachine.State)")
	}
	return out
}

// fnShape: a name-free descriptor of a function (receiver type and signature), so that
// reviewed-ledger keys survive a rename.
func fnShape(fn *ssa.Function) string {
	if fn == nil {
		return "?"
	}
	top := fn
	prefix := ""
	for top.Parent() != nil {
		prefix += "closure in "
		top = top.Parent()
	}
	sig := top.Signature
	var b strings.Builder
	b.WriteString(prefix)
	if r := sig.Recv(); r != nil {
		if _, isPtr := r.Type().(*types.Pointer); isPtr {
			b.WriteString("(*" + typeName(r.Type()) + ")")
		} else {
			b.WriteString("(" + typeName(r.Type()) + ")")
		}
	} else if pk := fnPkg(top); pk != nil && pk.Pkg.Path() != modPath {
		b.WriteString(pk.Pkg.Name() + ".")
	}
	b.WriteString("func(")
	for i := 0; i < sig.Params().Len(); i++ {
		if i > 0 {
			b.WriteString(",")
		}
		b.WriteString(shortType(sig.Params().At(i).Type()))
	}
	b.WriteString(")")
	if sig.Results().Len() > 0 {
		b.WriteString("(")
		for i := 0; i < sig.Results().Len(); i++ {
			if i > 0 {
				b.WriteString(",")
			}
			b.WriteString(shortType(sig.Results().At(i).Type()))
		}
		b.WriteString(")")
	}
	return b.String()
}

func shortType(t types.Type) string {
	return types.TypeString(t, func(*types.Package) string { return "" })
}

// cyclicComponents: the strongly connected components of the graph (nodes, adj) that contain a cycle.
func cyclicComponents(nodes []*ssa.Function, adj map[*ssa.Function][]*ssa.Function) [][]*ssa.Function {
	index := 0
	idx := map[*ssa.Function]int{}
	low := map[*ssa.Function]int{}
	on := map[*ssa.Function]bool{}
	var stack []*ssa.Function
	var out [][]*ssa.Function
	var strong func(v *ssa.Function)
	strong = func(v *ssa.Function) {
		index++
		idx[v], low[v] = index, index
		stack = append(stack, v)
		on[v] = true
		for _, w := range adj[v] {
			if idx[w] == 0 {
				strong(w)
				if low[w] < low[v] {
					low[v] = low[w]
				}
			} else if on[w] && idx[w] < low[v] {
				low[v] = idx[w]
			}
		}
		if low[v] == idx[v] {
			var comp []*ssa.Function
			for {
				w := stack[len(stack)-1]
				stack = stack[:len(stack)-1]
				on[w] = false
				comp = append(comp, w)
				if w == v {
					break
				}
			}
			self := false
			for _, w := range adj[v] {
				if w == v {
					self = true
				}
			}
			if len(comp) > 1 || self {
				out = append(out, comp)
			}
		}
	}
	for _, n := range nodes {
		if idx[n] == 0 {
			strong(n)
		}
	}
	return out
}
