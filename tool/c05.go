package main

import (
	"fmt"
	"sort"
	"strings"

	"golang.org/x/tools/go/ssa"
)

func init() { register("C05", propC05) }

func propC05() Property {
	return Property{
		ID: "C05",
		Explanation: "The end-to-end property composes fault sequences of two engines; no static argument bounds it. One necessary condition is structural and invisible to tests that script the peer: what this engine EMITS during recovery must satisfy what this engine's own RECEIVER demands, because the peer is the same code. " +
			"R1 (infinity markers): every (BeginString class, EndSeqNo marker) pair the ResendRequest builder can emit is accepted as 'to the end' by the ResendRequest handler's clip guard. R2 (replay stamping): every header tag whose absence makes the too-low/PossDup gate reject a replay is set by the replay stamper; every tag the SequenceReset handler reads is set by the gap-fill builder. " +
			"R3 (persist regardless of link): the application-side send path reaches the numbering/persist step with no connected/logged-on guard on the way (messages sent while disconnected are numbered and stored for later replay), and functions that drop the send queue mutate the store only in the tabulated drop-and-reset. R4 and R5 are the two per-engine rules the two-engine argument leans on most directly, shared with C01 and C17: the receiver's expected number advances exactly once and only after the too-high/too-low gate accepted the message (a second advance skips a message that is then discarded as too-low and never delivered), and the file store appends the message at the end of the body file and indexes that offset (otherwise a store reopened after an engine restart overwrites old messages and a later replay sends bytes that were never sent in that slot). R6 (shared with C03): the gap fills of a replay are bound to the right numbers, placed before the message that follows the skipped ones, and the tail gap fill ends at a cursor the replay callback advances past every message it dealt with. R7 (shared with C02): the send queue is only appended to, emptied, or cut at the index whose send failed — a queued ResendRequest is never dropped by a failed non-blocking send. R8 (shared with C12): a frame handed to the session is a copy, never a view of the read buffer that later reads overwrite while the message waits in the stash. R9: the connection's write loop returns only when the outbound channel has been closed (the session sends to it with blocking sends while holding its locks). R10 (shared with C02): numbering, persisting and queueing happen in one critical section.",
		NotDecided: "everything else in C05: delivery exactly once and in order across connection drops, engine restarts, heartbeat timing. Evidence states this verbatim; the claim is this narrow emit/accept agreement only.",
		Rules: []RuleDef{
			{ID: "C05-R1", Desc: "emitted infinity markers ⊆ accepted infinity markers", Min: 2, Run: c05R1},
			{ID: "C05-R2", Desc: "tags required of a replay ⊆ tags stamped on a replay", Min: 2, Run: c05R2},
			{ID: "C05-R3", Desc: "numbering/persisting independent of the link state", Min: 3, Run: c05R3},
			{ID: "C05-R4", Desc: "receiver advances exactly once after a gated acceptance (= C01-R2)", Min: 4, Run: c01R2},
			{ID: "C05-R5", Desc: "what is persisted for replay is where the index says it is (= C17-R2)", Min: 3, Run: c17R2},
			{ID: "C05-R6", Desc: "a replay covers the requested range: gap-fill binding, placement and tail cursor (= C03-R5)", Min: 10, Run: c03R5},
			{ID: "C05-R7", Desc: "nothing queued for sending is dropped: FIFO queue shape (= C02-R4)", Min: 5, Run: c02R4},
			{ID: "C05-R8", Desc: "frames handed to the session do not alias the read buffer (= C12-R2)", Min: 5, Run: c12R2},
			{ID: "C05-R9", Desc: "the write loop drains the outbound channel until it is closed", Min: 1, Run: c05R9},
			{ID: "C05-R13", Desc: "a received ResetSeqNumFlag resets only when it is Y and no reset was sent (= C07-R3)", Min: 4, Run: c07R3},
			{ID: "C05-R12", Desc: "a silent link is detected: the peer timer is re-armed after the TestRequest (= C20-R2/R3)", Min: 3, Run: func(c *Ctx) { c20R2(c); c20R3(c) }},
			{ID: "C05-R11", Desc: "a replayed message carries its stored body bytes and number (= C03-R4)", Min: 3, Run: c03R4},
			{ID: "C05-R10", Desc: "numbering, persisting and queueing are one critical section (= C02-R1)", Min: 8, Run: c02R1},
		},
	}
}

func c05R1(c *Ctx) {
	p := c.P
	fBegin := p.Field(modPath, "SessionID", "BeginString")
	t16 := p.Tag("tagEndSeqNo")
	// emitter: constants stored into EndSeqNo(16) of a ResendRequest, with their BeginString guard
	type pair struct {
		marker int64
		rel    string // "<FIX.4.2" or ">=FIX.4.2"
	}
	var emitted []pair
	var builder *ssa.Function
	for _, fn := range p.FuncsIn(modPath) {
		if len(p.setTagCalls(fn, p.Tag("tagBeginSeqNo"))) == 0 {
			continue
		}
		for _, st := range p.setTagCalls(fn, t16) {
			phi, ok := stripConv(st.val).(*ssa.Phi)
			if !ok {
				continue
			}
			builder = fn
			for i, e := range phi.Edges {
				n, isC := constIntOf(e)
				if !isC {
					continue
				}
				d := p.ReachCond(phi.Block().Preds[i])
				rel := "?"
				if d.Implies(func(a *Atom) bool {
					return a.Rel == "<" && a.L.Kind == "field" && a.L.Field == fBegin && constStr(a.R) == "FIX.4.2"
				}) {
					rel = "<FIX.4.2"
				} else if d.Implies(func(a *Atom) bool {
					return a.Rel == "<=" && a.R.Kind == "field" && a.R.Field == fBegin && constStr(a.L) == "FIX.4.2"
				}) {
					rel = ">=FIX.4.2"
				} else if d.Implies(func(a *Atom) bool {
					return a.Rel == "<=" && a.L.Kind == "field" && a.L.Field == fBegin && constStr(a.R) == "FIX.4.2"
				}) {
					rel = "<=FIX.4.2"
				} else if d.Implies(func(a *Atom) bool {
					return a.Rel == "<" && a.R.Kind == "field" && a.R.Field == fBegin && constStr(a.L) == "FIX.4.2"
				}) {
					rel = ">FIX.4.2"
				}
				emitted = append(emitted, pair{n, rel})
			}
		}
	}
	if builder == nil || len(emitted) == 0 {
		c.Undecided("", "-", "no-emitter", "ResendRequest builder with constant infinity markers not found")
		return
	}
	// receiver: the clip guard's disjuncts
	replay, _, _ := findReplay(p)
	accepted := map[int64][]string{} // marker -> version relations accepted
	for _, cs := range p.CallsTo(replay) {
		end, ok := cs.Common().Args[3].(*ssa.Phi)
		if !ok {
			continue
		}
		for i, e := range end.Edges {
			eo := p.Origin(e)
			if eo.Kind != "binop" {
				continue
			}
			pred := end.Block().Preds[i]
			d := dnfAnd(p.ReachCond(pred), edgeCond(p, pred, end.Block()))
			for _, cj := range d.Cs {
				var m int64 = -1
				rel := ""
				for _, a := range cj {
					if a.Rel == "==" {
						if n, ok := a.R.ConstIntVal(); ok {
							m = n
						}
					}
					if a.Rel == "<=" && constStr(a.L) == "FIX.4.2" && a.R.Kind == "field" && a.R.Field == fBegin {
						rel = ">=FIX.4.2"
					}
					if a.Rel == "<=" && a.L.Kind == "field" && a.L.Field == fBegin && constStr(a.R) == "FIX.4.2" {
						rel = "<=FIX.4.2"
					}
				}
				if m >= 0 && rel != "" {
					accepted[m] = append(accepted[m], rel)
				}
			}
		}
	}
	implies := func(emit, acc string) bool {
		if emit == acc {
			return true
		}
		return emit == "<FIX.4.2" && acc == "<=FIX.4.2" || emit == ">FIX.4.2" && acc == ">=FIX.4.2"
	}
	for _, e := range emitted {
		ok := false
		for _, a := range accepted[e.marker] {
			if implies(e.rel, a) {
				ok = true
			}
		}
		c.Check(ok, FuncName(builder), p.Pos(builder.Pos()), fmt.Sprintf("marker-%d", e.marker),
			fmt.Sprintf("emitted (EndSeqNo=%d when BeginString %s) is accepted as infinity by the handler (%v)", e.marker, e.rel, accepted[e.marker]),
			fmt.Sprintf("this engine emits EndSeqNo=%d when BeginString %s, but its own ResendRequest handler treats %d as infinity only when BeginString %v: two QuickFIX/Go engines would replay nothing (or a wrong range) to each other after a gap", e.marker, e.rel, e.marker, accepted[e.marker]))
	}
}

// tagsRequiredBy: constant tags t for which fn has a path `!Has(t)` / GetField(t) error that leads to a reject or logout.
func (p *Prog) tagsTestedIn(fn *ssa.Function) map[int64]bool {
	out := map[int64]bool{}
	for _, cl := range Calls(fn) {
		n := callName(cl.Common())
		switch n {
		case "(FieldMap).Has", "(FieldMap).GetField", "(FieldMap).GetInt", "(FieldMap).GetBool", "(FieldMap).GetTime", "(FieldMap).GetBytes", "(FieldMap).GetString":
			if v, ok := constIntOf(cl.Common().Args[1]); ok {
				out[v] = true
			}
		}
	}
	return out
}

func (p *Prog) tagsSetIn(fn *ssa.Function, depth int) map[int64]bool {
	out := map[int64]bool{}
	for _, cl := range Calls(fn) {
		n := callName(cl.Common())
		switch n {
		case "(*FieldMap).SetField", "(*FieldMap).SetInt", "(*FieldMap).SetString", "(*FieldMap).SetBytes", "(*FieldMap).SetBool":
			if v, ok := constIntOf(cl.Common().Args[1]); ok {
				out[v] = true
			}
		default:
			if cal := cl.Common().StaticCallee(); cal != nil && p.InModule(cal) && depth < 2 && fnPkg(cal).Pkg.Path() == modPath {
				for k := range p.tagsSetIn(cal, depth+1) {
					out[k] = true
				}
			}
		}
	}
	return out
}

func c05R2(c *Ctx) {
	p := c.P
	// receiver side: the too-low handler
	var tooLowH, seqResetH *ssa.Function
	if proc := rejectProcessor(p); proc != nil {
		tooLowH = tooLowHandler(p, proc)
	}
	for _, fn := range p.FuncsIn(modPath) {
		if len(getRoles(p).storeCalls(fn, "SetNextTargetMsgSeqNum")) > 0 && !(fn.Object() != nil && fn.Object().Exported() && fn.Signature.Recv() == nil) {
			seqResetH = fn
		}
	}
	// emitter side
	app := p.Named(modPath, "Application")
	var stamper *ssa.Function
	for _, cs := range p.InvokeSites(app, "ToApp") {
		if len(p.setTagCalls(cs.Fn, p.Tag("tagPossDupFlag"))) > 0 {
			stamper = cs.Fn
		}
	}
	var gapfill []*ssa.Function
	for _, fn := range p.FuncsIn(modPath) {
		if len(p.setTagCalls(fn, p.Tag("tagGapFillFlag"))) > 0 {
			gapfill = append(gapfill, fn)
		}
	}
	if tooLowH == nil || seqResetH == nil || stamper == nil || len(gapfill) == 0 {
		c.Undecided("", "-", "roles", "too-low handler / SequenceReset handler / replay stamper / gap-fill builder not all found")
		return
	}
	hdr := func(m map[int64]bool) []int64 {
		var out []int64
		for k := range m {
			out = append(out, k)
		}
		sort.Slice(out, func(i, j int) bool { return out[i] < out[j] })
		return out
	}
	need := p.tagsTestedIn(tooLowH)
	have := p.tagsSetIn(stamper, 0)
	// stored messages already carry SendingTime(52) and MsgSeqNum(34) from first transmission
	have[p.Tag("tagMsgSeqNum")] = true
	var missing []int64
	for t := range need {
		if !have[t] {
			missing = append(missing, t)
		}
	}
	c.Check(len(missing) == 0, FuncName(stamper), p.Pos(stamper.Pos()), "replay-tags", fmt.Sprintf("receiver's PossDup gate examines %v; the replay stamper sets %v", hdr(need), hdr(have)),
		fmt.Sprintf("this engine's too-low/PossDup gate examines tags %v but its replay stamper sets only %v (missing %v): a replay sent by one QuickFIX/Go engine is rejected by the other", hdr(need), hdr(have), missing))
	for _, gf := range gapfill {
		haveG := p.tagsSetIn(gf, 0)
		var miss []int64
		for t := range need {
			if !haveG[t] {
				miss = append(miss, t)
			}
		}
		c.Check(len(miss) == 0, FuncName(gf), p.Pos(gf.Pos()), "gapfill-possdup-tags", fmt.Sprintf("gap fills (sent under an old number) carry the PossDup tags %v", hdr(need)), fmt.Sprintf("gap fills lack tags %v that the receiver's too-low/PossDup gate examines", miss))
		needS := p.tagsTestedIn(seqResetH)
		var missS []int64
		for t := range needS {
			if !haveG[t] {
				missS = append(missS, t)
			}
		}
		c.Check(len(missS) == 0, FuncName(gf), p.Pos(gf.Pos()), "gapfill-seqreset-tags", fmt.Sprintf("SequenceReset handler reads %v; the gap-fill builder sets them", hdr(needS)), fmt.Sprintf("the SequenceReset handler reads tags %v; the gap-fill builder does not set %v", hdr(needS), missS))
	}
}

func c05R3(c *Ctx) {
	p := c.P
	r := getRoles(p)
	linkAtom := func(a *Atom) bool {
		if a.Rel != "" || a.B == nil || a.B.Kind != "call" {
			return false
		}
		n := a.B.CalleeName()
		return strings.HasSuffix(n, ".IsLoggedOn") || strings.HasSuffix(n, ".IsConnected")
	}
	// chain SendToTarget → … → prep → persist: no link-state guard at any call on the chain
	root := p.Func(modPath, "SendToTarget")
	var walk func(fn *ssa.Function, depth int, seen map[*ssa.Function]bool) bool
	found := false
	walk = func(fn *ssa.Function, depth int, seen map[*ssa.Function]bool) bool {
		if seen[fn] || depth > 6 {
			return true
		}
		seen[fn] = true
		ok := true
		for _, cl := range Calls(fn) {
			cal := cl.Common().StaticCallee()
			if cal == nil || !p.InModule(cal) {
				continue
			}
			onPath := containsFn(r.prep, cal) || containsFn(r.persist, cal) || p.reachesAny(cal, func(f *ssa.Function) bool { return containsFn(r.persist, f) })
			if !onPath {
				continue
			}
			if containsFn(r.persist, cal) {
				found = true
			}
			d := p.ReachCond(cl.Block())
			for _, a := range d.Atoms() {
				if linkAtom(a) {
					ok = false
					c.Violation(FuncName(fn), p.InstrPos(cl), "link-guard:"+FuncName(cal), "on the application's send path the call of "+FuncName(cal)+" is guarded by the link state ("+a.String()+"): a message sent while disconnected would not be numbered and stored, so it could never be replayed after reconnect")
				}
			}
			if !walk(cal, depth+1, seen) {
				ok = false
			}
		}
		return ok
	}
	if walk(root, 0, map[*ssa.Function]bool{}) && found {
		c.OK(FuncName(root), p.Pos(root.Pos()), "SendToTarget → numbering → persist with no connected/logged-on guard")
	} else if !found {
		c.Violation(FuncName(root), p.Pos(root.Pos()), "no-persist-path", "the application's send path does not reach the persist step")
	}
	// persist itself does not look at the link
	for _, fn := range append(append([]*ssa.Function{}, r.prep...), r.persist...) {
		bad := false
		ForEachInstr(fn, func(in ssa.Instruction) {
			if ifi, ok := in.(*ssa.If); ok {
				for _, a := range p.CondAtoms(ifi.Cond, true).Atoms() {
					if linkAtom(a) {
						bad = true
					}
				}
			}
		})
		c.Check(!bad, FuncName(fn), p.Pos(fn.Pos()), "link-free", "numbering/persist step does not branch on the link state", "the numbering/persist step branches on connected/logged-on")
	}
	// queue droppers do not touch the store, except the tabulated drop-and-reset
	for _, fn := range p.FuncsIn(modPath) {
		if !p.truncatesQueue(fn, r.fToSend) {
			continue
		}
		for _, cs := range p.CallsTo(fn) {
			caller := cs.Fn
			muts := r.storeCalls(caller, "Reset", "SetNextSenderMsgSeqNum", "SetNextTargetMsgSeqNum", "IncrNextSenderMsgSeqNum")
			if len(muts) == 0 {
				c.OK(FuncName(caller), p.InstrPos(cs.Call), "queue dropped without touching the store")
				continue
			}
			isDropAndReset := len(r.storeCalls(caller, "Reset")) == len(muts)
			c.Check(isDropAndReset, FuncName(caller), p.InstrPos(cs.Call), "drop-mutates-store", "drop-and-reset: the explicit reset (reasons checked by C07-R1)", "a function that drops the send queue also changes the outbound counter: numbers of dropped, already persisted messages would be reused or skipped")
		}
	}
}
