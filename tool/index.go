package main

// Who-may-X: program-wide finders, all resolved through types.

import (
	"go/token"
	"go/types"

	"golang.org/x/tools/go/ssa"
)

// fieldAddrOf: if addr is (possibly through nested FieldAddr of embedded structs) the address
// of field f, returns the FieldAddr instruction.
func fieldAddrOf(addr ssa.Value, f *types.Var) *ssa.FieldAddr {
	fa, ok := addr.(*ssa.FieldAddr)
	if !ok {
		return nil
	}
	st := derefStruct(fa.X.Type())
	if st != nil && st.Field(fa.Field) == f {
		return fa
	}
	return nil
}

type StoreSite struct {
	Fn    *ssa.Function
	Store *ssa.Store
	Addr  *ssa.FieldAddr
}

// FieldStores: every store to struct field f in module functions.
func (p *Prog) FieldStores(f *types.Var) []StoreSite {
	var out []StoreSite
	for _, fn := range p.Funcs {
		ForEachInstr(fn, func(in ssa.Instruction) {
			if st, ok := in.(*ssa.Store); ok {
				if fa := fieldAddrOf(st.Addr, f); fa != nil {
					out = append(out, StoreSite{fn, st, fa})
				}
			}
		})
	}
	return out
}

// FieldLoads: every load of struct field f (through FieldAddr+load or Field) in module functions.
func (p *Prog) FieldLoads(f *types.Var) []ssa.Instruction {
	var out []ssa.Instruction
	for _, fn := range p.Funcs {
		ForEachInstr(fn, func(in ssa.Instruction) {
			switch x := in.(type) {
			case *ssa.UnOp:
				if x.Op == token.MUL && fieldAddrOf(x.X, f) != nil {
					out = append(out, in)
				}
			case *ssa.Field:
				if st, ok := x.X.Type().Underlying().(*types.Struct); ok && st.Field(x.Field) == f {
					out = append(out, in)
				}
			}
		})
	}
	return out
}

// isFieldOrg: origin o denotes (a load of) field f.
func isFieldOrg(o *Org, f *types.Var) bool {
	return o.Any(func(x *Org) bool { return x.Kind == "field" && x.Field == f })
}

type MapUpdateSite struct {
	Fn *ssa.Function
	In *ssa.MapUpdate
}

// MapUpdatesOn: map updates whose map operand originates from field f.
func (p *Prog) MapUpdatesOn(f *types.Var) []MapUpdateSite {
	var out []MapUpdateSite
	for _, fn := range p.Funcs {
		ForEachInstr(fn, func(in ssa.Instruction) {
			if mu, ok := in.(*ssa.MapUpdate); ok {
				if isFieldOrg(p.Origin(mu.Map), f) {
					out = append(out, MapUpdateSite{fn, mu})
				}
			}
		})
	}
	return out
}

type CallSite struct {
	Fn   *ssa.Function
	Call ssa.CallInstruction
}

func (cs CallSite) Common() *ssa.CallCommon { return cs.Call.Common() }

// BuiltinCalls: calls of builtin `name` in module functions.
func (p *Prog) BuiltinCalls(name string) []CallSite {
	var out []CallSite
	for _, fn := range p.Funcs {
		for _, c := range Calls(fn) {
			if b, ok := c.Common().Value.(*ssa.Builtin); ok && b.Name() == name {
				out = append(out, CallSite{fn, c})
			}
		}
	}
	return out
}

// InvokeSites: all call sites (invoke mode or static) of method `name` declared on interface
// iface or on any type implementing it, restricted to module functions.
func (p *Prog) InvokeSites(iface *types.Named, name string) []CallSite {
	it := iface.Underlying().(*types.Interface)
	var out []CallSite
	for _, fn := range p.Funcs {
		for _, c := range Calls(fn) {
			cc := c.Common()
			if cc.IsInvoke() {
				if cn(cc.Method) != name {
					continue
				}
				rt := cc.Value.Type()
				if types.Identical(rt, iface) || implementsOrEmbeds(rt, it, name) {
					out = append(out, CallSite{fn, c})
				}
				continue
			}
			if cal := cc.StaticCallee(); cal != nil && cal.Name() == name && cal.Signature.Recv() != nil {
				rt := cal.Signature.Recv().Type()
				if types.Implements(rt, it) || types.Implements(types.NewPointer(rt), it) {
					out = append(out, CallSite{fn, c})
				}
			}
		}
	}
	return out
}

func implementsOrEmbeds(t types.Type, it *types.Interface, name string) bool {
	// an interface type that has the same method (e.g. an interface embedding iface)
	if ti, ok := t.Underlying().(*types.Interface); ok {
		for i := 0; i < it.NumMethods(); i++ {
			if it.Method(i).Name() == name {
				for j := 0; j < ti.NumMethods(); j++ {
					if ti.Method(j) == it.Method(i) {
						return true
					}
				}
			}
		}
	}
	return false
}

// CallsTo: static call sites of fn within module functions.
func (p *Prog) CallsTo(fn *ssa.Function) []CallSite {
	var out []CallSite
	for _, c := range p.StaticCallers(fn) {
		out = append(out, CallSite{c.Parent(), c})
	}
	return out
}

// CallsNamed: call sites in fn whose callee name (FuncName / method name) equals name.
func (p *Prog) CallsNamed(fn *ssa.Function, names ...string) []ssa.CallInstruction {
	var out []ssa.CallInstruction
	for _, c := range Calls(fn) {
		n := callName(c.Common())
		for _, w := range names {
			if n == w {
				out = append(out, c)
			}
		}
	}
	return out
}

func callName(cc *ssa.CallCommon) string {
	if cc.IsInvoke() {
		return methodName(cc.Method)
	}
	if cal := cc.StaticCallee(); cal != nil {
		return FuncName(cal)
	}
	if b, ok := cc.Value.(*ssa.Builtin); ok {
		return b.Name()
	}
	return "dynamic"
}

// Implementations: named types in module packages (non-interface) whose value or pointer type implements it.
func (p *Prog) Implementations(it *types.Interface) []*types.Named {
	var out []*types.Named
	for _, pk := range p.Pkgs {
		sc := pk.Types.Scope()
		for _, n := range sc.Names() {
			tn, ok := sc.Lookup(n).(*types.TypeName)
			if !ok || tn.IsAlias() {
				continue
			}
			nt, ok := tn.Type().(*types.Named)
			if !ok {
				continue
			}
			if _, isI := nt.Underlying().(*types.Interface); isI {
				continue
			}
			if types.Implements(nt, it) || types.Implements(types.NewPointer(nt), it) {
				out = append(out, nt)
			}
		}
	}
	return out
}

// MethodOf returns the SSA function implementing method name for named type n (value or pointer receiver).
func (p *Prog) MethodOf(n *types.Named, name string) *ssa.Function {
	for _, T := range []types.Type{n, types.NewPointer(n)} {
		sel := p.SSA.MethodSets.MethodSet(T).Lookup(n.Obj().Pkg(), name)
		if sel != nil {
			return p.SSA.MethodValue(sel)
		}
	}
	return nil
}

// closuresOf returns anonymous functions nested (transitively) in fn.
func closuresOf(fn *ssa.Function) []*ssa.Function {
	var out []*ssa.Function
	for _, a := range fn.AnonFuncs {
		out = append(out, a)
		out = append(out, closuresOf(a)...)
	}
	return out
}

// WithClosures returns fn followed by its nested closures.
func WithClosures(fn *ssa.Function) []*ssa.Function {
	return append([]*ssa.Function{fn}, closuresOf(fn)...)
}

// Reachable: functions reachable from roots following static call edges and, where a
// graph is given, the graph's edges too.
func (p *Prog) Reachable(roots []*ssa.Function, useGraph bool) map[*ssa.Function]bool {
	seen := map[*ssa.Function]bool{}
	var work []*ssa.Function
	push := func(f *ssa.Function) {
		if f != nil && !seen[f] {
			seen[f] = true
			work = append(work, f)
		}
	}
	for _, r := range roots {
		push(r)
	}
	g := p.VTA()
	for len(work) > 0 {
		f := work[len(work)-1]
		work = work[:len(work)-1]
		if useGraph {
			if n := g.Nodes[f]; n != nil {
				for _, e := range n.Out {
					push(e.Callee.Func)
				}
			}
		}
		for _, b := range f.Blocks {
			for _, in := range b.Instrs {
				switch x := in.(type) {
				case ssa.CallInstruction:
					push(x.Common().StaticCallee())
				case *ssa.MakeClosure:
					push(x.Fn.(*ssa.Function))
				}
			}
		}
	}
	return seen
}
