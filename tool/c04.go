package main

import (
	"fmt"
	"go/token"
	"go/types"
	"sort"
	"strings"

	"golang.org/x/tools/go/ssa"
)

func init() { register("C04", propC04) }

func propC04() Property {
	return Property{
		ID: "C04",
		Explanation: "R1 (typestate): a recovering session that sent a TestRequest is pendingTimeout{resendState}; every type test on a session state value that has an arm for a type that can be wrapped must test an UNWRAPPED operand (the switch also handles the wrapper, or the operand comes from an unwrapping function). Otherwise recovery is treated as 'not recovering': a second ResendRequest is sent and the stash is replaced. " +
			"R2: in the too-high arm the early message is stored in the returned state's stash under its own MsgSeqNum on every path that returns a recovery state. R3: every recovery state produced while already recovering (next chunk) carries the receiver's stash. " +
			"R4: ResendRequest fields: BeginSeqNo(7) ← begin parameter; EndSeqNo(16) ← chunk end or the infinity marker, 999999 only below FIX.4.2 and 0 otherwise; the too-high handler requests (expected, received-1); continuation chunks begin at the store's next expected number. R5: the stash is drained by looking up and deleting exactly the store's next expected number and feeding the message to the in-session handler. R6: resendState is a value type whose copies share the stash only through the map; every function that creates a fresh recovery state allocates its stash before returning it, so that a message stashed through one copy is seen by the copy that is kept. R7 (shared with C01): the expected number advances only for a message shown to carry it — serving a ResendRequest numbered above the expectation must not consume the number of a message that never arrived. R8: the ResendRequest builder returns a nil error only on the nil-error edge of the call that sends the request. R9 (shared with C11): the handlers read each field — GapFillFlag in particular — from the section the parser files it in.",
		NotDecided: "liveness (that the stash is eventually drained), chunk arithmetic over histories, counts of ResendRequests over a trace.",
		Rules: []RuleDef{
			{ID: "C04-R1", Desc: "wrapper-transparent state tests", Min: 2, Run: c04R1},
			{ID: "C04-R2", Desc: "early message stashed on every recovery return", Min: 2, Run: c04R2},
			{ID: "C04-R3", Desc: "stash carried into the next chunk's state", Min: 1, Run: c04R3},
			{ID: "C04-R4", Desc: "ResendRequest field binding and infinity markers", Min: 6, Run: c04R4},
			{ID: "C04-R5", Desc: "stash drained at the next expected number", Min: 3, Run: c04R5},
			{ID: "C04-R6", Desc: "every freshly created recovery state owns an allocated stash", Min: 1, Run: c04R6},
			{ID: "C04-R7", Desc: "the expected number advances only for a message that carries it (= C01-R2)", Min: 4, Run: c01R2},
			{ID: "C04-R8", Desc: "the recovery state is returned only when the ResendRequest was sent", Min: 1, Run: c04R8},
			{ID: "C04-R12", Desc: "every inbound message is parsed into a message of its own", Min: 2, Run: c04R12},
			{ID: "C04-R11", Desc: "a recovery does not outlive the store epoch it was started in", Min: 3, Run: c04R11},
			{ID: "C04-R10", Desc: "the recovery state is kept only while the requested range is open", Min: 1, Run: c04R10},
			{ID: "C04-R9", Desc: "handlers read each field from the section the parser files it in (= C11-R7)", Min: 20, Run: sectionAccessRule},
		},
	}
}

type wrapInfo struct {
	iface    *types.Named          // sessionState
	wrappers []*types.Named        // pendingTimeout
	inner    map[string]types.Type // concrete types that get wrapped, by type string
	field    map[*types.Named]*types.Var
}

var wrapMemo *wrapInfo

func getWrapInfo(p *Prog) *wrapInfo {
	if wrapMemo != nil {
		return wrapMemo
	}
	w := &wrapInfo{iface: p.Named(modPath, "sessionState"), inner: map[string]types.Type{}, field: map[*types.Named]*types.Var{}}
	it := w.iface.Underlying().(*types.Interface)
	for _, n := range p.Implementations(it) {
		st, ok := n.Underlying().(*types.Struct)
		if !ok {
			continue
		}
		for i := 0; i < st.NumFields(); i++ {
			f := st.Field(i)
			if f.Embedded() && types.Identical(f.Type(), w.iface) {
				w.wrappers = append(w.wrappers, n)
				w.field[n] = f
			}
		}
	}
	// what flows into the embedded field
	for _, wn := range w.wrappers {
		f := w.field[wn]
		for _, st := range p.FieldStores(f) {
			v := st.Store.Val
			if mi, ok := v.(*ssa.MakeInterface); ok {
				w.inner[types.TypeString(mi.X.Type(), nil)] = mi.X.Type()
			} else {
				// unknown provenance: any implementation may be wrapped
				for _, n := range p.Implementations(it) {
					w.inner[types.TypeString(n, nil)] = n
				}
			}
		}
	}
	wrapMemo = w
	return w
}

func (w *wrapInfo) isWrapper(t types.Type) bool {
	for _, n := range w.wrappers {
		if types.Identical(n, t) {
			return true
		}
	}
	return false
}

// isUnwrapper: fn(param sessionState) sessionState that strips the wrapper.
func (p *Prog) isUnwrapper(fn *ssa.Function, w *wrapInfo) bool {
	if fn == nil || fn.Blocks == nil || len(fn.Params) != 1 || !types.Identical(fn.Params[0].Type(), w.iface) {
		return false
	}
	hasAssert := false
	ForEachInstr(fn, func(in ssa.Instruction) {
		if ta, ok := in.(*ssa.TypeAssert); ok && ta.X == ssa.Value(fn.Params[0]) && w.isWrapper(ta.AssertedType) {
			hasAssert = true
		}
	})
	if !hasAssert {
		return false
	}
	for _, b := range fn.Blocks {
		r, ok := b.Instrs[len(b.Instrs)-1].(*ssa.Return)
		if !ok {
			continue
		}
		if len(r.Results) != 1 {
			return false
		}
		o := p.Origin(r.Results[0])
		good := o.All(func(x *Org) bool {
			if x.Kind == "param" {
				// returning the parameter itself is only unwrapped on the !ok path
				d := p.ReachCond(b)
				return d.Implies(func(a *Atom) bool {
					return a.Rel == "" && !a.Val && a.B.Kind == "typeassert" && a.B.Res == 1 && w.isWrapper(a.B.AssTyp)
				})
			}
			if x.Kind == "field" && types.Identical(x.Field.Type(), w.iface) && x.Base.Kind == "typeassert" && w.isWrapper(x.Base.AssTyp) {
				return true
			}
			return false
		})
		if !good {
			return false
		}
	}
	return true
}

func c04R1(c *Ctx) {
	p := c.P
	w := getWrapInfo(p)
	if len(w.wrappers) == 0 {
		c.Undecided("", "-", "no-wrapper", "no session state type embeds the sessionState interface (wrapper states vanished)")
		return
	}
	var inner []string
	for k := range w.inner {
		inner = append(inner, k[strings.LastIndex(k, ".")+1:])
	}
	sort.Strings(inner)
	c.Note("wrapper states: %v; wrapped types: %v", namesOf(w.wrappers), inner)
	for _, fn := range p.Funcs {
		var asserts []*ssa.TypeAssert
		ForEachInstr(fn, func(in ssa.Instruction) {
			if ta, ok := in.(*ssa.TypeAssert); ok && types.Identical(ta.X.Type(), w.iface) {
				asserts = append(asserts, ta)
			}
		})
		for _, ta := range asserts {
			if _, wrapped := w.inner[types.TypeString(ta.AssertedType, nil)]; !wrapped {
				continue
			}
			name := FuncName(fn)
			pos := p.InstrPos(ta)
			xo := p.Origin(ta.X)
			// (a) operand produced by an unwrapper
			if xo.All(func(x *Org) bool { return x.Kind == "call" && p.isUnwrapper(x.Callee, w) }) {
				c.OK(name, pos, "state test on "+typeName(ta.AssertedType)+" uses an unwrapped operand ("+xo.CalleeName()+")")
				continue
			}
			// (b) same switch handles the wrapper
			handled := false
			for _, o := range asserts {
				if o != ta && w.isWrapper(o.AssertedType) && p.Origin(o.X).String() == xo.String() {
					handled = true
				}
			}
			if handled {
				c.OK(name, pos, "state test on "+typeName(ta.AssertedType)+": the same switch has an arm for the wrapper")
				continue
			}
			// (c) inline unwrap: operand = φ(x on the not-wrapped edge, x.(wrapper).inner)
			if phi, ok := ta.X.(*ssa.Phi); ok {
				good := true
				for i, e := range phi.Edges {
					eo := p.Origin(e)
					if eo.Kind == "field" && types.Identical(eo.Field.Type(), w.iface) && eo.Base.Kind == "typeassert" && w.isWrapper(eo.Base.AssTyp) {
						continue
					}
					pred := phi.Block().Preds[i]
					d := dnfAnd(p.ReachCond(pred), edgeCond(p, pred, phi.Block()))
					es := eo.String()
					if !d.Implies(func(a *Atom) bool {
						return a.Rel == "" && !a.Val && a.B.Kind == "typeassert" && a.B.Res == 1 && w.isWrapper(a.B.AssTyp) && a.B.Base.String() == es
					}) {
						good = false
					}
				}
				if good {
					c.OK(name, pos, "state test on "+typeName(ta.AssertedType)+": operand unwrapped inline (φ of inner state and the not-wrapped value)")
					continue
				}
			}
			c.Violation(name, pos, "assert "+typeName(ta.AssertedType)+" on "+xo.String(),
				fmt.Sprintf("type test for %s on %s does not see through %v: when a TestRequest is pending the state is %s{%s} and this test answers 'no', so a recovery in progress is not recognised (second ResendRequest, stash replaced; replay staleness exemption lost)",
					typeName(ta.AssertedType), xo.String(), namesOf(w.wrappers), namesOf(w.wrappers)[0], typeName(ta.AssertedType)))
		}
	}
}

func namesOf(ns []*types.Named) []string {
	var out []string
	for _, n := range ns {
		out = append(out, n.Obj().Name())
	}
	return out
}

// stashField: resendState.messageStash
func c04R2(c *Ctx) {
	p := c.P
	fStash := p.Field(modPath, "resendState", "messageStash")
	rs := p.Named(modPath, "resendState")
	tooHigh := p.Named(modPath, "targetTooHigh")
	fRecv := p.Field(modPath, "targetTooHigh", "ReceivedTarget")
	n := 0
	for _, mu := range p.MapUpdatesOn(fStash) {
		fn := mu.Fn
		name := FuncName(fn)
		n++
		key := p.Origin(mu.In.Key)
		val := p.Origin(mu.In.Value)
		okKey := key.Kind == "field" && key.Field == fRecv && key.Base.Kind == "typeassert" && types.Identical(key.Base.AssTyp, tooHigh)
		okVal := val.Kind == "param" && typeName(val.Val.Type()) == "Message"
		c.Check(okKey && okVal, name, p.InstrPos(mu.In), "stash-insert-binding", "stash[ReceivedTarget of the too-high error] = the inbound message",
			"the early message is stashed as stash["+key.String()+"] = "+val.String()+"; expected key = its own MsgSeqNum (ReceivedTarget) and value = the message")
		// every return of a resendState value from this function passes the insert, on the same state value
		mapBase := p.Origin(mu.In.Map)
		baseStr := ""
		if mapBase.Kind == "field" {
			baseStr = mapBase.Base.String()
		}
		for _, b := range fn.Blocks {
			r, ok := b.Instrs[len(b.Instrs)-1].(*ssa.Return)
			if !ok {
				continue
			}
			for _, res := range r.Results {
				mi, ok := res.(*ssa.MakeInterface)
				if !ok || !types.Identical(mi.X.Type(), rs) {
					continue
				}
				ro := p.Origin(mi.X)
				dom := InstrDominates(mu.In, r)
				same := ro.String() == baseStr
				c.Check(dom && same, name, p.InstrPos(r), "stash-before-return", "recovery state returned after stashing into its own stash",
					fmt.Sprintf("a recovery state (%s) is returned on a path that does not first store the early message into that state's stash (stash base %s): the message is lost and will be requested again", ro.String(), baseStr))
			}
		}
	}
	if n == 0 {
		c.Violation("", "-", "no-stash-insert", "no function stores an inbound message into resendState.messageStash")
	}
}

func c04R3(c *Ctx) {
	p := c.P
	fStash := p.Field(modPath, "resendState", "messageStash")
	rs := p.Named(modPath, "resendState")
	for _, fn := range p.FuncsIn(modPath) {
		recv := fn.Signature.Recv()
		if recv == nil || !types.Identical(recv.Type(), rs) {
			continue
		}
		name := FuncName(fn)
		for _, b := range fn.Blocks {
			r, ok := b.Instrs[len(b.Instrs)-1].(*ssa.Return)
			if !ok {
				continue
			}
			for _, res := range r.Results {
				mi, ok := res.(*ssa.MakeInterface)
				if !ok || !types.Identical(mi.X.Type(), rs) {
					continue
				}
				// a fresh resendState obtained from a call (not the receiver itself)?
				fromCall := false
				carried := false
				if o := p.Origin(mi.X); o.Kind == "call" && o.Callee != nil {
					if _, isLoad := mi.X.(*ssa.UnOp); !isLoad {
						fromCall = true // returned as produced: nothing was stored into it
					}
				}
				if ld, ok := mi.X.(*ssa.UnOp); ok {
					if al, ok := ld.X.(*ssa.Alloc); ok {
						for _, ref := range *al.Referrers() {
							switch x := ref.(type) {
							case *ssa.Store:
								if x.Addr == ssa.Value(al) {
									if o := p.Origin(x.Val); o.Kind == "call" && o.Callee != nil {
										fromCall = true
									}
								}
							case *ssa.FieldAddr:
								if st := derefStruct(x.X.Type()); st != nil && st.Field(x.Field) == fStash {
									for _, rr := range *x.Referrers() {
										if s2, ok := rr.(*ssa.Store); ok && s2.Addr == ssa.Value(x) {
											vo := p.Origin(s2.Val)
											if vo.Kind == "field" && vo.Field == fStash && vo.Base.Kind == "param" && vo.Base.Param == 0 && InstrDominates(s2, r) {
												carried = true
											}
										}
									}
								}
							}
						}
					}
				}
				if !fromCall {
					continue
				}
				c.Check(carried, name, p.InstrPos(r), "stash-carry", "next-chunk state carries the receiver's stash",
					"a new recovery state is returned while already recovering without messageStash ← the current stash: every early message kept so far is dropped")
			}
		}
	}
}

func c04R4(c *Ctx) {
	p := c.P
	t7, t16 := p.Tag("tagBeginSeqNo"), p.Tag("tagEndSeqNo")
	fBegin := p.Field(modPath, "SessionID", "BeginString")
	fExp := p.Field(modPath, "targetTooHigh", "ExpectedTarget")
	fRecv := p.Field(modPath, "targetTooHigh", "ReceivedTarget")
	fRangeEnd := p.Field(modPath, "resendState", "resendRangeEnd")
	fCurEnd := p.Field(modPath, "resendState", "currentResendRangeEnd")
	var builders []*ssa.Function
	for _, fn := range p.FuncsIn(modPath) {
		if len(p.setTagCalls(fn, t7)) > 0 && len(p.setTagCalls(fn, t16)) > 0 {
			// only the request builder (not handlers that read them)
			builders = append(builders, fn)
		}
	}
	if len(builders) == 0 {
		c.Violation("", "-", "no-request-builder", "no function sets BeginSeqNo(7) and EndSeqNo(16)")
		return
	}
	for _, fn := range builders {
		name := FuncName(fn)
		for _, st := range p.setTagCalls(fn, t7) {
			o := p.Origin(st.val)
			c.Check(o.Kind == "param", name, p.InstrPos(st.call), "begin-binding", "BeginSeqNo(7) ← begin parameter", "BeginSeqNo(7) is set from "+o.String()+", not from the requested begin number")
		}
		var beginParam *Org
		for _, st := range p.setTagCalls(fn, t7) {
			beginParam = p.Origin(st.val)
		}
		for _, st := range p.setTagCalls(fn, t16) {
			// the value is a phi: classify each incoming edge
			v := stripConv(st.val)
			phi, ok := v.(*ssa.Phi)
			if !ok {
				c.Undecided(name, p.InstrPos(st.call), "end-shape", "EndSeqNo(16) value is not a merge of chunk end and infinity markers: "+p.Origin(v).String())
				continue
			}
			var leaves []phiLeaf
			for i, e := range phi.Edges {
				leaves = append(leaves, phiLeaf{e, phi.Block().Preds[i]})
			}
			seen := map[string]bool{}
			for _, lf := range leaves {
				o := p.Origin(lf.val)
				d := p.ReachCond(lf.from)
				if n, isC := o.ConstIntVal(); isC {
					below := func(a *Atom) bool {
						return a.Rel == "<" && a.L.Kind == "field" && a.L.Field == fBegin && constStr(a.R) == "FIX.4.2"
					}
					notBelow := func(a *Atom) bool {
						return a.Rel == "<=" && a.R.Kind == "field" && a.R.Field == fBegin && constStr(a.L) == "FIX.4.2"
					}
					switch n {
					case 999999:
						seen["999999"] = true
						c.Check(d.Implies(below), name, p.InstrPos(st.call), "marker-999999", "infinity 999999 only when BeginString < FIX.4.2", "EndSeqNo=999999 is chosen under "+d.String()+": it means 'to the end' only before FIX.4.2")
					case 0:
						seen["0"] = true
						c.Check(d.Implies(notBelow), name, p.InstrPos(st.call), "marker-0", "infinity 0 only when BeginString >= FIX.4.2", "EndSeqNo=0 is chosen under "+d.String()+": it means 'to the end' only from FIX.4.2 on")
					default:
						c.Violation(name, p.InstrPos(st.call), fmt.Sprintf("marker-%d", n), fmt.Sprintf("EndSeqNo constant %d is neither infinity marker", n))
					}
					continue
				}
				// a computed end: allowed only while it is below the requested end (a real chunk)
				os := o.String()
				isChunkGuarded := d.Implies(func(a *Atom) bool { return a.Rel == "<" && a.L.String() == os && a.R.Kind == "param" })
				hasChunkForm := o.Any(func(x *Org) bool {
					return x.Kind == "binop" && x.Op == token.SUB && x.Y.IsConstInt(1) && x.X.Kind == "binop" && x.X.Op == token.ADD && beginParam != nil && x.X.X.String() == beginParam.String() &&
						x.X.Y.Kind == "field" && cn(x.X.Y.Field) == "ResendRequestChunkSize"
				})
				if hasChunkForm {
					seen["chunk"] = true
				}
				c.Check(isChunkGuarded && hasChunkForm, name, p.InstrPos(st.call), "chunk-end", "computed end (begin+chunk-1) is sent only when it is below the requested end",
					"a computed EndSeqNo ("+os+") is sent under "+d.String()+": it must be begin+ChunkSize-1 and used only when below the end of the gap (otherwise the infinity marker is required)")
			}
			for _, k := range []string{"0", "999999", "chunk"} {
				if !seen[k] {
					c.Violation(name, p.InstrPos(st.call), "missing-"+k, "EndSeqNo never takes the "+k+" form")
				}
			}
		}
		// state bookkeeping: resendRangeEnd ← end param; currentResendRangeEnd ← chunk end only when chunked
		for _, st := range p.FieldStores(fRangeEnd) {
			if st.Fn == fn {
				c.Check(p.Origin(st.Store.Val).Kind == "param", name, p.InstrPos(st.Store), "range-end", "resendRangeEnd ← requested end", "resendRangeEnd is stored from "+p.Origin(st.Store.Val).String())
			}
		}
		for _, st := range p.FieldStores(fCurEnd) {
			if st.Fn == fn {
				d := p.ReachCond(st.Store.Block())
				c.Check(d.Implies(func(a *Atom) bool { return a.Rel == "<" && a.R.Kind == "param" }), name, p.InstrPos(st.Store), "cur-end", "currentResendRangeEnd set only for a chunk shorter than the gap", "currentResendRangeEnd is set under "+d.String())
			}
		}
		// callers
		for _, cs := range p.CallsTo(fn) {
			args := cs.Common().Args[1:]
			a0, a1 := p.Origin(args[0]), p.Origin(args[1])
			cname := FuncName(cs.Fn)
			switch {
			case a0.Kind == "field" && a0.Field == fExp:
				ok := a1.Kind == "binop" && a1.Op == token.SUB && a1.X.Kind == "field" && a1.X.Field == fRecv && a1.Y.IsConstInt(1)
				c.Check(ok, cname, p.InstrPos(cs.Call), "toohigh-range", "gap request for (expected, received-1)", "the too-high handler requests ("+a0.String()+", "+a1.String()+"); expected (ExpectedTarget, ReceivedTarget-1)")
			case a0.IsCallTo("(MessageStore).NextTargetMsgSeqNum"):
				ok := a1.Kind == "field" && a1.Field == fRangeEnd
				c.Check(ok, cname, p.InstrPos(cs.Call), "chunk-range", "next chunk from the store's next expected number to the end of the gap", "the next chunk is requested for ("+a0.String()+", "+a1.String()+")")
			default:
				c.Violation(cname, p.InstrPos(cs.Call), "request-args", "ResendRequest for ("+a0.String()+", "+a1.String()+"): the begin number is neither the expected number of the too-high error nor the store's next expected number")
			}
		}
	}
}

func constStr(o *Org) string {
	s, _ := o.ConstStringVal()
	return s
}

type phiLeaf struct {
	val  ssa.Value
	from *ssa.BasicBlock
}

func phiLeaves(phi *ssa.Phi, seen map[*ssa.Phi]bool) []phiLeaf {
	if seen[phi] {
		return nil
	}
	seen[phi] = true
	var out []phiLeaf
	for i, e := range phi.Edges {
		if inner, ok := e.(*ssa.Phi); ok {
			out = append(out, phiLeaves(inner, seen)...)
			continue
		}
		out = append(out, phiLeaf{e, phi.Block().Preds[i]})
	}
	return out
}

func c04R5(c *Ctx) {
	p := c.P
	fStash := p.Field(modPath, "resendState", "messageStash")
	inSess := p.Named(modPath, "inSession")
	n := 0
	for _, fn := range p.FuncsIn(modPath) {
		var lookups []*ssa.Lookup
		ForEachInstr(fn, func(in ssa.Instruction) {
			if l, ok := in.(*ssa.Lookup); ok && isFieldOrg(p.Origin(l.X), fStash) {
				lookups = append(lookups, l)
			}
		})
		for _, l := range lookups {
			n++
			name := FuncName(fn)
			ko := p.Origin(l.Index)
			okKey := ko.IsCallTo("(MessageStore).NextTargetMsgSeqNum")
			c.Check(okKey, name, p.InstrPos(l), "drain-key", "stash lookup at store.NextTargetMsgSeqNum()", "the stash is looked up at "+ko.String()+", not at the store's next expected inbound number")
			// delete of the same key value
			del := false
			for _, cl := range Calls(fn) {
				if cc := builtinCallOf(cl, "delete"); cc != nil && isFieldOrg(p.Origin(cc.Args[0]), fStash) {
					if cc.Args[1] == l.Index {
						del = true
					} else {
						c.Violation(name, p.InstrPos(cl), "drain-delete-key", "the stash entry deleted is not the one looked up")
					}
				}
			}
			c.Check(del, name, p.InstrPos(l), "drain-delete", "looked-up entry is deleted", "a delivered stash entry is not deleted: it would be delivered again")
			// the found message is fed to the in-session handler
			fed := false
			for _, cl := range Calls(fn) {
				cal := cl.Common().StaticCallee()
				if cal != nil && fnName(cal) == "FixMsgIn" && cal.Signature.Recv() != nil && types.Identical(cal.Signature.Recv().Type(), inSess) {
					for _, a := range cl.Common().Args {
						ao := p.Origin(a)
						if ao.Kind == "lookup" && ao.Val != nil {
							if ex, ok := ao.Val.(*ssa.Extract); ok && ex.Tuple == ssa.Value(l) {
								fed = true
							}
						}
					}
				}
			}
			c.Check(fed, name, p.InstrPos(l), "drain-feed", "stashed message is processed by inSession.FixMsgIn", "the message taken from the stash is not handed to the in-session handler")
		}
	}
	if n == 0 {
		c.Violation("", "-", "no-drain", "no function looks messages up in resendState.messageStash")
	}
}

// c04R6: a fresh resendState (a local that is returned and not copied from an existing
// state) gets messageStash ← make(...) before every successful return.
func c04R6(c *Ctx) {
	p := c.P
	fStash := p.Field(modPath, "resendState", "messageStash")
	rs := p.Named(modPath, "resendState")
	n := 0
	for _, fn := range p.FuncsIn(modPath) {
		res := fn.Signature.Results()
		if res.Len() == 0 || !types.Identical(res.At(0).Type(), rs) {
			continue
		}
		// the returned state: an alloc of resendState without a whole-value store (fresh)
		var fresh *ssa.Alloc
		ForEachInstr(fn, func(in ssa.Instruction) {
			al, ok := in.(*ssa.Alloc)
			if !ok || !types.Identical(al.Type().Underlying().(*types.Pointer).Elem(), rs) {
				return
			}
			whole := false
			for _, r := range *al.Referrers() {
				if st, ok := r.(*ssa.Store); ok && st.Addr == ssa.Value(al) {
					whole = true
				}
			}
			if !whole {
				fresh = al
			}
		})
		if fresh == nil {
			continue
		}
		n++
		name := FuncName(fn)
		var alloc *ssa.Store
		for _, r := range *fresh.Referrers() {
			if fa, ok := r.(*ssa.FieldAddr); ok {
				if st := derefStruct(fa.X.Type()); st != nil && st.Field(fa.Field) == fStash {
					for _, rr := range *fa.Referrers() {
						if s2, ok := rr.(*ssa.Store); ok && s2.Addr == ssa.Value(fa) && p.Origin(s2.Val).Kind == "make" {
							alloc = s2
						}
					}
				}
			}
		}
		ok := alloc != nil
		if ok {
			for _, b := range fn.Blocks {
				if r, isR := b.Instrs[len(b.Instrs)-1].(*ssa.Return); isR && len(r.Results) == 2 && p.Origin(r.Results[1]).IsNil() {
					if !InstrDominates(alloc, r) {
						ok = false
					}
				}
			}
		}
		c.Check(ok, name, p.Pos(fn.Pos()), "stash-allocated", "fresh recovery state returned with an allocated stash",
			"a fresh recovery state is returned without an allocated stash: the first early message is stashed into a map created in a by-value copy of the state, the copy that is kept never sees it, and the message is lost (gap detected on the Logon, then an early application message)")
	}
	if n == 0 {
		c.Violation("", "-", "no-fresh-state", "no function creates a fresh recovery state")
	}
}

// C04-R8: recovery starts only when the ResendRequest really went out. In the function that
// builds the ResendRequest (sets BeginSeqNo and EndSeqNo) and returns the recovery state with an
// error, every return whose error can be nil is reached only on the nil-error edge of the call
// that sends the request — a send failure that is merely logged would put the session into
// "recovery in progress" with no request on the wire, and every later message would be stashed
// forever.
func c04R8(c *Ctx) {
	p := c.P
	t7, t16 := p.Tag("tagBeginSeqNo"), p.Tag("tagEndSeqNo")
	n := 0
	for _, fn := range p.FuncsIn(modPath) {
		if len(p.setTagCalls(fn, t7)) == 0 || len(p.setTagCalls(fn, t16)) == 0 {
			continue
		}
		res := fn.Signature.Results()
		if res.Len() == 0 || !isErrorType(res.At(res.Len()-1).Type()) {
			continue
		}
		// the send: an error-returning in-module call that receives the built message
		var root *Org
		for _, st := range p.setTagCalls(fn, t7) {
			root, _ = st.recv.FieldPath()
		}
		var send ssa.CallInstruction
		for _, cl := range Calls(fn) {
			cal := cl.Common().StaticCallee()
			if cal == nil || !p.InModule(cal) || cal.Signature.Results().Len() != 1 || !isErrorType(cal.Signature.Results().At(0).Type()) {
				continue
			}
			for _, a := range cl.Common().Args {
				if root != nil && root.Val != nil && stripConv(a) == stripConv(root.Val) {
					send = cl
				}
			}
		}
		name := FuncName(fn)
		if send == nil {
			c.Violation(name, p.Pos(fn.Pos()), "request-not-sent", "the ResendRequest builder does not hand the request to an error-returning send")
			continue
		}
		for _, b := range fn.Blocks {
			r, ok := b.Instrs[len(b.Instrs)-1].(*ssa.Return)
			if !ok || !p.possibleSuccess(r) {
				continue
			}
			n++
			d := p.ReachCond(b)
			c.Check(d.Implies(nilErrAtomFor(send.(ssa.Instruction))), name, p.InstrPos(r), "recovery-only-if-request-sent", "a nil error is returned only after the send of the ResendRequest returned nil",
				"the recovery state is returned with a nil error under "+d.String()+", which does not require that the ResendRequest was sent: after a failed send the session is 'recovering' with no request on the wire, every later message is stashed as too high and nothing is delivered again")
		}
	}
	if n == 0 {
		c.Violation("", "-", "no-request-builder-returns", "no ResendRequest builder with a success return found")
	}
}
