package main

import (
	"fmt"
	"go/token"
	"go/types"
	"strings"

	"golang.org/x/tools/go/ssa"
)

func init() { register("C12", propC12) }

func propC12() Property {
	return Property{
		ID: "C12",
		Explanation: "The framing parser keeps a window (buffer) into a backing array (bigBuffer) that is re-pointed and refilled by one function. R1 (no stale view): a slice loaded from the window is never used after a call that may refill/re-point it. " +
			"R2 (no alias escapes): window-derived slices flow only into read-only sinks (bytes.Index/IndexByte, integer scan, (*bytes.Buffer).Write, copy source, the reader's destination inside the refill function, len/cap, and back into the window field); never into a return value, another heap location, a channel or bytes.NewBuffer. " +
			"R3 (refill preserves content): where the window is re-pointed, the old content was copied into the new window first; the read destination is buffer[len:cap]; afterwards the window is extended by exactly that read's count. " +
			"R4 (explicit-flow non-interference): the values returned by the index-finding methods and the bounds that cut a frame do not explicitly depend on how much is buffered (len/cap of the buffers, the read count); those quantities only steer when to refill. R5: the io.Reader contract allows data together with an error (the last bytes with io.EOF); every place that gives up because the refill returned an error does so only when that same refill returned zero bytes, otherwise the delivered bytes would be dropped depending on how the stream was chunked. R6: in every function a reader is wrapped by at most one framing parser (a second parser on the same reader loses what the first one buffered ahead). R7: the parser's reader field is stored only on a parser allocated in the same function (its constructor): a used parser is never re-pointed at another stream.",
		NotDecided: "implicit flows (loop exits depend on how much is buffered — argued by the 'refill until found' loop shape, not decided), behaviour for streams with junk between messages, termination.",
		Rules: []RuleDef{
			{ID: "C12-R1", Desc: "no stale buffer view across a refill", Min: 5, Run: c12R1},
			{ID: "C12-R2", Desc: "no alias of the parse buffer escapes", Min: 5, Run: c12R2},
			{ID: "C12-R3", Desc: "refill preserves content", Min: 3, Run: c12R3},
			{ID: "C12-R4", Desc: "frame indices not data-dependent on read sizes", Min: 4, Run: c12R4},
			{ID: "C12-R5", Desc: "a read error ends the search only when no bytes were read", Min: 2, Run: c12R5},
			{ID: "C12-R6", Desc: "one framing parser per reader", Min: 2, Run: c12R6},
			{ID: "C12-R11", Desc: "a frame starts at the first begin marker", Min: 1, Run: c12R11},
			{ID: "C12-R10", Desc: "the refill keeps what a read delivered, whatever error came with it", Min: 1, Run: c12R10},
			{ID: "C12-R9", Desc: "the backing array is assigned only by the refill function", Min: 1, Run: c12R9},
			{ID: "C12-R8", Desc: "a search of the window that fails refills and retries", Min: 1, Run: c12R8},
			{ID: "C12-R7", Desc: "a parser keeps the reader it was constructed with", Min: 1, Run: c12R7},
		},
	}
}

type parserInfo struct {
	T          *types.Named
	fBuf, fBig *types.Var
	fReader    *types.Var
	refill     *ssa.Function
	methods    []*ssa.Function
}

func getParser(p *Prog) *parserInfo {
	pi := &parserInfo{T: p.Named(modPath, "parser")}
	pi.fBuf = p.Field(modPath, "parser", "buffer")
	pi.fBig = p.Field(modPath, "parser", "bigBuffer")
	pi.fReader = p.Field(modPath, "parser", "reader")
	for _, fn := range p.FuncsIn(modPath) {
		if r := fn.Signature.Recv(); r != nil && namedOf(r.Type()) == pi.T {
			pi.methods = append(pi.methods, fn)
			// refill = the method that invokes reader.Read
			for _, cl := range Calls(fn) {
				cc := cl.Common()
				if cc.IsInvoke() && cn(cc.Method) == "Read" && isFieldOrg(p.Origin(cc.Value), pi.fReader) {
					pi.refill = fn
				}
			}
		}
	}
	if pi.refill == nil {
		anchorFail("parser refill function (invokes reader.Read)")
	}
	return pi
}

// derivedFrom: v is (a slice/conversion of) a load of field f; returns the load instruction.
func derivedLoad(p *Prog, v ssa.Value, fields ...*types.Var) (ssa.Instruction, bool) {
	for depth := 0; depth < 6; depth++ {
		switch x := v.(type) {
		case *ssa.Slice:
			v = x.X
		case *ssa.ChangeType:
			v = x.X
		case *ssa.Convert:
			v = x.X
		case *ssa.UnOp:
			if x.Op == token.MUL {
				for _, f := range fields {
					if fieldAddrOf(x.X, f) != nil {
						return x, true
					}
				}
			}
			return nil, false
		case *ssa.Phi:
			return nil, false
		default:
			return nil, false
		}
	}
	return nil, false
}

func c12R1(c *Ctx) {
	p := c.P
	pi := getParser(p)
	fs := map[*types.Var]bool{pi.fBuf: true, pi.fBig: true}
	for _, fn := range pi.methods {
		name := FuncName(fn)
		ForEachInstr(fn, func(in ssa.Instruction) {
			// every use (operand) of a window-derived value
			var ops []*ssa.Value
			ops = in.Operands(ops)
			for _, op := range ops {
				if op == nil || *op == nil {
					continue
				}
				ld, ok := derivedLoad(p, *op, pi.fBuf, pi.fBig)
				if !ok {
					continue
				}
				if _, isSlice := in.(*ssa.Slice); isSlice {
					continue // intermediate: its own uses are visited
				}
				if ld == in {
					continue
				}
				ok2 := p.fieldsStableBetween(fs, ld, in)
				c.Check(ok2, name, p.InstrPos(in), "stale-view", "buffer view used before any refill can intervene",
					"a slice taken from the parse buffer at "+p.InstrPos(ld)+" is used after a call that may refill or re-point the buffer: it can denote bytes of an older window (content and indices shift when the buffer is moved)")
			}
		})
	}
}

func c12R2(c *Ctx) {
	p := c.P
	pi := getParser(p)
	readSinks := map[string]bool{"bytes.Index": true, "bytes.IndexByte": true, "atoi": true, "parseUInt": true, "(*bytes.Buffer).Write": true, "len": true, "cap": true, "copy": true, "bytes.Equal": true, "bytes.HasPrefix": true, "bytes.Count": true}
	for _, fn := range pi.methods {
		name := FuncName(fn)
		ForEachInstr(fn, func(in ssa.Instruction) {
			var ops []*ssa.Value
			ops = in.Operands(ops)
			for _, op := range ops {
				if op == nil || *op == nil {
					continue
				}
				if _, isSliceT := (*op).Type().Underlying().(*types.Slice); !isSliceT {
					continue
				}
				if _, ok := derivedLoad(p, *op, pi.fBuf, pi.fBig); !ok {
					continue
				}
				pos := p.InstrPos(in)
				switch x := in.(type) {
				case *ssa.Slice, *ssa.IndexAddr, *ssa.Index:
					continue
				case *ssa.Store:
					// storing back into the window / backing fields is the refill's own business
					if fieldAddrOf(x.Addr, pi.fBuf) != nil || fieldAddrOf(x.Addr, pi.fBig) != nil {
						c.OK(name, pos, "window re-stored into the parser's own buffer field")
						continue
					}
					c.Violation(name, pos, "alias-store", "a slice of the parse buffer is stored into "+p.Origin(x.Addr).String()+": the alias outlives the window and is overwritten by the next refill")
				case *ssa.Return:
					c.Violation(name, pos, "alias-return", "a slice of the parse buffer is returned: the caller's frame would be overwritten by the next read")
				case *ssa.Send:
					c.Violation(name, pos, "alias-send", "a slice of the parse buffer is sent on a channel")
				case *ssa.MakeInterface, *ssa.MakeClosure:
					c.Violation(name, pos, "alias-box", "a slice of the parse buffer is boxed/captured: it may escape")
				case ssa.CallInstruction:
					n := callName(x.Common())
					cc := x.Common()
					switch {
					case readSinks[n]:
						if n == "copy" && stripConv(cc.Args[0]) == *op && fn != pi.refill {
							c.Violation(name, pos, "copy-into-window", "the parse buffer is written outside the refill function")
						} else {
							c.OK(name, pos, "read-only sink "+n)
						}
					case cc.IsInvoke() && cn(cc.Method) == "Read" && fn == pi.refill:
						c.OK(name, pos, "reader destination inside the refill function")
					case n == "bytes.NewBuffer" || n == "bytes.NewReader" || n == "string":
						c.Violation(name, pos, "alias-newbuffer", n+" wraps the parse buffer without copying: the frame handed out aliases memory the next read overwrites")
					default:
						ro := false
						if cal := cc.StaticCallee(); cal != nil && p.InModule(cal) {
							for i, a := range cc.Args {
								if a == *op && p.paramReadOnly(cal, i, 0) {
									ro = true
								}
							}
						}
						if ro {
							c.OK(name, pos, "in-module callee only reads the slice")
						} else {
							c.Undecided(name, pos, "alias-callee:"+n, "a slice of the parse buffer is passed to "+n+", which is not in the table of read-only sinks and is not shown to only read it")
						}
					}
				default:
					// phi, binop on slices etc.
					if _, isPhi := in.(*ssa.Phi); isPhi {
						continue
					}
					c.Undecided(name, pos, fmt.Sprintf("alias-use:%T", in), fmt.Sprintf("unclassified use of a parse-buffer slice (%T)", in))
				}
			}
		})
	}
}

func c12R3(c *Ctx) {
	p := c.P
	pi := getParser(p)
	fn := pi.refill
	name := FuncName(fn)
	// stores to the window field
	var read ssa.CallInstruction
	for _, cl := range Calls(fn) {
		cc := cl.Common()
		if cc.IsInvoke() && cn(cc.Method) == "Read" {
			read = cl
		}
	}
	// destination of the read = buffer[len(buffer):cap(buffer)]
	do := p.Origin(read.Common().Args[0])
	okDest := do.Kind == "slice" && isFieldOrg(do.Base, pi.fBuf) && do.X != nil && do.X.IsCallTo("len") && do.Y != nil && do.Y.IsCallTo("cap") &&
		isFieldOrg(do.X.Args[0], pi.fBuf) && isFieldOrg(do.Y.Args[0], pi.fBuf)
	c.Check(okDest, name, p.InstrPos(read), "read-dest", "reads into buffer[len(buffer):cap(buffer)]", "the reader's destination is "+do.String()+", not the free tail buffer[len:cap] of the window: buffered bytes would be overwritten or a gap left")
	nRepoint := 0
	for _, st := range p.FieldStores(pi.fBuf) {
		if st.Fn != fn {
			c.Check(st.Fn != nil && p.Origin(st.Store.Val).Kind == "slice" && isFieldOrg(p.Origin(st.Store.Val).Base, pi.fBuf), FuncName(st.Fn), p.InstrPos(st.Store), "window-consume", "outside the refill the window is only re-sliced (consumed)", "the window is assigned "+p.Origin(st.Store.Val).String()+" outside the refill function")
			continue
		}
		vo := p.Origin(st.Store.Val)
		if InstrDominates(read, st.Store) {
			// extension after the read: buffer[:len(buffer)+n], n = this read's count
			ok := vo.Kind == "slice" && isFieldOrg(vo.Base, pi.fBuf) && vo.X == nil && vo.Y != nil && vo.Y.Kind == "binop" && vo.Y.Op == token.ADD &&
				vo.Y.X.IsCallTo("len") && isFieldOrg(vo.Y.X.Args[0], pi.fBuf) && vo.Y.Y.Kind == "call" && vo.Y.Y.CallI == read.(ssa.Instruction) && vo.Y.Y.Res == 0
			c.Check(ok, name, p.InstrPos(st.Store), "window-extend", "window extended by exactly the read count", "after the read the window becomes "+vo.String()+"; expected buffer[:len(buffer)+n] with n the count returned by that read")
			continue
		}
		// re-point before the read: value is a slice of bigBuffer; copy(new, old) must precede on all paths
		nRepoint++
		v := stripConv(st.Store.Val)
		copied := false
		for _, cl := range Calls(fn) {
			if cc := builtinCallOf(cl, "copy"); cc != nil && InstrDominates(cl, st.Store) {
				if stripConv(cc.Args[0]) == v && isFieldOrg(p.Origin(cc.Args[1]), pi.fBuf) {
					copied = true
				}
			}
		}
		fromBig := vo.All(func(x *Org) bool { return x.Kind == "slice" && isFieldOrg(x.Base, pi.fBig) })
		// each candidate window keeps the old length: [0:len(buffer)] (or [0:0] when nothing was buffered)
		keepsLen := vo.All(func(x *Org) bool {
			if x.Kind != "slice" || x.Y == nil {
				return false
			}
			if x.Y.IsConstInt(0) {
				return true
			}
			return x.Y.IsCallTo("len") && isFieldOrg(x.Y.Args[0], pi.fBuf)
		})
		c.Check(copied && fromBig && keepsLen, name, p.InstrPos(st.Store), "repoint", "re-pointed window = bigBuffer[0:len(buffer)] after copy(newWindow, buffer)",
			fmt.Sprintf("the window is re-pointed to %s: old content copied first=%v, taken from the backing array=%v, keeps the buffered length=%v — buffered bytes of a partially received message would be lost or shifted", vo.String(), copied, fromBig, keepsLen))
	}
	if nRepoint == 0 {
		c.Violation(name, p.Pos(fn.Pos()), "no-repoint", "the refill function never re-points the window when it is full")
	}
}

func c12R4(c *Ctx) {
	p := c.P
	pi := getParser(p)
	tainted := func(o *Org) (bool, string) {
		var why string
		t := o.Mentions(func(x *Org) bool {
			if (x.IsCallTo("len") || x.IsCallTo("cap")) && len(x.Args) == 1 && (isFieldOrg(x.Args[0], pi.fBuf) || isFieldOrg(x.Args[0], pi.fBig)) {
				why = x.String()
				return true
			}
			if x.Kind == "call" && x.Method != nil && cn(x.Method) == "Read" && x.Res == 0 {
				why = "the read count"
				return true
			}
			if x.Kind == "call" && x.Callee == pi.refill && x.Res == 0 {
				why = "the refill's count"
				return true
			}
			return false
		})
		return t, why
	}
	for _, fn := range pi.methods {
		if fn == pi.refill {
			continue
		}
		name := FuncName(fn)
		// returned integers
		for _, b := range fn.Blocks {
			r, ok := b.Instrs[len(b.Instrs)-1].(*ssa.Return)
			if !ok {
				continue
			}
			for _, res := range r.Results {
				if bt, ok := res.Type().Underlying().(*types.Basic); !ok || bt.Info()&types.IsInteger == 0 {
					continue
				}
				t, why := tainted(p.Origin(res))
				c.Check(!t, name, p.InstrPos(r), "tainted-return", "returned index does not depend on buffered length / read sizes", "a returned index is computed from "+why+": the frame boundaries would depend on how the stream was split into reads")
			}
		}
		// slice bounds on the window outside the refill
		ForEachInstr(fn, func(in ssa.Instruction) {
			sl, ok := in.(*ssa.Slice)
			if !ok {
				return
			}
			if _, isW := derivedLoad(p, sl.X, pi.fBuf); !isW {
				return
			}
			for _, bnd := range []ssa.Value{sl.Low, sl.High} {
				if bnd == nil {
					continue
				}
				t, why := tainted(p.Origin(bnd))
				c.Check(!t, name, p.InstrPos(sl), "tainted-bound", "frame cut at content-derived indices", "the buffer is cut at a bound computed from "+why)
			}
		})
	}
	// the find loop: refill until found — the only uses of len(buffer) outside the refill are comparisons
	for _, fn := range pi.methods {
		if fn == pi.refill {
			continue
		}
		ForEachInstr(fn, func(in ssa.Instruction) {
			cl, ok := in.(*ssa.Call)
			if !ok {
				return
			}
			if cc := builtinCallOf(in, "len"); cc != nil && (isFieldOrg(p.Origin(cc.Args[0]), pi.fBuf)) {
				for _, r := range *cl.Referrers() {
					if b, isB := r.(*ssa.BinOp); isB {
						switch b.Op {
						case token.LSS, token.LEQ, token.GTR, token.GEQ, token.EQL, token.NEQ:
							continue
						}
					}
					if strings.Contains(FuncName(fn), "ReadMessage") {
						if _, isCall := r.(ssa.CallInstruction); isCall {
							continue // logging
						}
					}
					c.Violation(FuncName(fn), p.InstrPos(r), "len-used-as-data", "len(buffer) is used as a value (not only compared) outside the refill function")
				}
			}
		})
	}
}

// paramReadOnly: the function only reads the slice parameter: element loads, len/cap, range,
// re-slicing that is itself only read, and passing it on to read-only sinks. It neither
// stores, returns, boxes nor sends it.
func (p *Prog) paramReadOnly(fn *ssa.Function, idx int, depth int) bool {
	if fn == nil || fn.Blocks == nil || idx >= len(fn.Params) || depth > 2 {
		return false
	}
	var ok func(v ssa.Value, d int) bool
	ok = func(v ssa.Value, d int) bool {
		if d > 6 {
			return false
		}
		refs := v.Referrers()
		if refs == nil {
			return true
		}
		for _, r := range *refs {
			switch x := r.(type) {
			case *ssa.IndexAddr:
				for _, rr := range *x.Referrers() {
					if u, isU := rr.(*ssa.UnOp); !isU || u.Op != token.MUL {
						return false
					}
				}
			case *ssa.Index, *ssa.Range, *ssa.DebugRef:
			case *ssa.Slice:
				if !ok(x, d+1) {
					return false
				}
			case *ssa.Phi:
				if !ok(x, d+1) {
					return false
				}
			case *ssa.BinOp:
				// comparison with nil
			case ssa.CallInstruction:
				cc := x.Common()
				n := callName(cc)
				switch n {
				case "len", "cap", "bytes.Index", "bytes.IndexByte", "bytes.Equal", "bytes.HasPrefix", "bytes.Count", "string":
					continue
				}
				if n == "copy" && len(cc.Args) == 2 && cc.Args[1] == v && cc.Args[0] != v {
					continue
				}
				cal := cc.StaticCallee()
				if cal == nil || !p.InModule(cal) {
					return false
				}
				for i, a := range cc.Args {
					if a == v && !p.paramReadOnly(cal, i, depth+1) {
						return false
					}
				}
			case *ssa.Convert:
				// string(b) copies
				if bt, isB := x.Type().Underlying().(*types.Basic); !isB || bt.Kind() != types.String {
					return false
				}
			default:
				return false
			}
		}
		return true
	}
	return ok(fn.Params[idx], 0)
}

func c12R5(c *Ctx) {
	p := c.P
	pi := getParser(p)
	n := 0
	for _, fn := range pi.methods {
		if fn == pi.refill {
			continue
		}
		name := FuncName(fn)
		for _, b := range fn.Blocks {
			r, ok := b.Instrs[len(b.Instrs)-1].(*ssa.Return)
			if !ok {
				continue
			}
			for _, res := range r.Results {
				if !isErrorType(res.Type()) {
					continue
				}
				o := p.Origin(res)
				if !(o.Kind == "call" && o.Callee == pi.refill && o.Res == 1) {
					continue
				}
				n++
				d := p.ReachCond(b)
				okG := d.Implies(func(a *Atom) bool {
					return a.Rel == "==" && a.L.Kind == "call" && a.L.CallI == o.CallI && a.L.Res == 0 && a.R.IsConstInt(0)
				})
				c.Check(okG, name, p.InstrPos(r), "error-only-when-empty-read", "gives up on a read error only if that read returned no bytes",
					"the search gives up on the refill's error under "+d.String()+" without requiring that the same read returned zero bytes: bytes delivered together with io.EOF are dropped, so the last message is framed or lost depending on how the stream was split into reads")
			}
		}
	}
	if n == 0 {
		c.Violation("", "-", "no-read-error-exit", "no function of the parser propagates the refill's error")
	}
}

// C12-R6: one framing parser per byte stream. A parser buffers ahead; bytes it has read beyond
// the frame it returned exist only in its buffer. Handing the same reader to a second parser
// loses them, and how many are lost depends on how the stream was split into reads. In every
// function, a reader value is wrapped by at most one parser constructor call.
func c12R6(c *Ctx) {
	p := c.P
	pi := getParser(p)
	// constructors: in-module functions returning *parser
	isCtor := func(fn *ssa.Function) bool {
		if fn == nil || !p.InModule(fn) || fn.Signature.Results().Len() != 1 {
			return false
		}
		pt, ok := fn.Signature.Results().At(0).Type().(*types.Pointer)
		return ok && types.Identical(pt.Elem(), pi.T)
	}
	n := 0
	for _, fn := range p.FuncsIn(modPath) {
		byReader := map[string][]ssa.CallInstruction{}
		for _, f := range WithClosures(fn) {
			for _, cl := range Calls(f) {
				if cal := cl.Common().StaticCallee(); isCtor(cal) && len(cl.Common().Args) > 0 {
					ro := p.Origin(cl.Common().Args[0])
					k := ro.String()
					if ro.Val != nil {
						k = fmt.Sprintf("%p", stripConv(ro.Val))
					}
					byReader[k] = append(byReader[k], cl)
				}
			}
		}
		for _, cls := range byReader {
			n++
			c.Check(len(cls) == 1, FuncName(fn), p.InstrPos(cls[0].(ssa.Instruction)), "one-parser-per-reader", "the reader is wrapped by one parser",
				fmt.Sprintf("the same reader is wrapped by %d framing parsers (second at %s): bytes the first one buffered beyond the frame it returned are lost to the second, so which frames the session sees depends on how the stream was split into reads", len(cls), p.InstrPos(cls[len(cls)-1].(ssa.Instruction))))
		}
	}
	if n == 0 {
		c.Violation("", "-", "no-parser-construction", "no function constructs a framing parser")
	}
}
