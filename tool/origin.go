package main

// Origin(v): where a value comes from, as a structural descriptor that does not depend
// on local names or source positions.

import (
	"fmt"
	"go/constant"
	"go/token"
	"go/types"
	"sort"
	"strings"

	"golang.org/x/tools/go/ssa"
)

type Org struct {
	Kind string // const param field call global zero binop unop index lookup slice make phi typeassert closure deref outarg outrecv new range next unknown
	Val  ssa.Value

	Const constant.Value // const (nil Const with Kind const == nil literal)
	Param int            // param
	Fn    *ssa.Function  // param: owning function; closure: the closure body

	Field *types.Var // field
	Base  *Org       // field, deref, typeassert(X), index(X), lookup(X), slice(X), unop(X), range(X)

	Call   *ssa.CallCommon // call, outarg, outrecv
	CallI  ssa.Instruction
	Callee *ssa.Function // static callee (nil for invoke / dynamic)
	Method *types.Func   // invoke-mode or static method object
	Recv   *Org
	Args   []*Org
	Res    int // result index for tuple-returning calls (0 if single)
	ArgIdx int // outarg: which argument carried the address

	Op   token.Token // binop/unop
	X, Y *Org        // binop; index: Y = index; lookup: Y = key; slice: X=low Y=high

	Alts    []*Org     // phi
	AssTyp  types.Type // typeassert
	Global  *ssa.Global
	Builtin string

	str string
}

type originCtx struct {
	p         *Prog
	memo      map[ssa.Value]*Org
	stack     map[ssa.Value]bool
	allocMemo map[*ssa.Alloc]*Org
	allocBusy map[*ssa.Alloc]bool
}

func (p *Prog) newOriginCtx() *originCtx {
	return &originCtx{p: p, memo: map[ssa.Value]*Org{}, stack: map[ssa.Value]bool{}, allocMemo: map[*ssa.Alloc]*Org{}, allocBusy: map[*ssa.Alloc]bool{}}
}

var globalOrigins *originCtx

// Origin computes the origin of v (memoised over the program).
func (p *Prog) Origin(v ssa.Value) *Org {
	if globalOrigins == nil || globalOrigins.p != p {
		globalOrigins = p.newOriginCtx()
	}
	return globalOrigins.origin(v, 0)
}

const maxOriginDepth = 14

func (c *originCtx) origin(v ssa.Value, depth int) *Org {
	if v == nil {
		return &Org{Kind: "unknown"}
	}
	if o, ok := c.memo[v]; ok {
		return o
	}
	if c.stack[v] || depth > maxOriginDepth {
		return &Org{Kind: "unknown", Val: v, str: "…"}
	}
	c.stack[v] = true
	o := c.compute(v, depth)
	delete(c.stack, v)
	if o.Val == nil {
		o.Val = v
	}
	c.memo[v] = o
	return o
}

func (c *originCtx) compute(v ssa.Value, d int) *Org {
	switch x := v.(type) {
	case *ssa.Const:
		return &Org{Kind: "const", Const: x.Value, Val: v}
	case *ssa.Parameter:
		fn := x.Parent()
		for i, pr := range fn.Params {
			if pr == x {
				return &Org{Kind: "param", Param: i, Fn: fn, Val: v}
			}
		}
		return &Org{Kind: "param", Param: -1, Fn: fn, Val: v}
	case *ssa.FreeVar:
		// resolve through the unique MakeClosure that binds it
		fn := x.Parent()
		idx := -1
		for i, fv := range fn.FreeVars {
			if fv == x {
				idx = i
			}
		}
		if par := fn.Parent(); par != nil && idx >= 0 {
			var binds []ssa.Value
			for _, b := range par.Blocks {
				for _, in := range b.Instrs {
					if mc, ok := in.(*ssa.MakeClosure); ok && mc.Fn == fn {
						binds = append(binds, mc.Bindings[idx])
					}
				}
			}
			if len(binds) == 1 {
				return c.origin(binds[0], d+1)
			}
		}
		return &Org{Kind: "unknown", Val: v, str: "freevar:" + x.Name()}
	case *ssa.Global:
		return &Org{Kind: "global", Global: x, Val: v}
	case *ssa.Function:
		return &Org{Kind: "closure", Fn: x, Val: v}
	case *ssa.MakeClosure:
		return &Org{Kind: "closure", Fn: x.Fn.(*ssa.Function), Val: v}
	case *ssa.MakeInterface:
		return c.origin(x.X, d+1)
	case *ssa.ChangeType:
		return c.origin(x.X, d+1)
	case *ssa.ChangeInterface:
		return c.origin(x.X, d+1)
	case *ssa.Convert:
		return c.origin(x.X, d+1)
	case *ssa.MultiConvert:
		return c.origin(x.X, d+1)
	case *ssa.SliceToArrayPointer:
		return c.origin(x.X, d+1)
	case *ssa.Alloc:
		// the address itself
		return &Org{Kind: "new", Val: v}
	case *ssa.FieldAddr:
		st := derefStruct(x.X.Type())
		if st == nil {
			return &Org{Kind: "unknown", Val: v}
		}
		return &Org{Kind: "field", Field: st.Field(x.Field), Base: c.addrBase(x.X, d+1), Val: v}
	case *ssa.Field:
		st, _ := x.X.Type().Underlying().(*types.Struct)
		if st == nil {
			return &Org{Kind: "unknown", Val: v}
		}
		return &Org{Kind: "field", Field: st.Field(x.Field), Base: c.origin(x.X, d+1), Val: v}
	case *ssa.IndexAddr:
		return &Org{Kind: "index", Base: c.addrBase(x.X, d+1), Y: c.origin(x.Index, d+1), Val: v}
	case *ssa.Index:
		return &Org{Kind: "index", Base: c.origin(x.X, d+1), Y: c.origin(x.Index, d+1), Val: v}
	case *ssa.Lookup:
		return &Org{Kind: "lookup", Base: c.origin(x.X, d+1), Y: c.origin(x.Index, d+1), Val: v}
	case *ssa.Slice:
		o := &Org{Kind: "slice", Base: c.addrBase(x.X, d+1), Val: v}
		if x.Low != nil {
			o.X = c.origin(x.Low, d+1)
		}
		if x.High != nil {
			o.Y = c.origin(x.High, d+1)
		}
		return o
	case *ssa.MakeSlice:
		return &Org{Kind: "make", X: c.origin(x.Len, d+1), Val: v}
	case *ssa.MakeMap:
		return &Org{Kind: "make", Val: v}
	case *ssa.MakeChan:
		return &Org{Kind: "make", Val: v}
	case *ssa.BinOp:
		return &Org{Kind: "binop", Op: x.Op, X: c.origin(x.X, d+1), Y: c.origin(x.Y, d+1), Val: v}
	case *ssa.UnOp:
		if x.Op == token.MUL {
			return c.load(x, d)
		}
		if x.Op == token.ARROW {
			return &Org{Kind: "unop", Op: x.Op, Base: c.origin(x.X, d+1), Val: v}
		}
		return &Org{Kind: "unop", Op: x.Op, Base: c.origin(x.X, d+1), Val: v}
	case *ssa.TypeAssert:
		return &Org{Kind: "typeassert", Base: c.origin(x.X, d+1), AssTyp: x.AssertedType, Val: v}
	case *ssa.Extract:
		t := c.origin(x.Tuple, d+1)
		cp := *t
		cp.Res = x.Index
		cp.Val = v
		cp.str = ""
		return &cp
	case *ssa.Call:
		return c.call(x, &x.Call, d)
	case *ssa.Phi:
		o := &Org{Kind: "phi", Val: v}
		seen := map[string]bool{}
		for _, e := range x.Edges {
			a := c.origin(e, d+1)
			as := flattenAlts(a)
			for _, b := range as {
				k := b.String()
				if !seen[k] {
					seen[k] = true
					o.Alts = append(o.Alts, b)
				}
			}
		}
		if len(o.Alts) == 1 {
			return o.Alts[0]
		}
		sort.Slice(o.Alts, func(i, j int) bool { return o.Alts[i].String() < o.Alts[j].String() })
		return o
	case *ssa.Range:
		return &Org{Kind: "range", Base: c.origin(x.X, d+1), Val: v}
	case *ssa.Next:
		return &Org{Kind: "next", Base: c.origin(x.Iter, d+1), Val: v}
	case *ssa.Select:
		return &Org{Kind: "unknown", Val: v, str: "select"}
	}
	return &Org{Kind: "unknown", Val: v}
}

func flattenAlts(o *Org) []*Org {
	if o.Kind == "phi" {
		return o.Alts
	}
	return []*Org{o}
}

func derefStruct(t types.Type) *types.Struct {
	if p, ok := t.Underlying().(*types.Pointer); ok {
		t = p.Elem()
	}
	st, _ := t.Underlying().(*types.Struct)
	return st
}

// addrBase: the origin of the object an address expression points into. For an Alloc the
// object is identified with the values stored in it ("the local"); for other pointers it
// is the pointer's origin (fields of *T and T are not distinguished).
func (c *originCtx) addrBase(v ssa.Value, d int) *Org {
	if a, ok := v.(*ssa.Alloc); ok {
		return c.allocContent(a, nil, d)
	}
	if fv, ok := v.(*ssa.FreeVar); ok {
		o := c.origin(fv, d+1)
		if o.Kind == "new" {
			if a, ok := o.Val.(*ssa.Alloc); ok {
				return c.allocContent(a, nil, d)
			}
		}
		return o
	}
	return c.origin(v, d+1)
}

// load: *addr
func (c *originCtx) load(x *ssa.UnOp, d int) *Org {
	switch a := x.X.(type) {
	case *ssa.Alloc:
		if v := sameBlockStore(a, x); v != nil {
			return c.origin(v, d+1)
		}
		return c.allocContent(a, x, d)
	case *ssa.FreeVar:
		o := c.origin(a, d+1)
		if o.Kind == "new" {
			if al, ok := o.Val.(*ssa.Alloc); ok {
				return c.allocContent(al, x, d)
			}
		}
		return &Org{Kind: "deref", Base: o, Val: x}
	case *ssa.FieldAddr, *ssa.IndexAddr:
		o := c.origin(a, d+1)
		cp := *o
		cp.Val = x
		return &cp
	case *ssa.Global:
		return &Org{Kind: "global", Global: a, Val: x}
	}
	return &Org{Kind: "deref", Base: c.origin(x.X, d+1), Val: x}
}

// allocWriters collects everything that may write the cell: direct stores, stores through
// closures that capture it, and calls that receive its address (out-parameters / pointer receivers).
type cellWriter struct {
	store  *ssa.Store
	call   ssa.CallInstruction
	argIdx int // -1 receiver
}

func (c *originCtx) cellWriters(addr ssa.Value, seen map[ssa.Value]bool, out *[]cellWriter) {
	if seen[addr] {
		return
	}
	seen[addr] = true
	refs := addr.Referrers()
	if refs == nil {
		return
	}
	for _, r := range *refs {
		switch in := r.(type) {
		case *ssa.Store:
			if in.Addr == addr {
				*out = append(*out, cellWriter{store: in})
			}
		case *ssa.MakeClosure:
			fn := in.Fn.(*ssa.Function)
			for i, b := range in.Bindings {
				if b == addr && i < len(fn.FreeVars) {
					c.cellWriters(fn.FreeVars[i], seen, out)
				}
			}
		case *ssa.MakeInterface:
			c.cellWriters(in, seen, out)
		case *ssa.ChangeType:
			c.cellWriters(in, seen, out)
		case *ssa.ChangeInterface:
			c.cellWriters(in, seen, out)
		case ssa.CallInstruction:
			cc := in.Common()
			if cc.IsInvoke() && cc.Value == addr {
				*out = append(*out, cellWriter{call: in, argIdx: -1})
				continue
			}
			for i, a := range cc.Args {
				if a == addr {
					idx := i
					if !cc.IsInvoke() && cc.Signature().Recv() != nil {
						idx = i - 1 // receiver is Args[0] for static method calls
					}
					*out = append(*out, cellWriter{call: in, argIdx: idx})
				}
			}
		}
	}
}

func (c *originCtx) allocContent(a *ssa.Alloc, at *ssa.UnOp, d int) *Org {
	if o, ok := c.allocMemo[a]; ok {
		return o
	}
	if c.allocBusy[a] || d > maxOriginDepth {
		return &Org{Kind: "unknown", Val: a, str: "self"}
	}
	c.allocBusy[a] = true
	o := c.allocContent1(a, at, d)
	delete(c.allocBusy, a)
	c.allocMemo[a] = o
	return o
}

func (c *originCtx) allocContent1(a *ssa.Alloc, at *ssa.UnOp, d int) *Org {
	var ws []cellWriter
	c.cellWriters(a, map[ssa.Value]bool{}, &ws)
	o := &Org{Kind: "phi", Val: a}
	seen := map[string]bool{}
	add := func(x *Org) {
		for _, b := range flattenAlts(x) {
			k := b.String()
			if !seen[k] {
				seen[k] = true
				o.Alts = append(o.Alts, b)
			}
		}
	}
	for _, w := range ws {
		if w.store != nil {
			add(c.origin(w.store.Val, d+1))
			continue
		}
		cc := w.call.Common()
		// pointer-receiver methods that only read are not writers, but we cannot tell
		// cheaply; keep them as possible origins (rules select the one they care about).
		oc := c.callOrg(w.call, cc, d)
		cp := *oc
		if w.argIdx < 0 {
			cp.Kind = "outrecv"
		} else {
			cp.Kind = "outarg"
			cp.ArgIdx = w.argIdx
		}
		cp.str = ""
		add(&cp)
	}
	if len(o.Alts) == 0 {
		k := "zero"
		if a.Comment == "complit" {
			k = "lit"
		}
		et := a.Type().Underlying().(*types.Pointer).Elem()
		return &Org{Kind: k, Val: a, AssTyp: et}
	}
	if len(o.Alts) == 1 {
		return o.Alts[0]
	}
	sort.Slice(o.Alts, func(i, j int) bool { return o.Alts[i].String() < o.Alts[j].String() })
	return o
}

func (c *originCtx) call(v ssa.Value, cc *ssa.CallCommon, d int) *Org {
	o := c.callOrg(v.(ssa.Instruction), cc, d)
	cp := *o
	cp.Val = v
	return &cp
}

func (c *originCtx) callOrg(in ssa.Instruction, cc *ssa.CallCommon, d int) *Org {
	o := &Org{Kind: "call", Call: cc, CallI: in}
	if cc.IsInvoke() {
		o.Method = cc.Method
		o.Recv = c.origin(cc.Value, d+1)
		for _, a := range cc.Args {
			o.Args = append(o.Args, c.origin(a, d+1))
		}
		return o
	}
	o.Callee = cc.StaticCallee()
	args := cc.Args
	if o.Callee != nil {
		if m, ok := o.Callee.Object().(*types.Func); ok {
			o.Method = m
		}
		if o.Callee.Signature.Recv() != nil && len(args) > 0 {
			o.Recv = c.addrOrValue(args[0], d+1)
			args = args[1:]
		}
	} else if b, ok := cc.Value.(*ssa.Builtin); ok {
		o.Builtin = b.Name()
	} else {
		// dynamic call through a function value
		o.Recv = c.origin(cc.Value, d+1)
	}
	for _, a := range args {
		o.Args = append(o.Args, c.origin(a, d+1))
	}
	return o
}

// addrOrValue: a receiver that is the address of a local denotes the local.
func (c *originCtx) addrOrValue(v ssa.Value, d int) *Org {
	switch v.(type) {
	case *ssa.Alloc, *ssa.FreeVar:
		return c.addrBase(v, d)
	}
	return c.origin(v, d)
}

// CalleeName returns a short name of the called function/method: "(T).M" or "pkg.F".
func (o *Org) CalleeName() string {
	if o.Callee != nil {
		return FuncName(o.Callee)
	}
	if o.Method != nil {
		return methodName(o.Method)
	}
	if o.Builtin != "" {
		return o.Builtin
	}
	return "dynamic"
}

func methodName(m *types.Func) string {
	sig := m.Type().(*types.Signature)
	if r := sig.Recv(); r != nil {
		t := r.Type()
		if p, ok := t.(*types.Pointer); ok {
			t = p.Elem()
		}
		if n, ok := t.(*types.Named); ok {
			return "(" + n.Obj().Name() + ")." + m.Name()
		}
		return "(iface)." + m.Name()
	}
	if m.Pkg() != nil {
		return m.Pkg().Name() + "." + m.Name()
	}
	return m.Name()
}

func (o *Org) String() string {
	if o == nil {
		return "nil"
	}
	if o.str != "" {
		return o.str
	}
	o.str = o.render(0)
	return o.str
}

func (o *Org) render(depth int) string {
	if o == nil {
		return "_"
	}
	if o.str != "" {
		return o.str
	}
	if depth > 10 {
		return "…"
	}
	r := func(x *Org) string { return x.render(depth + 1) }
	switch o.Kind {
	case "const":
		if o.Const == nil {
			return "nil"
		}
		return o.Const.ExactString()
	case "param":
		return fmt.Sprintf("param#%d", o.Param)
	case "field":
		return r(o.Base) + "." + cn(o.Field)
	case "global":
		return "global:" + o.Global.Name()
	case "zero", "lit":
		return o.Kind + ":" + types.TypeString(o.AssTyp, func(p *types.Package) string { return "" })
	case "new":
		return "addr"
	case "closure":
		return "closure"
	case "deref":
		return "*" + r(o.Base)
	case "binop":
		return "(" + r(o.X) + " " + o.Op.String() + " " + r(o.Y) + ")"
	case "unop":
		return o.Op.String() + r(o.Base)
	case "index":
		return r(o.Base) + "[" + r(o.Y) + "]"
	case "lookup":
		s := r(o.Base) + "{" + r(o.Y) + "}"
		if o.Res == 1 {
			s += "#ok"
		}
		return s
	case "slice":
		return r(o.Base) + "[" + r(o.X) + ":" + r(o.Y) + "]"
	case "make":
		if o.X != nil {
			return "make(" + r(o.X) + ")"
		}
		return "make"
	case "typeassert":
		s := r(o.Base) + ".(" + types.TypeString(o.AssTyp, func(p *types.Package) string { return "" }) + ")"
		if o.Res == 1 {
			s += "#ok"
		}
		return s
	case "phi":
		var parts []string
		for _, a := range o.Alts {
			parts = append(parts, r(a))
		}
		return "φ{" + strings.Join(parts, " | ") + "}"
	case "range":
		return "range(" + r(o.Base) + ")"
	case "next":
		return fmt.Sprintf("next(%s)#%d", r(o.Base), o.Res)
	case "call", "outarg", "outrecv":
		var parts []string
		if o.Recv != nil {
			parts = append(parts, "recv="+r(o.Recv))
		}
		for _, a := range o.Args {
			parts = append(parts, r(a))
		}
		s := o.CalleeName() + "(" + strings.Join(parts, ", ") + ")"
		switch o.Kind {
		case "outarg":
			return fmt.Sprintf("out#%d:%s", o.ArgIdx, s)
		case "outrecv":
			return "outrecv:" + s
		}
		if o.Res > 0 {
			s += fmt.Sprintf("#%d", o.Res)
		}
		return s
	}
	if o.Val != nil {
		return "?" + fmt.Sprintf("%T", o.Val)
	}
	return "?"
}

// ---- predicates used by rules --------------------------------------------------

// Any reports whether pred holds for o or any of its phi alternatives.
func (o *Org) Any(pred func(*Org) bool) bool {
	if o == nil {
		return false
	}
	if o.Kind == "phi" {
		for _, a := range o.Alts {
			if pred(a) {
				return true
			}
		}
		return false
	}
	return pred(o)
}

// All reports whether pred holds for every alternative.
func (o *Org) All(pred func(*Org) bool) bool {
	if o == nil {
		return false
	}
	if o.Kind == "phi" {
		for _, a := range o.Alts {
			if !pred(a) {
				return false
			}
		}
		return len(o.Alts) > 0
	}
	return pred(o)
}

// IsConstInt: constant integer with value n.
func (o *Org) IsConstInt(n int64) bool {
	if o == nil || o.Kind != "const" || o.Const == nil {
		return false
	}
	if o.Const.Kind() != constant.Int {
		return false
	}
	v, ok := constant.Int64Val(o.Const)
	return ok && v == n
}

func (o *Org) ConstIntVal() (int64, bool) {
	if o == nil || o.Kind != "const" || o.Const == nil || o.Const.Kind() != constant.Int {
		return 0, false
	}
	return constant.Int64Val(o.Const)
}

func (o *Org) ConstStringVal() (string, bool) {
	if o == nil || o.Kind != "const" || o.Const == nil || o.Const.Kind() != constant.String {
		return "", false
	}
	return constant.StringVal(o.Const), true
}

func (o *Org) ConstBoolVal() (bool, bool) {
	if o == nil || o.Kind != "const" || o.Const == nil || o.Const.Kind() != constant.Bool {
		return false, false
	}
	return constant.BoolVal(o.Const), true
}

func (o *Org) IsNil() bool { return o != nil && o.Kind == "const" && o.Const == nil }

// IsCallTo: a call (or out-parameter of a call) whose callee/method is named name, e.g. "(FieldMap).GetInt".
func (o *Org) IsCallTo(names ...string) bool {
	if o == nil || (o.Kind != "call" && o.Kind != "outarg" && o.Kind != "outrecv") {
		return false
	}
	n := o.CalleeName()
	for _, w := range names {
		if n == w {
			return true
		}
	}
	return false
}

// ArgConstInt: the i-th (non-receiver) argument is the integer constant n.
func (o *Org) ArgConstInt(i int, n int64) bool {
	return o != nil && i < len(o.Args) && o.Args[i].IsConstInt(n)
}

// FieldPath returns "a.b.c" names for a chain of field selections, and the root.
func (o *Org) FieldPath() (root *Org, path []string) {
	for o != nil && (o.Kind == "field" || o.Kind == "deref") {
		if o.Kind == "field" {
			path = append([]string{cn(o.Field)}, path...)
		}
		o = o.Base
	}
	return o, path
}

// IsField reports whether o is a selection of the given field object.
func (o *Org) IsField(f *types.Var) bool {
	return o != nil && o.Kind == "field" && o.Field == f
}

// Mentions reports whether pred holds anywhere inside the descriptor tree.
func (o *Org) Mentions(pred func(*Org) bool) bool {
	return o.mentions(pred, 0)
}

func (o *Org) mentions(pred func(*Org) bool, d int) bool {
	if o == nil || d > 12 {
		return false
	}
	if pred(o) {
		return true
	}
	for _, s := range []*Org{o.Base, o.Recv, o.X, o.Y} {
		if s.mentions(pred, d+1) {
			return true
		}
	}
	for _, a := range o.Args {
		if a.mentions(pred, d+1) {
			return true
		}
	}
	for _, a := range o.Alts {
		if a.mentions(pred, d+1) {
			return true
		}
	}
	return false
}

// sameBlockStore: flow-sensitive refinement for the defer-spilled result idiom
// (`*slot = v; rundefers; t = *slot; return t`): the last store to the cell earlier in the
// load's own block, provided nothing in between can write the cell (no call except
// rundefers, and the cell is not captured by a closure).
func sameBlockStore(a *ssa.Alloc, ld *ssa.UnOp) ssa.Value {
	for _, r := range *a.Referrers() {
		if _, ok := r.(*ssa.MakeClosure); ok {
			return nil
		}
	}
	b := ld.Block()
	var last ssa.Value
	for _, in := range b.Instrs {
		if in == ssa.Instruction(ld) {
			return last
		}
		switch x := in.(type) {
		case *ssa.Store:
			if x.Addr == ssa.Value(a) {
				last = x.Val
			}
		case *ssa.RunDefers:
		case ssa.CallInstruction:
			// a call that receives the address could write it
			for _, arg := range x.Common().Args {
				if arg == ssa.Value(a) {
					last = nil
				}
			}
		}
	}
	return nil
}

// ContentOrigin: like Origin, but for the address of a local returns what the local holds.
func (p *Prog) ContentOrigin(v ssa.Value) *Org {
	o := p.Origin(v)
	if o.Kind == "new" {
		if al, ok := o.Val.(*ssa.Alloc); ok {
			return globalOrigins.allocContent(al, nil, 0)
		}
	}
	return o
}

// Sig renders the descriptor for ledger keys: like String, but in-module callees are named by
// their shape (receiver type and signature) instead of their name, and nothing is cached.
func (o *Org) Sig() string { return o.sigRender(0) }

func (o *Org) sigCallee() string {
	if o.Callee != nil {
		if pk := fnPkg(o.Callee); pk != nil && strings.HasPrefix(pk.Pkg.Path(), modPath) {
			return fnShape(o.Callee)
		}
		return FuncName(o.Callee)
	}
	return o.CalleeName()
}

func (o *Org) sigRender(depth int) string {
	if o == nil {
		return "_"
	}
	if depth > 10 {
		return "…"
	}
	r := func(x *Org) string { return x.sigRender(depth + 1) }
	switch o.Kind {
	case "field":
		return r(o.Base) + "." + cn(o.Field)
	case "deref":
		return "*" + r(o.Base)
	case "binop":
		return "(" + r(o.X) + " " + o.Op.String() + " " + r(o.Y) + ")"
	case "unop":
		return o.Op.String() + r(o.Base)
	case "index":
		return r(o.Base) + "[" + r(o.Y) + "]"
	case "lookup":
		s := r(o.Base) + "{" + r(o.Y) + "}"
		if o.Res == 1 {
			s += "#ok"
		}
		return s
	case "slice":
		return r(o.Base) + "[" + r(o.X) + ":" + r(o.Y) + "]"
	case "make":
		if o.X != nil {
			return "make(" + r(o.X) + ")"
		}
		return "make"
	case "typeassert":
		s := r(o.Base) + ".(" + types.TypeString(o.AssTyp, func(p *types.Package) string { return "" }) + ")"
		if o.Res == 1 {
			s += "#ok"
		}
		return s
	case "phi":
		var parts []string
		for _, a := range o.Alts {
			parts = append(parts, r(a))
		}
		sort.Strings(parts)
		return "φ{" + strings.Join(parts, " | ") + "}"
	case "range":
		return "range(" + r(o.Base) + ")"
	case "next":
		return fmt.Sprintf("next(%s)#%d", r(o.Base), o.Res)
	case "call", "outarg", "outrecv":
		var parts []string
		if o.Recv != nil {
			parts = append(parts, "recv="+r(o.Recv))
		}
		for _, a := range o.Args {
			parts = append(parts, r(a))
		}
		s := o.sigCallee() + "(" + strings.Join(parts, ", ") + ")"
		switch o.Kind {
		case "outarg":
			return fmt.Sprintf("out#%d:%s", o.ArgIdx, s)
		case "outrecv":
			return "outrecv:" + s
		}
		if o.Res > 0 {
			s += fmt.Sprintf("#%d", o.Res)
		}
		return s
	}
	return o.render(depth)
}

// Inlined looks through calls to small in-module helpers: when o is a call whose static
// callee is a single-block function (no branches) returning one expression, the result is
// that expression with the callee's parameters replaced by the call's arguments. Applied
// where a rule matches the shape of an expression, so that extracting the expression into
// a helper does not change the verdict.
func (p *Prog) Inlined(o *Org) *Org { return p.inlined(o, 0) }

func (p *Prog) inlined(o *Org, depth int) *Org {
	if o == nil || depth > 4 {
		return o
	}
	if o.Kind != "call" || o.Callee == nil || !p.InModule(o.Callee) || len(o.Callee.Blocks) != 1 {
		return o
	}
	cal := o.Callee
	ret, ok := cal.Blocks[0].Instrs[len(cal.Blocks[0].Instrs)-1].(*ssa.Return)
	if !ok || o.Res >= len(ret.Results) {
		return o
	}
	body := p.Origin(ret.Results[o.Res])
	var actual []*Org
	if o.Recv != nil {
		actual = append(actual, o.Recv)
	}
	actual = append(actual, o.Args...)
	if len(actual) != len(cal.Params) {
		return o
	}
	out := substOrg(body, func(x *Org) *Org {
		if x.Kind == "param" && x.Fn == cal && x.Param < len(actual) {
			return actual[x.Param]
		}
		return nil
	}, 0)
	return p.inlined(out, depth+1)
}

func substOrg(o *Org, f func(*Org) *Org, d int) *Org {
	if o == nil || d > 12 {
		return o
	}
	if r := f(o); r != nil {
		return r
	}
	cp := *o
	cp.str = ""
	changed := false
	sub := func(x *Org) *Org {
		y := substOrg(x, f, d+1)
		if y != x {
			changed = true
		}
		return y
	}
	cp.Base, cp.Recv, cp.X, cp.Y = sub(o.Base), sub(o.Recv), sub(o.X), sub(o.Y)
	if len(o.Args) > 0 {
		cp.Args = make([]*Org, len(o.Args))
		for i, a := range o.Args {
			cp.Args[i] = sub(a)
		}
	}
	if len(o.Alts) > 0 {
		cp.Alts = make([]*Org, len(o.Alts))
		for i, a := range o.Alts {
			cp.Alts[i] = sub(a)
		}
	}
	if !changed {
		return o
	}
	return &cp
}

// DeepMentions is Mentions that also looks into the results of in-module callees (any return,
// up to three calls deep): a computation moved into a helper is still seen.
func (p *Prog) DeepMentions(o *Org, pred func(*Org) bool) bool {
	return p.deepMentions(o, pred, 0, map[*ssa.Function]bool{})
}

func (p *Prog) deepMentions(o *Org, pred func(*Org) bool, depth int, busy map[*ssa.Function]bool) bool {
	if o == nil {
		return false
	}
	return o.Mentions(func(x *Org) bool {
		if pred(x) {
			return true
		}
		if x.Kind == "call" && x.Callee != nil && p.InModule(x.Callee) && depth < 3 && !busy[x.Callee] {
			busy[x.Callee] = true
			defer delete(busy, x.Callee)
			for _, b := range x.Callee.Blocks {
				if r, ok := b.Instrs[len(b.Instrs)-1].(*ssa.Return); ok && x.Res < len(r.Results) {
					if p.deepMentions(p.Origin(r.Results[x.Res]), pred, depth+1, busy) {
						return true
					}
				}
			}
		}
		return false
	})
}
