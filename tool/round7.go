package main

// Rules added after the seventh round of independently written changes (variants m/n).

import (
	"fmt"
	"go/token"
	"go/types"
	"strings"
	"time"

	"golang.org/x/tools/go/ssa"
)

// C03-R11: any error from the application's resend callback declines the resend. The function
// that asks the application whether a stored message may be sent again (it invokes
// Application.ToApp and returns a bool) answers true only when ToApp returned nil: on first
// transmission any non-nil error keeps a message off the wire, so treating only one particular
// error value as a refusal resends what the application declined.
func c03R11(c *Ctx) {
	p := c.P
	n := 0
	for _, cs := range p.InvokeSites(p.Named(modPath, "Application"), "ToApp") {
		fn := cs.Fn
		res := fn.Signature.Results()
		if res.Len() != 1 {
			continue
		}
		if b, ok := res.At(0).Type().Underlying().(*types.Basic); !ok || b.Kind() != types.Bool {
			continue
		}
		call := cs.Call.(ssa.Instruction)
		for _, b := range fn.Blocks {
			ret, ok := b.Instrs[len(b.Instrs)-1].(*ssa.Return)
			if !ok || b == fn.Recover || !InstrDominates(call, ret) && call.Block() != b {
				continue
			}
			for _, alt := range p.valueAlternatives(ret.Results[0], b, 0) {
				n++
				o := p.Origin(alt.val)
				ok := false
				if v, isC := o.ConstBoolVal(); isC {
					ok = !v || alt.cond.Implies(nilErrAtomFor(call))
				} else if o.Kind == "binop" && o.Op == token.EQL {
					// ToApp(...) == nil
					for _, pr := range [][2]*Org{{o.X, o.Y}, {o.Y, o.X}} {
						if pr[1].IsNil() && pr[0].Kind == "call" && pr[0].CallI == call {
							ok = true
						}
					}
				}
				c.Check(ok, FuncName(fn), p.InstrPos(ret), "resend-agreed-only-on-nil", "the resend is agreed only when ToApp returned nil",
					"the function that asks the application about a resend answers "+clip(o.String(), 100)+": a true answer does not require that ToApp returned nil, so a message the application declined with an error of its own is resent as PossDup instead of being gap-filled")
			}
		}
	}
	if n == 0 {
		c.Violation("", "-", "no-resend-decider", "no bool function consults Application.ToApp")
	}
}

// C16-R16 (= C07-R13): a database-backed store resets its cached counters only after the medium
// was reset. In the Reset method of the stores that keep their state in a database, the cache reset
// is reached only on the nil-error edge of the statement that deletes the stored messages: a
// failed reset must not leave the live counters at 1 while the database still holds the old
// sequence. (The file store resets its cache first and re-reads everything with Refresh at the
// end; tabulated, see the note.)
func c16R16(c *Ctx) {
	p := c.P
	n := 0
	for _, s := range getStores(p) {
		if s.Cache == nil {
			continue
		}
		fn := s.method["Reset"]
		if fn == nil {
			continue
		}
		if s.Kind == "file" {
			c.Note("%s: resets the cache first, closes and removes its files and ends with Refresh (the cache is re-read from the medium); a failed removal returns the error with the files closed — not judged", FuncName(fn))
			continue
		}
		var cacheReset ssa.CallInstruction
		for _, cl := range s.cacheCalls(p, fn) {
			if cn(cl.Common().Method) == "Reset" || cl.Common().StaticCallee() != nil && fnName(cl.Common().StaticCallee()) == "Reset" {
				cacheReset = cl
			}
		}
		if cacheReset == nil {
			c.Violation(FuncName(fn), p.Pos(fn.Pos()), "no-cache-reset", "Reset does not reset the cached counters")
			continue
		}
		// the medium writes: database calls returning an error
		var firstWrite ssa.CallInstruction
		for _, cl := range Calls(fn) {
			nm := callName(cl.Common())
			if strings.HasSuffix(nm, ").Exec") || strings.HasSuffix(nm, ").DeleteMany") || strings.HasSuffix(nm, ").DeleteOne") || strings.HasSuffix(nm, ").UpdateOne") {
				if firstWrite == nil || InstrDominates(cl.(ssa.Instruction), firstWrite.(ssa.Instruction)) {
					firstWrite = cl
				}
			}
		}
		n++
		ok := firstWrite != nil && p.ReachCond(cacheReset.Block()).Implies(nilErrAtomFor(firstWrite.(ssa.Instruction)))
		c.Check(ok, FuncName(fn), p.InstrPos(cacheReset.(ssa.Instruction)), "cache-reset-after-medium", "the cached counters are reset only after the stored messages were deleted",
			"the cached counters are reset before the statement that deletes the stored messages has succeeded: when that statement fails, Reset returns an error but the live store already reports 1/1 while the database keeps the old sequence — the next connection numbers from 1 with nothing agreed, and a restart jumps back")
	}
	if n == 0 {
		c.Violation("", "-", "no-db-store-reset", "no database-backed store with a Reset method found")
	}
}

// C08-R12: once the engine has sent its Logout because the session window ended or rolled over,
// the session is taken out of the logged-on state on every path. In a function that calls the
// state's ShutdownNow, every return reached after that call has passed a setState.
func c08R12(c *Ctx) {
	p := c.P
	n := 0
	for _, fn := range p.FuncsIn(modPath) {
		if fnPkg(fn).Pkg.Path() != modPath {
			continue
		}
		var shuts []ssa.Instruction
		for _, cl := range Calls(fn) {
			if cl.Common().IsInvoke() && cn(cl.Common().Method) == "ShutdownNow" {
				shuts = append(shuts, cl.(ssa.Instruction))
			}
		}
		if len(shuts) == 0 {
			continue
		}
		mf := &MustFlow{Fn: fn, Transfer: func(in ssa.Instruction, s Set) {
			for _, sh := range shuts {
				if in == sh {
					delete(s, "left")
					s["shut"] = true
				}
			}
			if cl, ok := in.(ssa.CallInstruction); ok {
				if cal := cl.Common().StaticCallee(); cal != nil && fnName(cal) == "setState" {
					s["left"] = true
				}
			}
		}}
		for ret, s := range mf.AtReturns() {
			if ret.Block() == fn.Recover {
				continue
			}
			after := false
			for _, sh := range shuts {
				if InstrDominates(sh, ret) || blockReaches(sh.Block(), ret.Block()) {
					after = true
				}
			}
			if !after {
				continue
			}
			n++
			// paths that did not go through a ShutdownNow carry no obligation: must-facts cannot tell, so
			// judge by reachability from each shutdown along paths avoiding setState
			bad := false
			for _, sh := range shuts {
				if reachesAvoiding(sh, ret, func(in ssa.Instruction) bool {
					cl, ok := in.(ssa.CallInstruction)
					return ok && cl.Common().StaticCallee() != nil && fnName(cl.Common().StaticCallee()) == "setState"
				}) {
					bad = true
				}
			}
			_ = s
			c.Check(!bad, FuncName(fn), p.InstrPos(ret), "state-left-after-shutdown", "after ShutdownNow the state is changed before returning",
				"after the state's ShutdownNow (the engine's Logout is on the wire) this return is reachable without a setState: the session stays logged on, OnLogout is not delivered, and application messages sent afterwards go out behind the Logout")
		}
	}
	if n == 0 {
		c.Violation("", "-", "no-shutdown-sites", "no function calls ShutdownNow on the session state")
	}
}

// reachesAvoiding: some path from just after `from` to `to` contains no instruction satisfying stop.
func reachesAvoiding(from, to ssa.Instruction, stop func(ssa.Instruction) bool) bool {
	type item struct {
		b   *ssa.BasicBlock
		idx int
	}
	seen := map[*ssa.BasicBlock]bool{}
	var walk func(b *ssa.BasicBlock, idx int) bool
	walk = func(b *ssa.BasicBlock, idx int) bool {
		for i := idx; i < len(b.Instrs); i++ {
			in := b.Instrs[i]
			if in == to {
				return true
			}
			if stop(in) {
				return false
			}
		}
		for _, s := range b.Succs {
			if seen[s] {
				continue
			}
			seen[s] = true
			if walk(s, 0) {
				return true
			}
		}
		return false
	}
	return walk(from.Block(), instrIndex(from)+1)
}

// C09-K10: the message table is indexed by type only after the type was found in it. Validation
// rules index DataDictionary.Messages[msgType] and dereference the result without an ok test; this
// is safe because the pipelines first call the rule that tests for the type with the comma-ok form
// and rejects when it is absent. In every pipeline function each call of an indexing rule is
// therefore reached only on the nil-result edge of a call of the testing rule for the same
// dictionary and type — unconditionally, not under a setting.
func c09K10(c *Ctx) {
	p := c.P
	fMsgs := p.Field(modPath+"/datadictionary", "DataDictionary", "Messages")
	indexing := map[*ssa.Function]bool{}
	testing := map[*ssa.Function]bool{}
	for _, fn := range p.FuncsIn(modPath) {
		if fnPkg(fn).Pkg.Path() != modPath {
			continue
		}
		ForEachInstr(fn, func(in ssa.Instruction) {
			l, ok := in.(*ssa.Lookup)
			if !ok || !isFieldOrg(p.Origin(l.X), fMsgs) {
				return
			}
			if l.CommaOk {
				testing[fn] = true
				return
			}
			for _, r := range *l.Referrers() {
				switch x := r.(type) {
				case *ssa.FieldAddr:
					if x.X == ssa.Value(l) {
						indexing[fn] = true
					}
				case *ssa.UnOp:
					if x.Op == token.MUL && x.X == ssa.Value(l) {
						indexing[fn] = true
					}
				}
			}
		})
	}
	n := 0
	for _, fn := range p.FuncsIn(modPath) {
		if fnPkg(fn).Pkg.Path() != modPath {
			continue
		}
		for _, cl := range Calls(fn) {
			cal := cl.Common().StaticCallee()
			if cal == nil || !indexing[cal] || testing[cal] {
				continue
			}
			n++
			d := p.ReachCond(cl.Block())
			ok := false
			for _, t := range Calls(fn) {
				tc := t.Common().StaticCallee()
				if tc == nil || !testing[tc] {
					continue
				}
				if impliesModuloParams(d, nilErrAtomFor(t.(ssa.Instruction))) {
					ok = true
				}
			}
			c.Check(ok, FuncName(fn), p.InstrPos(cl.(ssa.Instruction)), "type-tested-before-indexed:"+FuncName(cal), FuncName(cal)+" runs only after the message type was found in the dictionary",
				FuncName(cal)+" indexes the dictionary's message table by MsgType and dereferences the entry, and it is called without a dominating, passed test that the type is in the table (the testing rule is missing or runs only under a setting): a well-framed message of a type the dictionary does not define makes validation dereference nil, and the panic escapes the goroutine that processes inbound messages")
		}
	}
	if n < 2 {
		c.Violation("", "-", "no-indexing-rules", "fewer than two calls of validation rules that index the message table found")
	}
}

// C11-R11: the built-in section tables are consulted first. In the classifier functions (tag and
// dictionary in, bool out) the call of the tag's own built-in test ((Tag).IsHeader / IsTrailer) is
// reached unconditionally and its positive answer is returned: a supplied dictionary can add to
// the section, never take a standard tag out of it.
func c11R11(c *Ctx) {
	p := c.P
	n := 0
	for _, fn := range p.FuncsIn(modPath) {
		if fnPkg(fn).Pkg.Path() != modPath || fn.Signature.Recv() != nil || fn.Signature.Params().Len() != 2 || fn.Signature.Results().Len() != 1 {
			continue
		}
		if typeName(fn.Signature.Params().At(0).Type()) != "Tag" || !isPtrToNamed(fn.Signature.Params().At(1).Type(), "DataDictionary") {
			continue
		}
		var builtin ssa.CallInstruction
		for _, cl := range Calls(fn) {
			if cal := cl.Common().StaticCallee(); cal != nil && cal.Signature.Recv() != nil && typeName(cal.Signature.Recv().Type()) == "Tag" && (fnName(cal) == "IsHeader" || fnName(cal) == "IsTrailer") {
				builtin = cl
			}
		}
		if builtin == nil {
			continue
		}
		n++
		d := p.ReachCond(builtin.Block())
		uncond := len(d.Atoms()) == 0
		returned := false
		for _, b := range fn.Blocks {
			ret, ok := b.Instrs[len(b.Instrs)-1].(*ssa.Return)
			if !ok {
				continue
			}
			for _, alt := range p.valueAlternatives(ret.Results[0], b, 0) {
				if v, isC := p.Origin(alt.val).ConstBoolVal(); isC && v {
					as := alt.cond.Atoms()
					if len(as) == 1 && as[0].Rel == "" && as[0].Val && as[0].B.Kind == "call" && as[0].B.CallI == builtin.(ssa.Instruction) {
						returned = true
					}
				}
			}
		}
		c.Check(uncond && returned, FuncName(fn), p.InstrPos(builtin.(ssa.Instruction)), "builtin-table-first", "the built-in table is asked on every call and its yes is returned",
			"the classifier asks the tag's built-in table only under "+clip(d.String(), 100)+" (or does not return its positive answer as it is): with a dictionary supplied, a standard header/trailer tag the dictionary's section does not list at top level (NoHops members, XMLDataLen under an old dictionary) is filed in the Body, and length-delimited XMLData is no longer extracted")
	}
	if n < 2 {
		c.Violation("", "-", "no-classifiers", "fewer than two section classifiers consulting a built-in table found")
	}
}

// C12-R9: the backing array is replaced only where the window is moved into the new one. Stores to
// the parser's backing-array field occur only in the refill function (which copies the live window
// first) — dropping or replacing it elsewhere leaves the window pointing into an array the refill
// no longer considers, and the bytes of a half-received message are lost at the next refill.
func c12R9(c *Ctx) {
	p := c.P
	pi := getParser(p)
	n := 0
	for _, st := range p.FieldStores(pi.fBig) {
		n++
		okFn := st.Fn == pi.refill
		if !okFn {
			// a constructor: the parser object is allocated in the same function
			if root, _ := p.Origin(st.Store.Addr).FieldPath(); root != nil && root.Val != nil {
				if al, isAl := root.Val.(*ssa.Alloc); isAl && al.Parent() == st.Fn {
					okFn = true
				}
			}
		}
		c.Check(okFn, FuncName(st.Fn), p.InstrPos(st.Store), "backing-array-owner", "the backing array is assigned by the refill function (or a constructor)",
			"the parser's backing array is assigned outside the refill function: the window keeps pointing into the old array while the refill starts over with a fresh one without copying the window, so the head of a message that straddles the switch is dropped and the stream is framed wrongly from there on")
	}
	if n == 0 {
		c.Violation("", "-", "no-backing-stores", "the parser's backing array is never assigned")
	}
}

// C14-R10: the unsigned decimal is cut, not rounded, to its scale. Its writer renders
// Decimal.Trunc(scale) (or Truncate) with StringFixed of the same scale: rounding can write a
// value larger than the one that was set.
func c14R10(c *Ctx) {
	p := c.P
	n := 0
	for _, fn := range p.FuncsIn(modPath) {
		rcv := fn.Signature.Recv()
		if rcv == nil || typeName(rcv.Type()) != "FIXUDecimal" || fn.Signature.Params().Len() != 0 || fn.Signature.Results().Len() != 1 {
			continue
		}
		if sl, ok := fn.Signature.Results().At(0).Type().Underlying().(*types.Slice); !ok || !types.Identical(sl.Elem(), types.Typ[types.Byte]) {
			continue
		}
		for _, cl := range Calls(fn) {
			if !strings.HasSuffix(callName(cl.Common()), "Decimal).StringFixed") {
				continue
			}
			n++
			ro := p.Origin(cl.Common().Args[0])
			cut := ro.Kind == "call" && (strings.HasSuffix(callName(ro.Call), "Decimal).Trunc") || strings.HasSuffix(callName(ro.Call), "Decimal).Truncate"))
			sameScale := cut && len(ro.Args) == 1 && ro.Args[0].String() == p.Origin(cl.Common().Args[1]).String()
			c.Check(cut && sameScale, FuncName(fn), p.InstrPos(cl.(ssa.Instruction)), "udecimal-truncated", "StringFixed(scale) of Trunc(scale)",
				"the unsigned decimal is rendered from "+clip(ro.String(), 100)+", not from the value truncated to the written scale: a value with more fractional digits than the scale is written rounded, which can exceed what was set (1.999 at scale 2 becomes 2.00)")
		}
	}
	if n == 0 {
		c.Violation("", "-", "no-udecimal-writer", "the unsigned decimal type has no StringFixed writer")
	}
}

// C20-R11: a TestRequest is answered only once it is in sequence. In the handler that answers a
// TestRequest, the Heartbeat is built after the too-high comparison was made for the message (the
// comparison itself, the gate with that comparison switched on, or a thin wrapper that does so):
// a TestRequest behind a gap is stashed and answered when the recovery replays it — answering it
// on arrival as well gives the peer two Heartbeats for one TestReqID.
func c20R11(c *Ctx) {
	p := c.P
	g := getGate(p)
	t112 := p.Tag("tagTestReqID")
	highOn := func(cl ssa.CallInstruction) bool {
		cal := cl.Common().StaticCallee()
		if cal == nil {
			return false
		}
		if cal == g.tooHigh {
			return true
		}
		gateCallHigh := func(gc ssa.CallInstruction) bool {
			if g.pHigh < 0 || g.pHigh >= len(gc.Common().Args) {
				return false
			}
			v, isC := p.constBoolArg(gc.Common().Args[g.pHigh], 0)
			return isC && v
		}
		if cal == g.gate {
			return gateCallHigh(cl)
		}
		if isThinGateWrapper(p, g, cal) {
			for _, gc := range Calls(cal) {
				if gc.Common().StaticCallee() == g.gate {
					return gateCallHigh(gc)
				}
			}
		}
		return false
	}
	n := 0
	for _, fn := range p.FuncsIn(modPath) {
		if fnPkg(fn).Pkg.Path() != modPath {
			continue
		}
		sets := p.setTagCalls(fn, t112)
		answering := false
		for _, st := range sets {
			if p.ContentOrigin(st.val).Mentions(func(x *Org) bool { return (x.Kind == "outarg" || x.Kind == "call") && x.ArgConstInt(0, t112) }) {
				answering = true
			}
		}
		if !answering {
			continue
		}
		mf := &MustFlow{Fn: fn, Transfer: func(in ssa.Instruction, s Set) {
			if cl, ok := in.(ssa.CallInstruction); ok && highOn(cl) {
				s["high"] = true
			}
		}}
		for _, st := range sets {
			n++
			c.Check(mf.Before(st.call.(ssa.Instruction))["high"], FuncName(fn), p.InstrPos(st.call), "testrequest-answered-in-sequence", "the answer is built after the too-high comparison",
				"the Heartbeat that answers a TestRequest is built on a path on which the too-high comparison has not been made for the message: a TestRequest that arrives ahead of a gap is answered at once, stashed by the recovery, and answered a second time when the stash is replayed")
		}
	}
	if n == 0 {
		c.Violation("", "-", "no-testrequest-answer", "no function answers a TestRequest with its TestReqID")
	}
}

// impliesModuloParams: like DNF.Implies, but a conjunct that demands contradictory things of an
// immutable operand (a parameter compared with nil twice, with opposite outcomes) is infeasible and
// does not count.
func impliesModuloParams(d DNF, pred func(*Atom) bool) bool {
	for _, e := range d.Extra {
		if impliesModuloParams(e, pred) {
			return true
		}
	}
	if d.Overflow || len(d.Cs) == 0 {
		return false
	}
	pure := func(o *Org) bool {
		return o != nil && (o.Kind == "param" || o.Kind == "const" || o.IsNil())
	}
	any := false
	for _, cj := range d.Cs {
		infeasible := constInfeasible(cj)
		for i := 0; i < len(cj) && !infeasible; i++ {
			a := cj[i]
			if a.Rel == "" || !pure(a.L) || !pure(a.R) {
				continue
			}
			for j := i + 1; j < len(cj); j++ {
				if cj[j].String() == a.negKey() {
					infeasible = true
				}
			}
		}
		if infeasible {
			continue
		}
		any = true
		ok := false
		for _, a := range cj {
			if pred(a) {
				ok = true
				break
			}
		}
		if !ok {
			return false
		}
	}
	return any
}

// evalDayExpr evaluates an integer origin expression over (weekday of the instant, configured end
// day); ok is false when the expression has a leaf the evaluator does not know.
func evalDayExpr(o *Org, weekday, endDay int64, isWeekday, isEndDay func(*Org) bool) (int64, bool) {
	if o == nil {
		return 0, false
	}
	if v, ok := o.ConstIntVal(); ok {
		return v, true
	}
	if isWeekday(o) {
		return weekday, true
	}
	if isEndDay(o) {
		return endDay, true
	}
	switch o.Kind {
	case "binop":
		x, okx := evalDayExpr(o.X, weekday, endDay, isWeekday, isEndDay)
		y, oky := evalDayExpr(o.Y, weekday, endDay, isWeekday, isEndDay)
		if !okx || !oky {
			return 0, false
		}
		switch o.Op {
		case token.ADD:
			return x + y, true
		case token.SUB:
			return x - y, true
		case token.MUL:
			return x * y, true
		case token.REM:
			if y == 0 {
				return 0, false
			}
			return x % y, true
		}
	}
	if o.Val != nil {
		if cv, ok := o.Val.(*ssa.Convert); ok {
			return evalDayExpr(originOfConv(o, cv), weekday, endDay, isWeekday, isEndDay)
		}
	}
	return 0, false
}

func originOfConv(o *Org, cv *ssa.Convert) *Org {
	if o.Base != nil {
		return o.Base
	}
	return nil
}

// C18-R11: the days from an instant to the close of its weekly window are right for every pair of
// weekdays. For each alternative of the day count (the days argument of AddDate in the weekly code)
// whose guard orders the configured end day and the instant's weekday, the count — evaluated over all
// 49 pairs that satisfy the guard — equals the distance to the next end day, (endDay − weekday) mod 7.
// (The equal-days alternative is the business of C18-R8.) This is a finite evaluation of the
// integer expression in the source; nothing is run.
func c18R11(c *Ctx) {
	p := c.P
	pkg := modPath + "/internal"
	tr := p.Named(pkg, "TimeRange")
	fEndDay := p.Field(pkg, "TimeRange", "endDay")
	isWeekday := func(o *Org) bool { return o.IsCallTo("(time.Time).Weekday") }
	isEndDay := func(o *Org) bool {
		return o.Mentions(func(x *Org) bool { return x.Kind == "field" && x.Field == fEndDay }) && !o.Mentions(isWeekday) && o.Kind != "binop"
	}
	n := 0
	for _, fn := range p.FuncsIn(pkg) {
		rcv := fn.Signature.Recv()
		if rcv == nil || namedOf(rcv.Type()) != tr {
			continue
		}
		for _, cl := range Calls(fn) {
			if callName(cl.Common()) != "(time.Time).AddDate" || len(cl.Common().Args) != 4 {
				continue
			}
			var alts []valueAlt
			switch dv := cl.Common().Args[3].(type) {
			case *ssa.Phi:
				alts = p.valueAlternatives(dv, cl.Block(), 0)
			case *ssa.Call:
				if cal := dv.Call.StaticCallee(); cal != nil && p.InModule(cal) && len(cal.Blocks) > 0 {
					for _, b := range cal.Blocks {
						if ret, isR := b.Instrs[len(b.Instrs)-1].(*ssa.Return); isR && len(ret.Results) == 1 && b != cal.Recover {
							alts = append(alts, p.valueAlternatives(ret.Results[0], b, 0)...)
						}
					}
				}
			}
			for _, alt := range alts {
				// the ordering the guard imposes on (endDay, weekday)
				type rel struct {
					rel        string
					endOnLeft  bool
				}
				var rels []rel
				for _, a := range allAtoms(alt.cond) {
					if a.Rel == "" || a.L == nil || a.R == nil {
						continue
					}
					if !alt.cond.Implies(func(x *Atom) bool { return x.ID() == a.ID() }) {
						continue
					}
					switch {
					case isEndDay(a.L) && isWeekday(a.R):
						rels = append(rels, rel{a.Rel, true})
					case isWeekday(a.L) && isEndDay(a.R):
						rels = append(rels, rel{a.Rel, false})
					}
				}
				if len(rels) == 0 {
					continue
				}
				holds := func(r rel, e, w int64) bool {
					l, rr := e, w
					if !r.endOnLeft {
						l, rr = w, e
					}
					switch r.rel {
					case "<":
						return l < rr
					case "<=":
						return l <= rr
					case "==":
						return l == rr
					case "!=":
						return l != rr
					}
					return true
				}
				vo := p.Origin(alt.val)
				bad := ""
				decided := false
				for e := int64(0); e < 7; e++ {
					for w := int64(0); w < 7; w++ {
						sat := true
						for _, r := range rels {
							if !holds(r, e, w) {
								sat = false
							}
						}
						if !sat || e == w {
							continue
						}
						got, ok := evalDayExpr(vo, w, e, isWeekday, isEndDay)
						if !ok {
							continue
						}
						decided = true
						want := ((e-w)%7 + 7) % 7
						if got != want && bad == "" {
							bad = fmt.Sprintf("end day %s, instant on %s: %d day(s), expected %d", time.Weekday(e), time.Weekday(w), got, want)
						}
					}
				}
				if !decided {
					continue
				}
				n++
				c.Check(bad == "", FuncName(fn), p.InstrPos(cl.(ssa.Instruction)), "weekly-day-count:"+clip(vo.Sig(), 60), "the day count "+clip(vo.String(), 60)+" is the distance to the next end day for every weekday pair its guard admits",
					"the number of days added to reach the close of the weekly window is "+clip(vo.String(), 80)+"; evaluated over the weekday pairs its guard admits it is wrong ("+bad+"): the close is placed on the wrong day, and two instants of one window are reported as different sessions (or instants of two windows as the same)")
			}
		}
	}
	if n < 2 {
		c.Violation("", "-", "no-weekly-day-counts", "fewer than two evaluable day-count alternatives found in the weekly schedule code")
	}
}

// C12-R10: what a read delivered is kept, whatever error came with it. In the refill function every
// return after the reader was called has extended the window by that read's count: io.Reader may
// hand back bytes together with an error (the last bytes with io.EOF), and the callers carry on when
// bytes were read.
func c12R10(c *Ctx) {
	p := c.P
	pi := getParser(p)
	fn := pi.refill
	name := FuncName(fn)
	var read ssa.Instruction
	for _, cl := range Calls(fn) {
		cc := cl.Common()
		if cc.IsInvoke() && cn(cc.Method) == "Read" && isFieldOrg(p.Origin(cc.Value), pi.fReader) {
			read = cl.(ssa.Instruction)
		}
	}
	if read == nil {
		c.Violation(name, p.Pos(fn.Pos()), "no-read", "the refill function does not call the reader")
		return
	}
	mf := &MustFlow{Fn: fn, Transfer: func(in ssa.Instruction, s Set) {
		st, ok := in.(*ssa.Store)
		if !ok || fieldAddrOf(st.Addr, pi.fBuf) == nil {
			return
		}
		vo := p.Origin(st.Val)
		if vo.Kind == "slice" && vo.Y != nil && vo.Y.Mentions(func(x *Org) bool { return x.Kind == "call" && x.CallI == read }) {
			s["extended"] = true
		}
	}}
	n := 0
	for ret, s := range mf.AtReturns() {
		if ret.Block() == fn.Recover || !InstrDominates(read, ret) {
			continue
		}
		n++
		c.Check(s["extended"], name, p.InstrPos(ret), "read-count-always-added", "the window was extended by the read's count before this return",
			"the refill returns after a read without extending the window by the count the reader reported: bytes delivered together with an error (the end of the stream with io.EOF) are dropped, so the last messages are framed or lost depending on how the reader splits the stream")
	}
	if n == 0 {
		c.Violation(name, p.Pos(fn.Pos()), "no-return-after-read", "no return of the refill function follows the read")
	}
}

// C15-R14: the section-order tracker accepts exactly header* body* trailer*. The function that walks
// the fields and tracks the section with boolean state (it asks each tag IsHeader / IsTrailer inside a
// loop and rejects from inside it) is read as a finite automaton: for every value of its state
// variables and every class of tag (header, body, trailer) the loop body is evaluated on the CFG —
// conditions are the state variables, the two class tests, and the settings (taken as enabled) —
// giving the next state or a reject. The automaton, started in the loop's initial state, is then
// compared with the three-phase reference on every reachable (state, phase) pair: a field of an
// earlier section after a later one must be rejected, everything else accepted. Nothing is run: the
// transition table is computed from the source.
func c15R14(c *Ctx) {
	p := c.P
	n := 0
	for _, fn := range p.FuncsIn(modPath) {
		if fnPkg(fn).Pkg.Path() != modPath {
			continue
		}
		for _, l := range naturalLoops(fn) {
			var isH, isT bool
			for b := range l.body {
				for _, in := range b.Instrs {
					if cl, ok := in.(ssa.CallInstruction); ok {
						if cal := cl.Common().StaticCallee(); cal != nil && cal.Signature.Recv() != nil && typeName(cal.Signature.Recv().Type()) == "Tag" {
							if fnName(cal) == "IsHeader" {
								isH = true
							}
							if fnName(cal) == "IsTrailer" {
								isT = true
							}
						}
					}
				}
			}
			var state []*ssa.Phi
			for _, in := range l.header.Instrs {
				if phi, ok := in.(*ssa.Phi); ok {
					if b, isB := phi.Type().Underlying().(*types.Basic); isB && b.Kind() == types.Bool {
						state = append(state, phi)
					}
				}
			}
			if !isH || !isT || len(state) == 0 || len(state) > 4 {
				continue
			}
			n++
			name := FuncName(fn)
			type outcome struct {
				reject bool
				next   []bool
				ok     bool
			}
			// evaluate a boolean SSA value on the path being walked
			var evalB func(v ssa.Value, st []bool, class int, from *ssa.BasicBlock, depth int) (bool, bool)
			evalB = func(v ssa.Value, st []bool, class int, from *ssa.BasicBlock, depth int) (bool, bool) {
				if depth > 20 {
					return false, false
				}
				switch x := v.(type) {
				case *ssa.Const:
					if bv, ok := p.Origin(x).ConstBoolVal(); ok {
						return bv, true
					}
				case *ssa.Parameter:
					return true, true // a setting: taken as enabled
				case *ssa.UnOp:
					if x.Op == token.NOT {
						r, ok := evalB(x.X, st, class, from, depth+1)
						return !r, ok
					}
				case *ssa.Phi:
					for i, sp := range state {
						if sp == x {
							return st[i], true
						}
					}
					// short-circuit phi: take the edge of the predecessor we came from
					for i, pr := range x.Block().Preds {
						if pr == from {
							return evalB(x.Edges[i], st, class, nil, depth+1)
						}
					}
				case *ssa.Call:
					if cal := x.Call.StaticCallee(); cal != nil && cal.Signature.Recv() != nil && typeName(cal.Signature.Recv().Type()) == "Tag" {
						switch fnName(cal) {
						case "IsHeader":
							return class == 0, true
						case "IsTrailer":
							return class == 2, true
						}
					}
				case *ssa.BinOp:
					// len(value) == 0: the field has a value
					if x.Op == token.EQL {
						if k, isC := constIntOf(x.Y); isC && k == 0 {
							return false, true
						}
					}
					if x.Op == token.LSS || x.Op == token.GTR || x.Op == token.LEQ || x.Op == token.GEQ {
						return false, false
					}
				}
				return false, false
			}
			step := func(st []bool, class int) outcome {
				// the first block of the body: the in-loop successor of the header
				var cur, prev *ssa.BasicBlock
				prev = l.header
				for _, s := range l.header.Succs {
					if l.body[s] && s != l.header {
						cur = s
					}
				}
				for steps := 0; cur != nil && steps < 200; steps++ {
					if cur == l.header {
						// next state: the header phis on the edge from prev
						next := make([]bool, len(state))
						for i, sp := range state {
							for j, pr := range l.header.Preds {
								if pr == prev {
									v, ok := evalB(sp.Edges[j], st, class, nil, 0)
									if !ok {
										return outcome{}
									}
									next[i] = v
								}
							}
						}
						return outcome{next: next, ok: true}
					}
					last := cur.Instrs[len(cur.Instrs)-1]
					switch t := last.(type) {
					case *ssa.Return:
						rej := len(t.Results) > 0 && !p.Origin(t.Results[len(t.Results)-1]).IsNil()
						return outcome{reject: rej, next: st, ok: true}
					case *ssa.If:
						v, ok := evalB(t.Cond, st, class, prev, 0)
						if !ok {
							return outcome{}
						}
						prev = cur
						if v {
							cur = cur.Succs[0]
						} else {
							cur = cur.Succs[1]
						}
					case *ssa.Jump:
						prev = cur
						cur = cur.Succs[0]
					default:
						return outcome{}
					}
				}
				return outcome{}
			}
			// initial state: header phis on the edge from outside the loop
			init := make([]bool, len(state))
			okInit := true
			for i, sp := range state {
				for j, pr := range l.header.Preds {
					if !l.body[pr] {
						v, ok := evalB(sp.Edges[j], nil, 0, nil, 0)
						if !ok {
							okInit = false
						}
						init[i] = v
					}
				}
			}
			if !okInit {
				c.Undecided(name, p.InstrPos(l.header.Instrs[0]), "order-automaton-init", "the initial values of the section-tracking variables are not constants")
				continue
			}
			classes := []string{"header", "body", "trailer"}
			type node struct {
				st    []bool
				phase int
				path  string
			}
			key := func(st []bool, phase int) string { return fmt.Sprint(st, phase) }
			seen := map[string]bool{key(init, 0): true}
			queue := []node{{init, 0, ""}}
			bad, undecided := "", false
			for len(queue) > 0 && bad == "" {
				cur := queue[0]
				queue = queue[1:]
				for class := 0; class < 3; class++ {
					o := step(cur.st, class)
					if !o.ok {
						undecided = true
						continue
					}
					path := strings.TrimSpace(cur.path + " " + classes[class])
					wantReject := class < cur.phase
					if wantReject && !o.reject {
						bad = "the field sequence [" + path + "] is accepted although a " + classes[class] + " field follows a " + classes[cur.phase] + " field"
						break
					}
					if !wantReject && o.reject {
						bad = "the conforming field sequence [" + path + "] is rejected"
						break
					}
					if o.reject {
						continue
					}
					ph := cur.phase
					if class > ph {
						ph = class
					}
					if k := key(o.next, ph); !seen[k] {
						seen[k] = true
						queue = append(queue, node{o.next, ph, path})
					}
				}
			}
			if undecided && bad == "" {
				c.Undecided(name, p.InstrPos(l.header.Instrs[0]), "order-automaton", "the section tracker's loop body has a condition the evaluator does not model")
				continue
			}
			c.Check(bad == "", name, p.InstrPos(l.header.Instrs[0]), "order-automaton", fmt.Sprintf("the section tracker accepts exactly header* body* trailer* (%d state/phase pairs explored)", len(seen)),
				"read as an automaton over (header, body, trailer) fields with out-of-order checking enabled, "+bad+": a message whose fields are not in header/body/trailer order passes the order check (or a conforming one fails it) and is judged by the later rules only")
		}
	}
	if n == 0 {
		c.Violation("", "-", "no-order-tracker", "no loop tracking header/trailer sections with boolean state found")
	}
}

// C11-R12 (= C15-R15): what the parser hands on is exactly the fields it extracted. The field array
// is sized by counting SOH bytes before parsing, and an XMLData payload may contain SOH: the
// surplus entries (empty, or left over from the previous parse into the same Message) must not be
// seen by the consumers that range over Message.fields (the order/value check of validation, the
// copy). Every successful return of the parse function is dominated by a store that cuts
// Message.fields to the entries used: fields[:fieldIndex+1].
func c11R12(c *Ctx) {
	p := c.P
	parse, _ := p.parseFn()
	name := FuncName(parse)
	fFields := p.Field(modPath, "Message", "fields")
	fIdx := p.Field(modPath, "msgParser", "fieldIndex")
	var cuts []ssa.Instruction
	for _, st := range p.FieldStores(fFields) {
		if st.Fn != parse {
			continue
		}
		vo := p.Origin(st.Store.Val)
		if vo.Kind != "slice" || !isFieldOrg(vo.Base, fFields) || vo.Y == nil {
			continue
		}
		if vo.X != nil && !vo.X.IsConstInt(0) {
			continue
		}
		y := vo.Y
		if y.Kind == "binop" && y.Op == token.ADD && y.Y.IsConstInt(1) && isFieldOrg(y.X, fIdx) {
			cuts = append(cuts, st.Store)
		}
	}
	// the returns behind the field loop: those dominated by the final read of BodyLength(9)
	t9 := p.Tag("tagBodyLength")
	var lengthRead ssa.Instruction
	for _, cl := range Calls(parse) {
		if v, isV := cl.(ssa.Value); isV {
			if o := p.Origin(v); o.IsCallTo("(FieldMap).getIntNoLock", "(FieldMap).GetInt") && o.ArgConstInt(0, t9) {
				lengthRead = cl.(ssa.Instruction)
			}
		}
	}
	if lengthRead == nil {
		c.Violation(name, p.Pos(parse.Pos()), "no-bodylength-read", "the parse function does not read BodyLength(9) after its field loop")
		return
	}
	n := 0
	for _, b := range parse.Blocks {
		ret, ok := b.Instrs[len(b.Instrs)-1].(*ssa.Return)
		if !ok || b == parse.Recover || !InstrDominates(lengthRead, ret) {
			continue
		}
		n++
		// on every path the array was cut, or the index is already at/after its end (no surplus entry)
		isCut := map[ssa.Instruction]bool{}
		for _, s := range cuts {
			isCut[s] = true
		}
		mf := &MustFlow{Fn: parse, Transfer: func(in ssa.Instruction, st Set) {
			if isCut[in] {
				st["cut"] = true
			}
		}, Edge: func(from, to *ssa.BasicBlock, st Set) {
			if edgeCond(p, from, to).Implies(func(a *Atom) bool {
				if !a.L.IsCallTo("len") || len(a.L.Args) != 1 || !isFieldOrg(a.L.Args[0], fFields) {
					return false
				}
				if a.Rel == "<=" && isFieldOrg(a.R, fIdx) {
					return true
				}
				// len < index+1
				return a.Rel == "<" && a.R.Kind == "binop" && a.R.Op == token.ADD && a.R.Y.IsConstInt(1) && isFieldOrg(a.R.X, fIdx)
			}) {
				st["cut"] = true
			}
		}}
		okCut := mf.AtReturns()[ret]["cut"]
		c.Check(okCut, name, p.InstrPos(ret), "fields-cut-to-extracted", "Message.fields is cut to the extracted entries before a successful return",
			"the parser can return successfully with Message.fields still sized by the SOH count: when an XMLData payload contains SOH the array has surplus entries (empty, or stale from the previous parse into the same Message), and validation's order/value check, which ranges over the array, rejects a conforming message with \"Tag specified without a value\"")
	}
	if n == 0 {
		c.Violation(name, p.Pos(parse.Pos()), "no-success-return", "the parse function has no successful return")
	}
}
