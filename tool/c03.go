package main

import (
	"fmt"
	"go/token"
	"strings"

	"golang.org/x/tools/go/ssa"
)

func init() { register("C03", propC03) }

func propC03() Property {
	return Property{
		ID: "C03",
		Explanation: "R1 (clip guard): the requested end is replaced by (next outbound − 1) exactly under {end = 0 ∧ BeginString ≥ FIX.4.2} ∨ {end = 999999 ∧ BeginString ≤ FIX.4.2} ∨ {end ≥ next outbound}, and the replay runs from the requested begin to that end. " +
			"R2 (stamping order): the replay stamper sets PossDupFlag(43)=Y and OrigSendingTime(122) ← SendingTime(52) read BEFORE tag 52 is rewritten, then rewrites tag 52. R3: a stored message is re-sent only when it is not administrative and the application's resend callback agreed; otherwise its number is covered by a gap fill. " +
			"R4 (body identity): replayed bytes are buildWithBodyBytes(bodyBytes of the message parsed from the stored bytes), under its original MsgSeqNum (tag 34 is not touched by the stamper). R5 (gap fill): SequenceReset(4) with MsgSeqNum(34) ← begin parameter, NewSeqNo(36) ← end parameter, GapFillFlag(123)=Y, PossDupFlag(43)=Y; gap fills are emitted before a re-sent message when numbers were skipped and after the loop for the tail, with NewSeqNo = the next number replayed; the end of the tail gap fill is a cursor the replay callback advances past EVERY message it returns nil for (re-sent, administrative or declined), to that message's number + 1. R6 (what bodyBytes is): in the message parser the mark that ends the body (trailerBytes ← remaining bytes) is moved only after a field that was classified as a body field or group member — never after the header/trailer field that terminates a repeating group — so the bytes replayed as the body exclude CheckSum/Signature; and conversely every extracted field that is filed into the Body has moved the mark past itself first, so the replayed body does not lose its last field. R7 (shared with C02-R5): the replay — the iteration and everything the replay function sends after it — runs under resendMutex(W). R8 (shared with C16/C17): every store walks the whole requested range (holes are skipped, the callback's error is the only early exit) and the file store appends index lines at the end of the index file.",
		NotDecided: "contiguity of coverage as arithmetic over the stored history (the seqNum/nextSeqNum bookkeeping over all histories); byte-for-byte identity of the transmitted frame.",
		Rules: []RuleDef{
			{ID: "C03-R1", Desc: "ResendRequest range clipping", Min: 2, Run: c03R1},
			{ID: "C03-R2", Desc: "replay stamping order", Min: 3, Run: c03R2},
			{ID: "C03-R3", Desc: "never replay administrative or declined messages", Min: 2, Run: c03R3},
			{ID: "C03-R4", Desc: "replayed body bytes and sequence number are the stored ones", Min: 3, Run: c03R4},
			{ID: "C03-R5", Desc: "gap-fill field binding and placement", Min: 6, Run: c03R5},
			{ID: "C03-R6", Desc: "the end-of-body mark moves only over body fields", Min: 3, Run: c03R6},
			{ID: "C03-R7", Desc: "the whole reply to a ResendRequest is sent under the resend lock (= C02-R5)", Min: 3, Run: c02R5},
			{ID: "C03-R12", Desc: "a reset leaves no message of the previous epoch on any store (= C16-R4)", Min: 3, Run: c16R4},
			{ID: "C03-R11", Desc: "the resend of a stored message is agreed only when ToApp returned nil", Min: 1, Run: c03R11},
			{ID: "C03-R10", Desc: "sql store: what a send stores is keyed like what a replay reads (= C16-R14)", Min: 40, Run: c16R14},
			{ID: "C03-R9", Desc: "the start-of-body mark stops at the first body field", Min: 2, Run: c03R9},
			{ID: "C03-R8", Desc: "every store iterates the whole requested range; file index appended at its end (= C16-R3, C16-R13, C17-R2)", Min: 4, Run: func(c *Ctx) { c16R3(c); c16R13(c); c17R2(c) }},
		},
	}
}

// replayLoop: the function that iterates stored messages of session.store (with its closure).
func findReplay(p *Prog) (fn *ssa.Function, closure *ssa.Function, iter ssa.CallInstruction) {
	r := getRoles(p)
	for _, f := range p.FuncsIn(modPath) {
		for _, cl := range r.storeCalls(f, "IterateMessages") {
			fn, iter = f, cl
			for _, a := range cl.Common().Args {
				if mc, ok := a.(*ssa.MakeClosure); ok {
					closure = mc.Fn.(*ssa.Function)
				}
			}
		}
	}
	if fn == nil || closure == nil {
		anchorFail("replay loop (IterateMessages on session.store with a callback closure)")
	}
	return
}

func c03R1(c *Ctx) {
	p := c.P
	replay, _, _ := findReplay(p)
	fBegin := p.Field(modPath, "SessionID", "BeginString")
	t7, t16 := p.Tag("tagBeginSeqNo"), p.Tag("tagEndSeqNo")
	// the caller of the replay loop
	for _, cs := range p.CallsTo(replay) {
		fn := cs.Fn
		name := FuncName(fn)
		args := cs.Common().Args
		// args: recv, session, begin, end, inReplyTo
		beginO := p.Origin(args[2])
		okBegin := beginO.All(func(x *Org) bool {
			return (x.Kind == "outarg" || x.Kind == "call") && x.IsCallTo("(FieldMap).GetField", "(FieldMap).GetInt") && x.ArgConstInt(0, t7)
		})
		c.Check(okBegin, name, p.InstrPos(cs.Call), "begin-binding", "replay begins at the requested BeginSeqNo(7)", "replay begins at "+beginO.String()+", not at BeginSeqNo(7) of the request")
		end, ok := args[3].(*ssa.Phi)
		if !ok {
			c.Undecided(name, p.InstrPos(cs.Call), "end-shape", "replay end is not a merge of the requested end and the clipped end: "+p.Origin(args[3]).String())
			continue
		}
		isEnd := func(o *Org) bool {
			return o.All(func(x *Org) bool {
				return (x.Kind == "outarg" || x.Kind == "call") && x.IsCallTo("(FieldMap).GetField", "(FieldMap).GetInt") && x.ArgConstInt(0, t16)
			})
		}
		isNextSender := func(o *Org) bool { return o.IsCallTo("(MessageStore).NextSenderMsgSeqNum") }
		for i, e := range end.Edges {
			eo := p.Origin(e)
			pred := end.Block().Preds[i]
			d := dnfAnd(p.ReachCond(pred), edgeCond(p, pred, end.Block()))
			if eo.Kind == "binop" && eo.Op == token.SUB && isNextSender(eo.X) && eo.Y.IsConstInt(1) {
				// clipped: every way to get here is one of the three disjuncts
				okAll := len(d.Cs) > 0
				for _, cj := range d.Cs {
					var zero, nines, ge42, le42, beyond bool
					for _, a := range cj {
						switch {
						case a.Rel == "==" && isEnd(a.L) && a.R.IsConstInt(0):
							zero = true
						case a.Rel == "==" && isEnd(a.L) && a.R.IsConstInt(999999):
							nines = true
						case a.Rel == "<=" && constStr(a.L) == "FIX.4.2" && a.R.Kind == "field" && a.R.Field == fBegin:
							ge42 = true
						case a.Rel == "<=" && a.L.Kind == "field" && a.L.Field == fBegin && constStr(a.R) == "FIX.4.2":
							le42 = true
						case a.Rel == "<=" && isNextSender(a.L) && isEnd(a.R):
							beyond = true
						}
					}
					if !(zero && ge42 || nines && le42 || beyond) {
						okAll = false
					}
				}
				c.Check(okAll, name, p.InstrPos(cs.Call), "clip-guard", "end ← next outbound − 1 exactly for {0 ∧ ≥FIX.4.2} | {999999 ∧ ≤FIX.4.2} | {end ≥ next outbound}",
					"the requested end is replaced by 'last number used' under "+d.String()+"; allowed only for the infinity markers of the session's FIX version or an end at/after the next outbound number")
			} else if isEnd(eo) {
				// unclipped: requested end < next outbound and not a marker
				okU := d.Implies(func(a *Atom) bool { return a.Rel == "<" && isEnd(a.L) && isNextSender(a.R) })
				c.Check(okU, name, p.InstrPos(cs.Call), "unclipped", "requested end used as is only when it is below the next outbound number", "the requested end is used unclipped under "+d.String())
			} else {
				c.Violation(name, p.InstrPos(cs.Call), "end-source:"+eo.String(), "replay end comes from "+eo.String())
			}
		}
	}
}

func c03R2(c *Ctx) {
	p := c.P
	t43, t52, t122, t34 := p.Tag("tagPossDupFlag"), p.Tag("tagSendingTime"), p.Tag("tagOrigSendingTime"), p.Tag("tagMsgSeqNum")
	app := p.Named(modPath, "Application")
	// the stamper: sets 43 and 122 on its message parameter and asks the application (ToApp)
	var stamper *ssa.Function
	for _, cs := range p.InvokeSites(app, "ToApp") {
		if len(p.setTagCalls(cs.Fn, t122)) > 0 {
			stamper = cs.Fn
		}
	}
	if stamper == nil {
		c.Violation("", "-", "no-stamper", "no function stamps OrigSendingTime(122) and consults ToApp for a resend")
		return
	}
	name := FuncName(stamper)
	ins := p.sendingTimeFn()
	// PossDup
	okDup := false
	for _, st := range p.setTagCalls(stamper, t43) {
		if b, ok := p.Origin(st.val).ConstBoolVal(); ok && b {
			okDup = true
		}
	}
	c.Check(okDup, name, p.Pos(stamper.Pos()), "possdup", "PossDupFlag(43) = Y", "the replay stamper does not set PossDupFlag(43)=Y")
	// 122 ← 52 read before rewriting 52
	var rewrite ssa.Instruction
	for _, cl := range Calls(stamper) {
		if cl.Common().StaticCallee() == ins {
			rewrite = cl
		}
	}
	for _, st := range p.setTagCalls(stamper, t52) {
		rewrite = st.call
	}
	for _, st := range p.setTagCalls(stamper, t122) {
		vo := p.ContentOrigin(st.val)
		var read ssa.Instruction
		okSrc := vo.All(func(x *Org) bool {
			if x.CallI == st.call.(ssa.Instruction) {
				return true
			}
			if (x.Kind == "outarg" || x.Kind == "call") && x.IsCallTo("(FieldMap).GetField", "(FieldMap).GetString", "(FieldMap).GetBytes", "(FieldMap).GetTime") && x.ArgConstInt(0, t52) {
				read = x.CallI
				return true
			}
			return false
		})
		order := rewrite != nil && read != nil && InstrDominates(read, rewrite) &&
			!(reaches(rewrite.Block(), st.call.Block()) && rewrite.Block() != st.call.Block()) &&
			!(rewrite.Block() == st.call.Block() && InstrDominates(rewrite, st.call))
		c.Check(okSrc && order, name, p.InstrPos(st.call), "origsendingtime", "OrigSendingTime(122) ← SendingTime(52) read before tag 52 is rewritten",
			fmt.Sprintf("OrigSendingTime(122) is taken from %s (source is tag 52: %v; read and stored before the SendingTime rewrite: %v): a replay must carry the original SendingTime as OrigSendingTime", vo.String(), okSrc, order))
	}
	c.Check(rewrite != nil, name, p.Pos(stamper.Pos()), "sendingtime-rewrite", "SendingTime(52) rewritten for the retransmission", "the replay stamper does not refresh SendingTime(52)")
	// MsgSeqNum untouched
	c.Check(len(p.setTagCalls(stamper, t34)) == 0, name, p.Pos(stamper.Pos()), "seqnum-untouched", "MsgSeqNum(34) not rewritten by the stamper", "the replay stamper rewrites MsgSeqNum(34): replays must keep their original number")
}

func c03R3(c *Ctx) {
	p := c.P
	_, cb, _ := findReplay(p)
	r := getRoles(p)
	name := FuncName(cb)
	// the enqueue of replayed bytes
	n := 0
	for _, cl := range Calls(cb) {
		cal := cl.Common().StaticCallee()
		if cal == nil {
			continue
		}
		// raw enqueue role: a function that appends its parameter to toSend
		isRaw := false
		ForEachInstr(cal, func(in ssa.Instruction) {
			if st, ok := in.(*ssa.Store); ok && fieldAddrOf(st.Addr, r.fToSend) != nil {
				if ai := asAppend(st.Val); ai != nil && len(ai.Elems) == 1 && p.Origin(ai.Elems[0]).Kind == "param" {
					isRaw = true
				}
			}
		})
		if !isRaw {
			continue
		}
		ao := p.Origin(cl.Common().Args[1])
		ffB, fbB := p.builders()
		if !(ao.Kind == "call" && (ao.Callee == ffB || ao.Callee == fbB)) {
			continue
		}
		n++
		d := p.ReachCond(cl.Block())
		notAdmin := d.Implies(func(a *Atom) bool {
			return a.Rel == "" && !a.Val && a.B.Kind == "call" && a.B.Callee == p.adminTypeFn() && len(a.B.Args) == 1 && a.B.Args[0].IsCallTo("(FieldMap).GetBytes") && a.B.Args[0].ArgConstInt(0, p.Tag("tagMsgType"))
		})
		agreed := d.Implies(func(a *Atom) bool {
			return a.Rel == "" && a.Val && a.B.Kind == "call" && a.B.Callee != nil && p.reachesAny(a.B.Callee, func(f *ssa.Function) bool {
				for _, cs := range p.InvokeSites(p.Named(modPath, "Application"), "ToApp") {
					if cs.Fn == f {
						return true
					}
				}
				return false
			})
		})
		c.Check(notAdmin, name, p.InstrPos(cl), "no-admin-replay", "stored message re-sent only if its MsgType is not administrative", "a stored message is re-sent under "+d.String()+" without excluding administrative message types: Logons, Heartbeats, ResendRequests … would be replayed instead of gap-filled")
		c.Check(agreed, name, p.InstrPos(cl), "app-agreed", "stored message re-sent only if the application's resend callback agreed", "a stored message is re-sent even when the application declined (ToApp returned an error)")
	}
	if n == 0 {
		c.Violation(name, p.Pos(cb.Pos()), "no-replay-enqueue", "the replay callback never enqueues a rebuilt stored message")
	}
}

func c03R4(c *Ctx) {
	p := c.P
	_, cb, _ := findReplay(p)
	name := FuncName(cb)
	fBody := p.Field(modPath, "Message", "bodyBytes")
	n := 0
	for _, cl := range Calls(cb) {
		cal := cl.Common().StaticCallee()
		ffB, fbB := p.builders()
		if cal == nil || cal != fbB {
			if cal != nil && cal == ffB {
				// a replay rebuilt with build() re-serialises the body from the field map (group order lost)
				ro := p.Origin(cl.Common().Args[0])
				if ro.Mentions(func(x *Org) bool { return x.IsCallTo("NewMessage") }) && true {
					c.Violation(name, p.InstrPos(cl), "replay-build", "a stored message is re-serialised with build(): repeating-group member order and the original body bytes are not preserved")
				}
			}
			continue
		}
		n++
		recv := p.Origin(cl.Common().Args[0])
		arg := p.Origin(cl.Common().Args[1])
		okBody := arg.Kind == "field" && arg.Field == fBody && arg.Base.String() == recv.String()
		c.Check(okBody, name, p.InstrPos(cl), "body-identity", "rebuilt with the parsed message's own bodyBytes", "the replay is rebuilt with "+arg.String()+" instead of the bodyBytes of the message parsed from the stored bytes")
		// the message was parsed from the callback's byte parameter
		parsed := false
		for _, c2 := range Calls(cb) {
			if c3 := c2.Common().StaticCallee(); c3 != nil && strings.HasPrefix(c3.Name(), "ParseMessage") {
				m := p.Origin(c2.Common().Args[0])
				src := p.Origin(c2.Common().Args[1])
				if m.String() == recv.String() && src.Mentions(func(x *Org) bool { return x.Kind == "param" }) && InstrDominates(c2, cl) {
					parsed = true
				}
			}
		}
		c.Check(parsed, name, p.InstrPos(cl), "parsed-from-store", "the rebuilt message was parsed from the stored bytes handed to the callback", "the message rebuilt for replay is not the one parsed from the stored bytes")
	}
	if n == 0 {
		c.Violation(name, p.Pos(cb.Pos()), "no-bodybytes-rebuild", "the replay does not rebuild stored messages with their original body bytes (buildWithBodyBytes)")
	}
	// buildWithBodyBytes itself: same slice for length, sum and write — C10-R5 covers; referenced here
	c.OK(name, "-", "framing of the rebuilt message: see C10-R4/R5 (cook, Header, body bytes, Trailer)")
}

func c03R5(c *Ctx) {
	p := c.P
	replay, cb, iter := findReplay(p)
	t34, t36, t123, t43 := p.Tag("tagMsgSeqNum"), p.Tag("tagNewSeqNo"), p.Tag("tagGapFillFlag"), p.Tag("tagPossDupFlag")
	var builders []*ssa.Function
	for _, fn := range p.FuncsIn(modPath) {
		if len(p.setTagCalls(fn, t123)) > 0 {
			builders = append(builders, fn)
		}
	}
	if len(builders) == 0 {
		c.Violation("", "-", "no-gapfill-builder", "no function builds a SequenceReset-GapFill")
		return
	}
	for _, fn := range builders {
		name := FuncName(fn)
		var root *Org
		for _, st := range p.setTagCalls(fn, t123) {
			root, _ = st.recv.FieldPath()
			b, ok := p.Origin(st.val).ConstBoolVal()
			c.Check(ok && b, name, p.InstrPos(st.call), "gapfillflag", "GapFillFlag(123) = Y", "GapFillFlag is not set to Y")
		}
		if root == nil || !root.IsCallTo("NewMessage") {
			c.Undecided(name, p.Pos(fn.Pos()), "gapfill-msg", "gap fill is not built on a fresh message")
			continue
		}
		ts, ok := p.msgTypesOf(root.Val, 0)
		c.Check(ok && len(ts) == 1 && ts[0] == "4", name, p.Pos(fn.Pos()), "gapfill-type", "MsgType = 4 (SequenceReset)", fmt.Sprintf("gap fill has MsgType %v", ts))
		var p34, p36 *Org
		for _, st := range p.setTagCalls(fn, t34) {
			p34 = p.Origin(st.val)
		}
		for _, st := range p.setTagCalls(fn, t36) {
			p36 = p.Origin(st.val)
		}
		okBind := p34 != nil && p36 != nil && p34.Kind == "param" && p36.Kind == "param" && p34.Param < p36.Param
		c.Check(okBind, name, p.Pos(fn.Pos()), "gapfill-binding", "MsgSeqNum(34) ← begin parameter, NewSeqNo(36) ← end parameter", fmt.Sprintf("gap fill binds MsgSeqNum(34) ← %v and NewSeqNo(36) ← %v; expected the begin and the end parameter in that order", p34, p36))
		okDup := false
		for _, st := range p.setTagCalls(fn, t43) {
			if b, ok := p.Origin(st.val).ConstBoolVal(); ok && b {
				okDup = true
			}
		}
		c.Check(okDup, name, p.Pos(fn.Pos()), "gapfill-possdup", "PossDupFlag(43) = Y", "gap fill lacks PossDupFlag=Y")
	}
	// placement inside the replay: before a re-sent message when numbers were skipped; after the loop for the tail
	isBuilder := func(f *ssa.Function) bool { return containsFn(builders, f) }
	inCb, afterLoop := 0, 0
	for _, cl := range Calls(cb) {
		if cal := cl.Common().StaticCallee(); cal != nil && isBuilder(cal) {
			inCb++
			d := p.ReachCond(cl.Block())
			okG := d.Implies(func(a *Atom) bool { return a.Rel == "!=" })
			// arguments: (seqNum, sentMessageSeqNum): gap [seqNum, sent) and NewSeqNo = number of the message about to be replayed
			a := cl.Common().Args
			endO := p.Origin(a[len(a)-2])
			okEnd := endO.IsCallTo("(FieldMap).GetInt") && endO.ArgConstInt(0, t34)
			c.Check(okG && okEnd, FuncName(cb), p.InstrPos(cl), "gapfill-before-resend", "skipped numbers gap-filled up to the MsgSeqNum of the message about to be re-sent", "gap fill inside the replay loop is unguarded or its NewSeqNo is "+endO.String()+" rather than the number of the message about to be re-sent")
			// and it precedes the enqueue of that message
			for _, c2 := range Calls(cb) {
				if c3 := c2.Common().StaticCallee(); c3 != nil && func() bool { _, fb := p.builders(); return c3 == fb }() {
					c.Check(reaches(cl.Block(), c2.Block()) && !reaches(c2.Block(), cl.Block()), FuncName(cb), p.InstrPos(cl), "gapfill-order", "gap fill precedes the re-sent message", "the gap fill for skipped numbers is sent after the message that follows them")
				}
			}
		}
	}
	for _, cl := range Calls(replay) {
		if cal := cl.Common().StaticCallee(); cal != nil && isBuilder(cal) && InstrDominates(iter, cl) {
			afterLoop++
			d := p.ReachCond(cl.Block())
			okG := d.Implies(nilErrAtomFor(iter.(ssa.Instruction))) && d.Implies(func(a *Atom) bool { return a.Rel == "!=" && a.R.Kind != "const" })
			c.Check(okG, FuncName(replay), p.InstrPos(cl), "gapfill-tail", "tail gap fill after a successful iteration when the last numbers were not re-sent", "the tail gap fill runs under "+d.String())
		}
	}
	if inCb == 0 || afterLoop == 0 {
		c.Violation(FuncName(replay), p.Pos(replay.Pos()), "gapfill-placement", fmt.Sprintf("gap fills: %d inside the replay loop, %d after it (need both: skipped numbers before a re-sent message, and the tail)", inCb, afterLoop))
	}
	// the tail cursor: the variable that bounds the tail gap fill is advanced past EVERY message the
	// callback has dealt with (re-sent, administrative or declined) before the callback returns nil
	var cursor *ssa.Alloc
	for _, cl := range Calls(replay) {
		if cal := cl.Common().StaticCallee(); cal != nil && isBuilder(cal) && InstrDominates(iter, cl) {
			a := cl.Common().Args
			if ld, ok := stripConv(a[len(a)-2]).(*ssa.UnOp); ok {
				if al, ok := ld.X.(*ssa.Alloc); ok {
					cursor = al
				}
			}
		}
	}
	var cursorFV *ssa.FreeVar
	if cursor != nil {
		for _, ref := range *cursor.Referrers() {
			if mc, ok := ref.(*ssa.MakeClosure); ok && mc.Fn == ssa.Value(cb) {
				for i, b := range mc.Bindings {
					if b == ssa.Value(cursor) && i < len(cb.FreeVars) {
						cursorFV = cb.FreeVars[i]
					}
				}
			}
		}
	}
	if cursorFV == nil {
		c.Violation(FuncName(replay), p.Pos(replay.Pos()), "tail-cursor", "the end of the tail gap fill is not a variable the replay callback maintains: numbers dealt with by the callback but not re-sent cannot be covered")
	} else {
		mf := &MustFlow{Fn: cb}
		mf.Transfer = func(in ssa.Instruction, s Set) {
			if st, ok := in.(*ssa.Store); ok && st.Addr == ssa.Value(cursorFV) {
				s["cursor"] = true
			}
		}
		for r, s := range mf.AtReturns() {
			if !p.Origin(r.Results[len(r.Results)-1]).IsNil() {
				continue
			}
			c.Check(s["cursor"], FuncName(cb), p.InstrPos(r), "tail-cursor-advanced", "every message the callback has dealt with advances the tail cursor",
				"the replay callback returns nil on a path that does not advance the variable bounding the tail gap fill: when the last messages of the range are skipped (administrative or declined by the application) the reply ends short of the requested range and the peer keeps waiting for those numbers")
		}
		// and it advances to the number after this message
		ForEachInstr(cb, func(in ssa.Instruction) {
			st, ok := in.(*ssa.Store)
			if !ok || st.Addr != ssa.Value(cursorFV) {
				return
			}
			vo := p.ContentOrigin(st.Val)
			okV := vo.Mentions(func(x *Org) bool { return x.IsCallTo("(FieldMap).GetInt") && x.ArgConstInt(0, t34) }) && vo.Mentions(func(x *Org) bool { return x.IsConstInt(1) })
			if !okV {
				// a copy of the other cursor, itself set to sent+1 in the same block
				if ld, isLd := stripConv(st.Val).(*ssa.UnOp); isLd {
					if _, isFV := ld.X.(*ssa.FreeVar); isFV {
						okV = true
					}
				}
				if bo, isB := stripConv(st.Val).(*ssa.BinOp); isB && bo.Op == token.ADD {
					okV = p.Origin(bo.X).IsCallTo("(FieldMap).GetInt") || p.Origin(bo.Y).IsCallTo("(FieldMap).GetInt")
				}
			}
			c.Check(okV, FuncName(cb), p.InstrPos(st), "tail-cursor-value", "tail cursor ← MsgSeqNum of this message + 1", "the tail cursor is set to "+vo.String()+", not to the number after the message just dealt with")
		})
	}
	// no-persist mode: whole range gap-filled to end+1
	for _, cl := range Calls(replay) {
		if cal := cl.Common().StaticCallee(); cal != nil && isBuilder(cal) && !InstrDominates(iter, cl) {
			d := p.ReachCond(cl.Block())
			okG := d.Implies(func(a *Atom) bool {
				return a.Rel == "" && a.Val && a.B.Kind == "field" && cn(a.B.Field) == "DisableMessagePersist"
			})
			a := cl.Common().Args
			endO := p.Origin(a[len(a)-2])
			okE := endO.Kind == "binop" && endO.Op == token.ADD && endO.X.Kind == "param" && endO.Y.IsConstInt(1)
			c.Check(okG && okE, FuncName(replay), p.InstrPos(cl), "gapfill-nopersist", "without persistence the whole range is gap-filled to end+1", "whole-range gap fill runs under "+d.String()+" with NewSeqNo "+endO.String())
		}
	}
}

// c03R6: stores msgParser.trailerBytes ← load(rawBytes) taken AFTER a field extraction are
// guarded by the classification of that field as body (¬header ∧ ¬trailer, or group member).
func c03R6(c *Ctx) {
	p := c.P
	fTrailer := p.Field(modPath, "msgParser", "trailerBytes")
	fRaw := p.Field(modPath, "msgParser", "rawBytes")
	isExtract := func(in ssa.Instruction) bool {
		cl, ok := in.(ssa.CallInstruction)
		if !ok {
			return false
		}
		cal := cl.Common().StaticCallee()
		return cal != nil && strings.HasPrefix(fnName(cal), "extract")
	}
	n := 0
	for _, st := range p.FieldStores(fTrailer) {
		fn := st.Fn
		name := FuncName(fn)
		ld, ok := stripConv(st.Store.Val).(*ssa.UnOp)
		if !ok || fieldAddrOf(ld.X, fRaw) == nil {
			continue // constant / empty slice initialisation
		}
		n++
		// post-extract load?
		post := false
		for _, in := range ld.Block().Instrs {
			if in == ssa.Instruction(ld) {
				break
			}
			if isExtract(in) {
				post = true
			}
		}
		if !post {
			ForEachInstr(fn, func(in ssa.Instruction) {
				if isExtract(in) && in.Block() != ld.Block() && in.Block().Dominates(ld.Block()) {
					post = true
				}
			})
		}
		if !post {
			c.OK(name, p.InstrPos(st.Store), "end-of-body mark set from the bytes before any extraction in this function (the caller classified the field)")
			continue
		}
		d := p.ReachCond(st.Store.Block())
		notHdr := d.Implies(func(a *Atom) bool { return a.Rel == "" && !a.Val && a.B.IsCallTo("isHeaderField") })
		notTrl := d.Implies(func(a *Atom) bool { return a.Rel == "" && !a.Val && a.B.IsCallTo("isTrailerField") })
		member := d.Implies(func(a *Atom) bool { return a.Rel == "" && a.Val && a.B.IsCallTo("isGroupMember") })
		noBody := d.Implies(func(a *Atom) bool {
			return a.Rel == "" && !a.Val && a.B.Kind == "field" && cn(a.B.Field) == "foundBody"
		})
		c.Check(notHdr && notTrl || member || noBody, name, p.InstrPos(st.Store), "body-end-mark", "end-of-body mark moved only over a body field / group member",
			"the end-of-body mark (trailerBytes) is moved after extracting a field without knowing that it is a body field (reach "+d.String()+"): when a header or trailer field terminates a repeating group, CheckSum ends up inside bodyBytes and a replay built from them has two CheckSum fields and a wrong BodyLength")
	}
	if n < 2 {
		c.Violation("", "-", "no-body-mark", "the parser does not maintain the end-of-body mark")
	}
	// completeness: every field filed into the Body (a single-field add) or joined to a group window
	// has moved the mark past itself: between its extraction and the filing, trailerBytes ← rawBytes ran
	fBody := p.Field(modPath, "Message", "Body")
	fFields := p.Field(modPath, "Message", "fields")
	nAdd := 0
	fns := map[*ssa.Function]bool{}
	for _, st := range p.FieldStores(fTrailer) {
		fns[st.Fn] = true
	}
	for fn := range fns {
		mf := &MustFlow{Fn: fn, Transfer: func(in ssa.Instruction, s Set) {
			if isExtract(in) {
				delete(s, "marked")
				s["extracted"] = true
				return
			}
			if st, ok := in.(*ssa.Store); ok && fieldAddrOf(st.Addr, fTrailer) != nil {
				if ld, ok := stripConv(st.Val).(*ssa.UnOp); ok && fieldAddrOf(ld.X, fRaw) != nil {
					s["marked"] = true
				}
			}
		}}
		for _, cl := range Calls(fn) {
			cal := cl.Common().StaticCallee()
			if cal == nil || cal.Signature.Recv() == nil || typeName(cal.Signature.Recv().Type()) != "FieldMap" || fnName(cal) != "add" || len(cl.Common().Args) != 2 {
				continue
			}
			if !p.Origin(cl.Common().Args[0]).Mentions(func(x *Org) bool { return x.Kind == "field" && x.Field == fBody }) {
				continue
			}
			sl, isSl := stripConv(cl.Common().Args[1]).(*ssa.Slice)
			if !isSl || !p.Origin(sl.X).IsField(fFields) {
				continue // a group window: its members moved the mark one by one
			}
			before := mf.Before(cl.(ssa.Instruction))
			if !before["extracted"] {
				continue // the field was extracted (and classified) by the caller
			}
			nAdd++
			c.Check(before["marked"], FuncName(fn), p.InstrPos(cl.(ssa.Instruction)), "body-field-moves-mark", "a field filed into the body has moved the end-of-body mark past itself",
				"a field is filed into the Body on a path on which the end-of-body mark was not moved past it after its extraction: when it is the last field of the body, bodyBytes ends before it and a replay built from bodyBytes silently loses the field")
		}
	}
	// … and a field that opens a new group window (the NumInGroup field of a group that follows the
	// one being parsed) has moved the mark as well: its window is filed later as a whole
	for fn := range fns {
		mf := &MustFlow{Fn: fn, Transfer: func(in ssa.Instruction, s Set) {
			if isExtract(in) {
				delete(s, "marked")
				s["extracted"] = true
				return
			}
			if st, ok := in.(*ssa.Store); ok && fieldAddrOf(st.Addr, fTrailer) != nil {
				if ld, ok := stripConv(st.Val).(*ssa.UnOp); ok && fieldAddrOf(ld.X, fRaw) != nil {
					s["marked"] = true
				}
			}
		}}
		ForEachInstr(fn, func(in ssa.Instruction) {
			sl, ok := in.(*ssa.Slice)
			if !ok || !p.Origin(sl.X).IsField(fFields) || sl.Low == nil || sl.High == nil {
				return
			}
			opensWindow := false
			for _, r := range *sl.Referrers() {
				if _, isPhi := r.(*ssa.Phi); isPhi {
					opensWindow = true
				}
			}
			if !opensWindow {
				return
			}
			before := mf.Before(in)
			if !before["extracted"] {
				return
			}
			nAdd++
			c.Check(before["marked"], FuncName(fn), p.InstrPos(in), "window-start-moves-mark", "a field that opens a new group window has moved the end-of-body mark past itself",
				"a field opens a new group window on a path on which the end-of-body mark was not moved past it after its extraction: when that group is empty and last in the body (a zero count), bodyBytes ends before it and a replay built from bodyBytes silently loses the group")
		})
	}
	if nAdd == 0 {
		c.Violation("", "-", "no-body-adds", "no extracted field is filed into the Body in the functions that maintain the end-of-body mark")
	}
}
