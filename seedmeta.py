#!/usr/bin/env python3
"""Adds to seeded/<id>/meta.json the round a change was written in and, for the rounds that were
measured blind (5-7), which checks reported it with the rule set as it stood when the change arrived
(read from the logs of those runs, passed as a directory)."""
import json, glob, os, re, sys
logs = sys.argv[1] if len(sys.argv) > 1 else None
rounds = {c: i // 2 + 1 for i, c in enumerate("abcdefghijklmnop")}
for d in sorted(glob.glob('/verif/seeded/C*-*')):
    f = os.path.join(d, 'meta.json')
    if not os.path.exists(f):
        continue
    m = json.load(open(f))
    sid = os.path.basename(d)
    m['round'] = rounds[sid[-1]]
    if logs and m['round'] >= 5:
        p = os.path.join(logs, 'chk-%s.out' % sid)
        if os.path.exists(p):
            for line in open(p, errors='replace'):
                mm = re.match(r'^%s caught_by:(.*)$' % re.escape(sid), line.strip())
                if mm:
                    m['reported_when_written'] = mm.group(1).split()
    json.dump(m, open(f, 'w'), indent=1)
