#!/usr/bin/env python3
"""Run every registered check against behaviour-preserving refactorings (must stay silent).

usage: refcheck.py <patch.diff>... [--bin /verif/bin/qfsa]
Each patch is applied to a fresh scratch worktree of /repo (removed afterwards), built,
and every check is run with QFSA_REPO pointing at it. Prints one line per patch.
"""
import json, os, subprocess, sys

ENV = dict(os.environ, GOFLAGS="-mod=mod", GOPROXY="off", GOSUMDB="off", GOTOOLCHAIN="local")


def sh(cmd, cwd, env=ENV):
    p = subprocess.run(cmd, cwd=cwd, env=env, stdout=subprocess.PIPE, stderr=subprocess.STDOUT, text=True)
    return p.returncode, p.stdout


def main():
    args = sys.argv[1:]
    binp = "/verif/bin/qfsa"
    if "--bin" in args:
        i = args.index("--bin"); binp = args[i + 1]; del args[i:i + 2]
    ids = [c["property_id"] for c in json.load(open("/verif/MANIFEST.json"))["checks"]]
    out = {}
    for patch in args:
        name = os.path.basename(patch)
        wt = "/tmp/rc-" + name.replace(".diff", "")
        subprocess.run(["git", "-C", "/repo", "worktree", "remove", "--force", wt], stdout=subprocess.DEVNULL, stderr=subprocess.DEVNULL)
        sh(["git", "-C", "/repo", "worktree", "add", "--detach", wt, "HEAD"], "/")
        try:
            rc, o = sh(["git", "apply", patch], wt)
            if rc != 0:
                print(name, "PATCH-DOES-NOT-APPLY", o.strip()[:200]); continue
            rc, o = sh(["go", "build", "./..."], wt)
            if rc != 0:
                print(name, "BUILD-FAILS", o.strip()[:200]); continue
            alarms = {}
            for pid in ids:
                rc, o = sh([binp, "check", pid, "--no-evidence"], "/verif", env=dict(ENV, QFSA_REPO=wt, QFSA_VERIF="/verif"))
                if rc != 0:
                    alarms[pid] = [l[:400] for l in o.splitlines() if l.startswith("VIOLATED") or l.startswith("UNDECIDED")][:3]
            out[name] = alarms
            print(name, "silent" if not alarms else "ALARM " + json.dumps(alarms, indent=1))
        finally:
            subprocess.run(["git", "-C", "/repo", "worktree", "remove", "--force", wt], stdout=subprocess.DEVNULL, stderr=subprocess.DEVNULL)
    return out


if __name__ == "__main__":
    main()
