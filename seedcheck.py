#!/usr/bin/env python3
"""Confirm an independently written breaking change and run the checks against it.

usage: seedcheck.py /tmp/seed-out/C01-a
       SEED_PHASE=validate  only steps 1-3 (sequential: the suite uses fixed ports), result cached in $SEED_CACHE
       SEED_PHASE=checks    only step 4 (may run in parallel), result cached
       SEED_PHASE=assemble  step 5 from the two cached results

1. fresh scratch worktree of /repo (removed afterwards)
2. demonstration passes on the unchanged tree
3. patch applies, builds; demonstration fails; the existing suite still passes
4. every registered check is run against the patched scratch tree (QFSA_REPO)
5. result copied to /verif/seeded/<id>/ (patch.diff, demonstration, meta.json)
"""
import json, os, shlex, shutil, subprocess, sys, glob

ENV = dict(os.environ, GOFLAGS="-mod=mod", GOPROXY="off", GOSUMDB="off", GOTOOLCHAIN="local")
SUITE = ["go", "test", "-vet=off", "-count=1", ".", "./internal/...", "./datadictionary/...", "./store/file/...", "./store/sql/...", "./config/..."]


def sh(cmd, cwd, env=ENV, timeout=1500):
    p = subprocess.run(cmd, cwd=cwd, env=env, stdout=subprocess.PIPE, stderr=subprocess.STDOUT, text=True, timeout=timeout)
    return p.returncode, p.stdout


def main():
    src = sys.argv[1].rstrip("/")
    sid = os.path.basename(src)
    meta = json.load(open(os.path.join(src, "meta.json")))
    prop = meta["property"]
    wt = "/tmp/sv-" + sid
    subprocess.run(["git", "-C", "/repo", "worktree", "remove", "--force", wt], stdout=subprocess.DEVNULL, stderr=subprocess.DEVNULL)
    rc, out = sh(["git", "-C", "/repo", "worktree", "add", "--detach", wt, "HEAD"], "/")
    if rc != 0:
        print(out); sys.exit(2)
    res = {"id": sid, "property": prop}
    phase = os.environ.get("SEED_PHASE", "all")
    cache = os.environ.get("SEED_CACHE", "/tmp/seed-res2")
    os.makedirs(cache, exist_ok=True)
    demo_rel = meta["demo_file"]
    demo_src = os.path.join(src, os.path.basename(demo_rel))
    if phase == "assemble":
        subprocess.run(["git", "-C", "/repo", "worktree", "remove", "--force", wt], stdout=subprocess.DEVNULL, stderr=subprocess.DEVNULL)
        res.update(json.load(open(os.path.join(cache, sid + ".validate.json"))))
        res.update(json.load(open(os.path.join(cache, sid + ".checks.json"))))
        return finish(res, meta, src, sid, demo_src, prop)
    if phase == "checks":
        wt2 = wt + "-chk"
        subprocess.run(["git", "-C", "/repo", "worktree", "remove", "--force", wt], stdout=subprocess.DEVNULL, stderr=subprocess.DEVNULL)
        subprocess.run(["git", "-C", "/repo", "worktree", "remove", "--force", wt2], stdout=subprocess.DEVNULL, stderr=subprocess.DEVNULL)
        sh(["git", "-C", "/repo", "worktree", "add", "--detach", wt2, "HEAD"], "/")
        try:
            rc, out = sh(["git", "apply", os.path.join(src, "patch.diff")], wt2)
            r2 = {"patch_applies_for_checks": rc == 0}
            r2.update(run_checks(wt2, prop))
            json.dump(r2, open(os.path.join(cache, sid + ".checks.json"), "w"), indent=1)
            return dict(res, **r2, valid=None)
        finally:
            subprocess.run(["git", "-C", "/repo", "worktree", "remove", "--force", wt2], stdout=subprocess.DEVNULL, stderr=subprocess.DEVNULL)
    try:
        shutil.copy(demo_src, os.path.join(wt, demo_rel))
        demo_cmd = shlex.split(meta["demo_run"])
        rc, out = sh(demo_cmd, wt)
        res["demo_passes_without_change"] = rc == 0
        if rc != 0:
            res["note"] = "demo fails on the unchanged tree: " + out[-400:]
        rc, out = sh(["git", "apply", os.path.join(src, "patch.diff")], wt)
        res["patch_applies"] = rc == 0
        if rc != 0:
            res["note"] = out[-400:]
            return res
        rc, out = sh(["go", "build", "./..."], wt)
        res["builds"] = rc == 0
        rc, out = sh(demo_cmd, wt)
        res["demo_fails_with_change"] = rc != 0
        os.remove(os.path.join(wt, demo_rel))
        rc, out = sh(SUITE, wt)
        tries = 0
        while rc != 0 and "address already in use" in out and tries < 4:
            import time; time.sleep(20)
            rc, out = sh(SUITE, wt)
            tries += 1
        res["existing_suite_passes"] = rc == 0
        if rc != 0:
            res["suite_tail"] = out[-600:]
        if phase == "validate":
            json.dump({k: res.get(k) for k in ("demo_passes_without_change", "patch_applies", "builds", "demo_fails_with_change", "existing_suite_passes", "note", "suite_tail")}, open(os.path.join(cache, sid + ".validate.json"), "w"), indent=1)
            return dict(res, valid=None)
        res.update(run_checks(wt, prop))
    finally:
        subprocess.run(["git", "-C", "/repo", "worktree", "remove", "--force", wt], stdout=subprocess.DEVNULL, stderr=subprocess.DEVNULL)
    return finish(res, meta, src, sid, demo_src, prop)


def run_checks(wt, prop):
    # run the checks on the patched scratch tree
    checks = {}
    ids = [c["property_id"] for c in json.load(open("/verif/MANIFEST.json"))["checks"]]
    only = os.environ.get("SEED_ONLY")
    for pid in ids:
        if only and pid not in only.split(","):
            continue
        rc, out = sh(["/verif/bin/qfsa", "check", pid, "--no-evidence"], "/verif", env=dict(ENV, QFSA_REPO=wt, QFSA_VERIF="/verif"))
        lines = [l for l in out.splitlines() if l.startswith("VIOLATED") or l.startswith("UNDECIDED")]
        checks[pid] = {"exit": rc, "reports": [l[:300] for l in lines[:4]]}
    r = {"checks": checks}
    r["caught_by"] = sorted(p for p, v in checks.items() if v["exit"] != 0)
    r["caught_by_own_property"] = prop in r["caught_by"]
    return r


def finish(res, meta, src, sid, demo_src, prop):
    valid = res.get("demo_passes_without_change") and res.get("patch_applies") and res.get("builds") and res.get("demo_fails_with_change") and res.get("existing_suite_passes")
    res["valid"] = bool(valid)
    if valid:
        dst = os.path.join("/verif/seeded", sid)
        os.makedirs(dst, exist_ok=True)
        shutil.copy(os.path.join(src, "patch.diff"), dst)
        shutil.copy(demo_src, dst)
        m = dict(meta)
        m["confirmed"] = {k: res[k] for k in ("demo_passes_without_change", "patch_applies", "builds", "demo_fails_with_change", "existing_suite_passes")}
        m["what_i_ran"] = "scratch worktree of /repo: " + meta["demo_run"] + " (passes before, fails after the patch); " + " ".join(SUITE) + " (passes with the patch); bin/qfsa check <each property> with QFSA_REPO=<patched scratch tree>"
        m["caught_by"] = res["caught_by"]
        m["reports"] = {p: v["reports"] for p, v in res["checks"].items() if v["exit"] != 0}
        json.dump(m, open(os.path.join(dst, "meta.json"), "w"), indent=1)
    return res


if __name__ == "__main__":
    r = main()
    print(json.dumps({k: v for k, v in r.items() if k != "checks"}, indent=1))
