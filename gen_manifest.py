#!/usr/bin/env python3
# Regenerates MANIFEST.json from checks.json (one entry per claimed property) and properties.jsonl.
import json
props=[json.loads(l) for l in open('properties.jsonl')]
checks=json.load(open('checks.json'))
na=json.load(open('not_applicable.json'))
claimed={c['id'] for c in checks}
m={"version":1,
"setup_cmd":"./setup.sh",
"hooks":{"guard":"verif","enable":"none: no hooks are installed; every check analyses /repo's working tree as is (go/packages + go/ssa), nothing is executed","baseline_off_cmd":"cd /repo && go test -mod=mod -vet=off -count=1 ./...","source_commits":[],"add_only":True},
"engines":[{"name":"qfsa","path":"tool","serves_properties":sorted(claimed),"kind_free_text":"repository-specific static analyser: go/packages load of /repo, go/ssa, VTA/CHA call graphs, Origin/Guards/must-dataflow/lockset primitives, per-property structural rules"}],
"checks":[],
"not_applicable":[],
"notes":"Technique family: static analysis only. Each check decides structural necessary conditions of its property on every path of the current source; what is not decided is stated in DESIGN.md and in each evidence file."}
import os
def later(c):
    # rules the hand-written level text does not name (added in later rounds): take them from the evidence file
    p='evidence/%s.json'%c['id']
    if not os.path.exists(p): return ''
    rules=json.load(open(p))['coverage'].get('rules',[])
    extra=[r['rule'] for r in rules if ('(= ' not in r['rule'])]
    named=[x for x in extra if x[:24].lower() in c['text'].lower()]
    rest=[x for x in extra if x not in named]
    if not rest: return ''
    return ' Rule set decided on every run (instance counts in the evidence file): '+'; '.join(rest)+'.'
for c in checks:
    c=dict(c); c['text']=c['text']+later(c)
    m["checks"].append({
      "property_id":c['id'],
      "quick_cmd":"bin/qfsa check %s --tier quick"%c['id'],
      "thorough_cmd":"bin/qfsa check %s --tier thorough"%c['id'],
      "evidence_file":"evidence/%s.json"%c['id'],
      "replay_cmd_template":"bin/qfsa explain {path}",
      "engine":"qfsa",
      "level_claimed":{"category":"other","text":c['text'],"design_ref":"DESIGN.md §2 "+c['id']},
      "level_note":c.get('note',"trusted: go/types, go/ssa, call-graph construction; rules decide only the structural conditions named"),
      "technique":c['technique']})
for p in props:
    if p['id'] not in claimed:
        m["not_applicable"].append({"property_id":p['id'],"reason":na.get(p['id'],"check not built yet (build in progress)")})
json.dump(m,open('MANIFEST.json','w'),indent=1)
print(len(m['checks']),'checks',len(m['not_applicable']),'n/a')
