#!/bin/sh
# Build the analyser from files on disk only (offline).
set -e
cd "$(dirname "$0")"
export GOFLAGS=-mod=mod GOPROXY=off GOSUMDB=off GOTOOLCHAIN=local
unset GOWORK
mkdir -p bin evidence
cd tool
go build -o ../bin/qfsa .
