#!/usr/bin/env python3
"""Prints the markdown table for DESIGN.md §8.5 from seeded/<id>/meta.json."""
import json, glob, os
rows = []
per_round = {}
for d in sorted(glob.glob('/verif/seeded/C*-*')):
    f = os.path.join(d, 'meta.json')
    if not os.path.exists(f):
        continue
    m = json.load(open(f))
    sid = os.path.basename(d)
    what = m['what_breaks'].split('. ')[0].replace('|', '/').replace('\n', ' ')
    if len(what) > 200:
        what = what[:197] + '…'
    rules = []
    for p, reps in sorted(m.get('reports', {}).items()):
        rs = sorted({r.split('rule=')[1].split(' ')[0] for r in reps if 'rule=' in r})
        rules.append(', '.join(rs) if rs else p)
    own = m['property'] in m.get('caught_by', [])
    rnd = m.get('round', 0)
    blind = ''
    if 'reported_when_written' in m:
        b = m['reported_when_written']
        blind = 'own' if m['property'] in b else ('other: ' + ' '.join(b) if b else 'none')
    rows.append((sid, rnd, what, '; '.join(rules) if rules else '— (not reported)', 'yes' if own else ('other' if m.get('caught_by') else 'NO'), blind))
    pr = per_round.setdefault(rnd, {'n': 0, 'own': 0, 'any': 0, 'b_own': 0, 'b_any': 0, 'b_n': 0})
    pr['n'] += 1
    pr['own'] += own
    pr['any'] += bool(m.get('caught_by'))
    if 'reported_when_written' in m:
        pr['b_n'] += 1
        pr['b_own'] += m['property'] in m['reported_when_written']
        pr['b_any'] += bool(m['reported_when_written'])
print('| seed | round | change (first sentence of the author\'s description) | rules reporting it (final rule set) | own property | when written |')
print('|------|------|------|------|------|------|')
for r in rows:
    print('| %s | %d | %s | %s | %s | %s |' % r)
n = len(rows); own = sum(1 for r in rows if r[4] == 'yes'); oth = sum(1 for r in rows if r[4] == 'other'); no = sum(1 for r in rows if r[4] == 'NO')
print('\n%d confirmed changes: %d reported by the check of their own property, %d only by another property\'s check, %d not reported (final rule set).\n' % (n, own, oth, no))
print('| round | changes kept | own property (final) | any check (final) | own property when written | any check when written |')
print('|------|------|------|------|------|------|')
for rnd in sorted(per_round):
    pr = per_round[rnd]
    bw = ('%d/%d' % (pr['b_own'], pr['b_n'])) if pr['b_n'] else 'not measured blind'
    ba = ('%d/%d' % (pr['b_any'], pr['b_n'])) if pr['b_n'] else ''
    print('| %d | %d | %d | %d | %s | %s |' % (rnd, pr['n'], pr['own'], pr['any'], bw, ba))
