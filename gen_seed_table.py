#!/usr/bin/env python3
"""Prints the markdown table for DESIGN.md §8.5 from seeded/<id>/meta.json."""
import json, glob, os
rows = []
for d in sorted(glob.glob('/verif/seeded/C*-*')):
    f = os.path.join(d, 'meta.json')
    if not os.path.exists(f):
        continue
    m = json.load(open(f))
    sid = os.path.basename(d)
    what = m['what_breaks'].split('. ')[0].replace('|', '/')
    if len(what) > 230:
        what = what[:227] + '…'
    rules = []
    for p, reps in sorted(m.get('reports', {}).items()):
        rs = sorted({r.split('rule=')[1].split(' ')[0] for r in reps if 'rule=' in r})
        rules.append(p + ': ' + ', '.join(rs) if rs else p)
    own = m['property'] in m.get('caught_by', [])
    rows.append((sid, what, '; '.join(rules) if rules else '— (not caught)', 'yes' if own else ('other' if m.get('caught_by') else 'NO')))
print('| seed | change (first sentence of the author\'s description) | reported by | own property |')
print('|------|------|------|------|')
for r in rows:
    print('| %s | %s | %s | %s |' % r)
n = len(rows); own = sum(1 for r in rows if r[3] == 'yes'); oth = sum(1 for r in rows if r[3] == 'other'); no = sum(1 for r in rows if r[3] == 'NO')
print('\n%d confirmed changes: %d reported by the check of their own property, %d only by another property\'s check, %d not reported.' % (n, own, oth, no))
